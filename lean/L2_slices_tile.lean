import Mathlib.Data.List.Basic
import Mathlib.Data.List.Chain

/-- L2: if consecutive half-open intervals tile [c0, last), the concatenation of the slices xs[a_j : b_j] is xs[c0 : last].
Bridges the SMT-level postcondition of `_get_subitems` / `__getitem__` (consecutive pieces tile [S, E)) and of `chunk_bounds`
(kept parts tile [0, n)) to the statement's "concatenate to exactly the rows NumPy would return". -/
def slice {α : Type} (xs : List α) (a b : ℕ) : List α := (xs.drop a).take (b - a)

theorem slice_append {α : Type} (xs : List α) (a b c : ℕ) (hab : a ≤ b) (hbc : b ≤ c) :
    slice xs a b ++ slice xs b c = slice xs a c := by
  unfold slice
  have h1 : c - a = (b - a) + (c - b) := by omega
  have h2 : xs.drop b = (xs.drop a).drop (b - a) := by
    rw [List.drop_drop]; congr 1; omega
  rw [h1, h2, List.take_add]

theorem head_le_last : ∀ (c0 : ℕ) (cuts : List ℕ), List.IsChain (· ≤ ·) (c0 :: cuts) →
    c0 ≤ (c0 :: cuts).getLast (by simp) := by
  intro c0 cuts
  induction cuts generalizing c0 with
  | nil => intro _; simp
  | cons c1 rest ih =>
    intro h
    have h01 : c0 ≤ c1 := (List.isChain_cons_cons.mp h).1
    have hrest := (List.isChain_cons_cons.mp h).2
    have := ih c1 hrest
    rw [List.getLast_cons_cons]
    omega

theorem slices_tile {α : Type} (xs : List α) :
    ∀ (c0 : ℕ) (cuts : List ℕ), List.IsChain (· ≤ ·) (c0 :: cuts) →
      ((List.zip (c0 :: cuts) cuts).map (fun p => slice xs p.1 p.2)).flatten
        = slice xs c0 ((c0 :: cuts).getLast (by simp)) := by
  intro c0 cuts
  induction cuts generalizing c0 with
  | nil => intro _; simp [slice]
  | cons c1 rest ih =>
    intro h
    have h01 : c0 ≤ c1 := (List.isChain_cons_cons.mp h).1
    have hrest : List.IsChain (· ≤ ·) (c1 :: rest) := (List.isChain_cons_cons.mp h).2
    have hlast_le := head_le_last c1 rest hrest
    simp only [List.zip_cons_cons, List.map_cons, List.flatten_cons]
    rw [ih c1 hrest, List.getLast_cons_cons]
    exact slice_append xs c0 c1 _ h01 hlast_le
