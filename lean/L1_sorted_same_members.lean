import Mathlib.Data.List.Sort
/-- L1: two strictly increasing integer lists with the same members are equal.
Used to turn "pieces are increasing and have the same member set as the requested index list" into equality of lists. -/
theorem sorted_same_members_eq (l₁ l₂ : List ℤ)
    (h₁ : l₁.Pairwise (· < ·)) (h₂ : l₂.Pairwise (· < ·))
    (hm : ∀ x, x ∈ l₁ ↔ x ∈ l₂) : l₁ = l₂ := by
  have n₁ : l₁.Nodup := h₁.imp (fun h => ne_of_lt h)
  have n₂ : l₂.Nodup := h₂.imp (fun h => ne_of_lt h)
  have hp : l₁.Perm l₂ := (List.perm_ext_iff_of_nodup n₁ n₂).mpr hm
  exact hp.eq_of_pairwise' h₁ h₂
