import Mathlib

/-- L3 (discrete step): if an integer-indexed sequence takes different values at a and a+n, two consecutive positions in between differ. -/
theorem L3_step_exists (S : ℤ → ℤ) : ∀ (n : ℕ) (a : ℤ), S a ≠ S (a + n) →
    ∃ q, a < q ∧ q ≤ a + n ∧ S (q - 1) ≠ S q := by
  intro n
  induction n with
  | zero => intro a h; simp at h
  | succ k ih =>
    intro a h
    by_cases hk : S a = S (a + k)
    · refine ⟨a + k + 1, by omega, by push_cast; omega, ?_⟩
      have e1 : a + (k : ℤ) + 1 - 1 = a + k := by ring
      have e2 : a + ((k + 1 : ℕ) : ℤ) = a + k + 1 := by push_cast; ring
      rw [e1, ← hk]
      rw [e2] at h
      exact h
    · obtain ⟨q, h1, h2, h3⟩ := ih a hk
      exact ⟨q, h1, by push_cast; omega, h3⟩

/-- the form used by the verifier: positions a < b -/
theorem L3 (S : ℤ → ℤ) (a b : ℤ) (hab : a < b) (hne : S a ≠ S b) :
    ∃ q, a < q ∧ q ≤ b ∧ S (q - 1) ≠ S q := by
  have hb : b = a + ((b - a).toNat : ℤ) := by
    rw [Int.toNat_of_nonneg (by omega)]; ring
  rw [hb] at hne
  obtain ⟨q, h1, h2, h3⟩ := L3_step_exists S (b - a).toNat a hne
  exact ⟨q, h1, by rw [hb]; exact h2, h3⟩
