import Mathlib

/-- L4 (floor index): in a finite sequence whose first element is at most p there is a position k with idx k ≤ p whose successor
(if any) is above p.  (No monotonicity needed: take the last position at most p.) -/
theorem L4_floor_index (idx : ℕ → ℤ) : ∀ (m : ℕ) (p : ℤ), 1 ≤ m → idx 0 ≤ p →
    ∃ k, k < m ∧ idx k ≤ p ∧ (k + 1 < m → p < idx (k + 1)) := by
  intro m
  induction m with
  | zero => intro p h; omega
  | succ n ih =>
    intro p hm h0
    by_cases hn : n = 0
    · subst hn; exact ⟨0, by omega, h0, by intro h; omega⟩
    · obtain ⟨k, hk, hle, hnext⟩ := ih p (by omega) h0
      by_cases hlast : k + 1 < n
      · exact ⟨k, by omega, hle, fun _ => hnext hlast⟩
      · have hk' : k + 1 = n := by omega
        by_cases hp : idx n ≤ p
        · exact ⟨n, by omega, hp, by intro h; omega⟩
        · refine ⟨k, by omega, hle, ?_⟩
          intro _
          rw [hk']; omega
