# C03 — every route to a spike waveform yields the same zero-padded raw window.
# Bounded stand-in (tier B): the contracts of DESIGN 4/C03 evaluated on the real functions over an
# enumerated small scope.  Spec function (from the statement):
#   W(s, n, ch)[k][j] = A[s - n//2 + k][ch[j]]  if 0 <= s - n//2 + k < dur and ch[j] != -1  else 0
# Readings (DESIGN Appendix G): 0 <= s < dur, spike vectors sorted (ties allowed), unit factor is an int or a
# float, channel lists are integer arrays with distinct non-negative entries plus any number of -1.
import os
os.environ.setdefault('TQDM_DISABLE', '1')   # iter_waveforms draws a tqdm bar on stderr; output only, no semantics
import itertools, contextlib, io, warnings, tempfile, shutil
from pathlib import Path
import numpy as np

_TMPROOT = '/dev/shm' if (os.path.isdir('/dev/shm') and os.access('/dev/shm', os.W_OK)) else None


@contextlib.contextmanager
def tempdir():
    """Like concrete.common.tempdir, on the memory file system when there is one (thousands of tiny recordings)."""
    d = tempfile.mkdtemp(prefix='pvc_', dir=_TMPROOT)
    try:
        yield d
    finally:
        shutil.rmtree(d, ignore_errors=True)


from phylib.io import traces as T
from phylib.utils import Bunch

CONTRACTED = ['phylib/io/traces.py::_extract_waveform', 'phylib/io/traces.py::extract_waveforms',
              'phylib/io/traces.py::iter_waveforms', 'phylib/io/traces.py::export_waveforms',
              'phylib/io/traces.py::NpyWriter.__init__', 'phylib/io/traces.py::NpyWriter.append',
              'phylib/io/traces.py::NpyWriter.close', 'phylib/io/traces.py::get_spike_waveforms',
              'phylib/io/traces.py::BaseEphysReader.iter_chunks', 'phylib/io/traces.py::MtscompEphysReader.iter_chunks',
              'phylib/io/model.py::TemplateModel.get_waveforms',
              'phylib/io/model.py::TemplateModel.save_spikes_subset_waveforms']


# ----------------------------------------------------------------------------------------------
# oracle and input construction (never calls phylib)
# ----------------------------------------------------------------------------------------------

def make_data(dur, nch, dtype, big=False):
    """Recording with pairwise distinct, non-zero samples (so zero padding, row shifts and channel mix-ups are all
    visible); float64 values are not representable in float32, float32 values are not integers, products with the
    factors 1, 2, 0.5, 2.5, -3 are exact in every float type."""
    r = np.arange(dur)[:, None]
    c = np.arange(nch)[None, :]
    base = 1 + r * nch + c
    sign = np.where((r + c) % 2 == 0, 1, -1)
    if dtype == 'int16':
        a = sign * (base + (20000 if big else 0))
    elif dtype == 'float32':
        a = sign * base / 8.0
    else:
        a = sign * (base / 8.0 + 2.0 ** -30)
    return a.astype(dtype)


def W(A, s, n, ch):
    """The statement's window, by explicit loops."""
    out = np.zeros((n, len(ch)), dtype=A.dtype)
    for k in range(n):
        r = s - n // 2 + k
        if 0 <= r < A.shape[0]:
            for j, c in enumerate(ch):
                if c != -1:
                    out[k, j] = A[r, c]
    return out


def windows(A, spikes, n, chans, per_spike):
    ncl = len(chans[0]) if per_spike and len(chans) else (0 if per_spike else len(chans))
    if not len(spikes):
        return np.zeros((0, n, ncl), dtype=A.dtype)
    return np.stack([W(A, int(s), n, chans[i] if per_spike else chans) for i, s in enumerate(spikes)])


def spike_arg(spikes, sdtype):
    if sdtype == 'pyint':
        return [int(s) for s in spikes]
    return np.array(spikes, dtype=sdtype)


@contextlib.contextmanager
def quiet():
    with warnings.catch_warnings():
        warnings.simplefilter('ignore')
        with contextlib.redirect_stderr(io.StringIO()):
            yield


def same(x, y):
    x, y = np.asarray(x), np.asarray(y)
    return x.shape == y.shape and bool(np.array_equal(x, y))


def brief(x):
    x = np.asarray(x)
    return 'shape=%s dtype=%s %s' % (x.shape, x.dtype, x.tolist() if x.size <= 60 else '...')


@contextlib.contextmanager
def open_traces(inp, A, d=None):
    """Build the recording object named by inp['backend'] holding exactly the array A (files go to d)."""
    backend = inp['backend']
    cs = inp.get('cs', 1)
    sizes = inp['sizes']
    nch = A.shape[1]
    if backend == 'ndarray':
        yield A.copy()
        return
    with (tempdir() if d is None else contextlib.nullcontext(d)) as d:
        if backend == 'cbin':
            import mtscomp
            nt = inp.get('nt', 1)
            p = os.path.join(d, 'data.bin')
            A.tofile(p)
            mtscomp.compress(p, os.path.join(d, 'data.cbin'), os.path.join(d, 'data.ch'), sample_rate=1.0, n_channels=nch,
                             dtype=A.dtype, chunk_duration=float(cs), n_threads=nt, check_after_compress=False, quiet=True)
            rd = mtscomp.Reader(n_threads=nt)
            rd.open(os.path.join(d, 'data.cbin'), os.path.join(d, 'data.ch'))
            try:
                yield T.get_ephys_reader(rd)
            finally:
                rd.close()
            return
        sr = cs / 600.0
        assert int(round(600.0 * sr)) == cs
        if backend == 'array':
            yield T.get_ephys_reader(A.copy(), sample_rate=sr)
        elif backend == 'npy':
            p = os.path.join(d, 'rec.npy')
            np.save(p, A)
            yield T.get_ephys_reader(Path(p), sample_rate=sr)
        elif backend == 'flat':
            off = inp.get('offset', 0)
            paths, k = [], 0
            for i, s in enumerate(sizes):
                p = os.path.join(d, 'f%d.bin' % i)
                with open(p, 'wb') as f:
                    f.write(bytes((7 * j + 1) % 251 for j in range(off)))
                    f.write(A[k:k + s].tobytes())
                k += s
                paths.append(Path(p))
            yield T.get_ephys_reader(paths, sample_rate=sr, dtype=A.dtype, n_channels=nch, offset=off)
        else:
            raise ValueError(backend)


# ----------------------------------------------------------------------------------------------
# cases
# ----------------------------------------------------------------------------------------------

def case_direct(inp):
    """Direct extraction: extract_waveforms (one channel list for all spikes) and _extract_waveform per spike."""
    dur, nsw = sum(inp['sizes']), inp['nsw']
    A = make_data(dur, inp['nch'], inp['dtype'], inp.get('big', False))
    A0 = A.copy()
    spikes = inp['spikes']
    ch = np.array(inp['channels'], dtype=inp.get('chdtype', 'int64'))
    exp = windows(A0, spikes, nsw, inp['channels'], False)
    with open_traces(inp, A) as tr, quiet():
        out = T.extract_waveforms(tr, spike_arg(spikes, inp['sdtype']), ch, n_samples_waveforms=nsw)
        singles = [T._extract_waveform(tr, s, channel_ids=ch, n_samples_waveforms=nsw) for s in spike_arg(spikes, inp['sdtype'])]
        yield 'shape-is-(n_spikes,n,n_channels)', out.shape == (len(spikes), nsw, len(ch)), out.shape
        yield 'extract_waveforms-returns-the-zero-padded-window-of-every-spike', same(out, exp), (brief(out), brief(exp))
        yield 'sample-type-preserved', np.dtype(out.dtype) == np.dtype(inp['dtype']), str(out.dtype)
        ok = all(same(w, exp[i]) for i, w in enumerate(singles))
        yield '_extract_waveform-returns-the-zero-padded-window', ok, ([brief(w) for w in singles], brief(exp))
    yield '__nontrivial__', len(spikes) > 0, ''


def case_iter(inp):
    """Chunk-by-chunk route: the batches yielded by iter_waveforms, concatenated, are the windows in spike order."""
    dur, nsw = sum(inp['sizes']), inp['nsw']
    A = make_data(dur, inp['nch'], inp['dtype'], inp.get('big', False))
    spikes, chans = inp['spikes'], inp['channels']
    ncl = inp['ncl']
    sc = np.array(chans, dtype=inp.get('chdtype', 'int64')).reshape((len(spikes), ncl))
    exp = windows(A, spikes, nsw, chans, True).reshape((len(spikes), nsw, ncl))
    with open_traces(inp, A) as tr, quiet():
        batches = list(T.iter_waveforms(tr, spike_arg(spikes, inp['sdtype']), sc, n_samples_waveforms=nsw,
                                        cache=inp.get('cache', False)))
    n = sum(len(b) for b in batches)
    yield 'every-spike-lands-in-exactly-one-batch', n == len(spikes), [len(b) for b in batches]
    cat = np.concatenate(batches) if batches else exp[:0]
    yield 'batches-concatenate-to-the-windows-in-spike-order', same(cat, exp), (brief(cat), brief(exp))
    yield '__nontrivial__', len(spikes) > 0, ''


def _load_npy(p):
    try:
        return np.load(p), None
    except Exception as e:  # numpy's verdict on the file phylib wrote: a clause, not a crash
        return None, '%s: %s' % (type(e).__name__, str(e)[:200])


def case_export(inp):
    """export_waveforms to a .npy file; np.load of it; optional lookup in the store made of that file."""
    dur, nsw = sum(inp['sizes']), inp['nsw']
    A = make_data(dur, inp['nch'], inp['dtype'], inp.get('big', False))
    spikes, chans, f = inp['spikes'], inp['channels'], inp['factor']
    ncl = inp['ncl']
    sc = np.array(chans, dtype='int64').reshape((len(spikes), ncl))
    exp = windows(A, spikes, nsw, chans, True).reshape((len(spikes), nsw, ncl)).astype(np.float64) * f
    with tempdir() as d2:
        p = os.path.join(d2, 'w.npy')
        with open_traces(inp, A, d2) as tr, quiet():
            T.export_waveforms(p, tr, spike_arg(spikes, inp['sdtype']), sc, n_samples_waveforms=nsw,
                               cache=inp.get('cache', False), sample2unit=f)
        arr, err = _load_npy(p)
        yield 'exported-file-loads-with-np.load', arr is not None, err
        if arr is None:
            return
        yield 'loaded-array-has-the-declared-shape-(n_spikes,n,n_channels_loc)', arr.shape == (len(spikes), nsw, ncl), arr.shape
        yield 'loaded-array-holds-the-windows-times-the-unit-factor-in-spike-order', same(arr, exp), (brief(arr), brief(exp))
        if inp.get('store_ids') and len(spikes):
            ids = inp['store_ids']
            store = Bunch(spike_ids=np.array(ids, dtype='int64'), spike_channels=sc.astype(np.int32), waveforms=arr)
            yield from _lookup_clauses(store, ids, chans, exp, inp['query'], inp['qch'], nsw, 'int64')
    yield '__nontrivial__', len(spikes) > 0, ''


def _lookup_clauses(store, ids, chans, stored, query, qch, nsw, qdtype):
    """get_spike_waveforms(query ids, qch) against the store whose i-th row is `stored[i]` on channels `chans[i]`."""
    q = np.array(query, dtype=qdtype)
    with quiet():
        out = T.get_spike_waveforms(q, np.array(qch, dtype='int64'), spike_waveforms=store, n_samples_waveforms=nsw)
    yield 'lookup-shape-is-(n_queried,n,n_channels)', out.shape == (len(query), nsw, len(qch)), out.shape
    if out.shape != (len(query), nsw, len(qch)):
        return
    ok_stored, ok_minus1, ok_absent, bad = True, True, True, []
    for i, sid in enumerate(query):
        r = list(ids).index(sid)
        row = list(chans[r])
        for j, c in enumerate(qch):
            if c == -1:
                if np.any(out[i, :, j] != 0):
                    ok_minus1 = False
                    bad.append((sid, c, out[i, :, j].tolist()))
            elif c in row:
                if not np.array_equal(out[i, :, j], stored[r][:, row.index(c)]):
                    ok_stored = False
                    bad.append((sid, c, out[i, :, j].tolist(), np.asarray(stored[r][:, row.index(c)]).tolist()))
            else:
                if np.any(out[i, :, j] != 0):
                    ok_absent = False
                    bad.append((sid, c, out[i, :, j].tolist()))
    yield 'lookup-returns-the-stored-window-for-every-queried-spike-and-stored-channel', ok_stored, bad[:4]
    yield 'lookup-gives-zeros-for-channels-given-as--1', ok_minus1, bad[:4]
    yield 'lookup-gives-zeros-for-channels-the-store-does-not-hold', ok_absent, bad[:4]


def case_store_lookup(inp):
    """get_spike_waveforms on a store written from the statement (oracle windows times factor), queried in any order."""
    dur, nsw = inp['dur'], inp['nsw']
    A = make_data(dur, inp['nch'], inp['dtype'])
    ids, samples, chans = inp['store_ids'], inp['store_samples'], inp['store_channels']
    stored = np.stack([W(A, s, nsw, ch) for s, ch in zip(samples, chans)]).astype(inp['wdtype']) * inp['factor']
    store = Bunch(spike_ids=np.array(ids, dtype=inp.get('iddtype', 'int64')),
                  spike_channels=np.array(chans, dtype=np.int32), waveforms=stored)
    yield from _lookup_clauses(store, ids, chans, stored, inp['query'], inp['qch'], nsw, inp.get('qdtype', 'int64'))


def case_model(inp):
    """TemplateModel.get_waveforms from the raw data, then save_spikes_subset_waveforms (export to the three
    _phy_spikes_subset files), np.load of the exported file, and get_waveforms through the reloaded store."""
    from concrete.datagen import make_dataset
    from phylib.io.model import load_model
    sizes, nsw, dtype, f = inp['sizes'], inp['nsw'], inp['dtype'], inp['factor']
    dur = sum(sizes)
    cmap = inp['channel_map']
    nc = len(cmap)
    raw = make_data(dur, inp['nch_dat'], dtype, inp.get('big', False))
    A = raw[:, cmap]                       # "the recording" of the model: raw data on the mapped channels
    spikes = inp['spikes']
    ns = len(spikes)
    cs = inp['cs']
    with tempdir() as d:
        make_dataset(d, n_spikes=ns, n_templates=inp['n_templates'], n_channels=nc, nsw=nsw, sample_rate=cs / 600.0,
                     raw=dict(n_samples=dur, n_channels_dat=inp['nch_dat'], dtype=dtype, n_files=len(sizes)),
                     channel_map=cmap, spike_templates=inp['templates'], times_dtype=inp['sdtype'], seed=inp.get('seed', 0))
        np.save(os.path.join(d, 'spike_times.npy'), np.array(spikes, dtype=inp['sdtype']))
        k = 0
        for i, s in enumerate(sizes):
            raw[k:k + s].tofile(os.path.join(d, 'raw%d.dat' % i))
            k += s
        with open(os.path.join(d, 'params.py'), 'a') as fh:
            fh.write('n_closest_channels = %d\n' % inp['n_closest'])
        with quiet():
            m = load_model(os.path.join(d, 'params.py'))
        try:
            # route 1: raw data
            rq = inp['raw_query']
            qch = inp['qch']
            chl = list(range(nc)) if qch is None else qch
            with quiet():
                out = m.get_waveforms(np.array(rq, dtype='int64'), None if qch is None else np.array(qch, dtype='int64'))
            exp = windows(A, [spikes[i] for i in rq], nsw, chl, False)
            yield 'get_waveforms[raw]-returns-the-zero-padded-window-of-every-spike', out is not None and same(out, exp), (brief(out) if out is not None else None, brief(exp))
            # route 2: export the subset store
            np.random.seed(inp.get('seed', 0))
            with quiet():
                m.save_spikes_subset_waveforms(max_n_spikes_per_template=inp['max_spikes'], max_n_channels=inp['max_channels'], sample2unit=f)
            ids = np.load(os.path.join(d, '_phy_spikes_subset.spikes.npy')).tolist()
            sch = np.load(os.path.join(d, '_phy_spikes_subset.channels.npy'))
            arr, err = _load_npy(os.path.join(d, '_phy_spikes_subset.waveforms.npy'))
            yield 'exported-file-loads-with-np.load', arr is not None, err
            chans = sch.tolist()
            stored = windows(A, [spikes[i] for i in ids], nsw, chans, True).reshape((len(ids), nsw, sch.shape[1])).astype(np.float64) * f
            if arr is not None:
                yield 'loaded-array-has-the-declared-shape-(n_spikes,n,n_channels_loc)', arr.shape == stored.shape, arr.shape
                yield 'loaded-array-holds-the-windows-times-the-unit-factor-in-spike-order', same(arr, stored), (ids, brief(arr), brief(stored))
            if ids:
                # route 3: lookup through the model, query = ranks into the stored ids, any order
                q = []
                for r in inp['query']:
                    if ids[r % len(ids)] not in q:
                        q.append(ids[r % len(ids)])
                with quiet():
                    out = m.get_waveforms(np.array(q, dtype='int64'), None if qch is None else np.array(qch, dtype='int64'))
                ok, bad = out is not None and out.shape == (len(q), nsw, len(chl)), []
                ok0 = ok
                if ok:
                    for i, sid in enumerate(q):
                        r = ids.index(sid)
                        row = chans[r]
                        for j, c in enumerate(chl):
                            if c != -1 and c in row:
                                if not np.array_equal(out[i, :, j], stored[r][:, row.index(c)]):
                                    ok = False
                                    bad.append((sid, c, out[i, :, j].tolist(), stored[r][:, row.index(c)].tolist()))
                            elif np.any(out[i, :, j] != 0):
                                ok0 = False
                                bad.append((sid, c, out[i, :, j].tolist()))
                yield 'get_waveforms[store]-returns-the-window-times-the-unit-factor-on-stored-channels', ok, bad[:4]
                yield 'get_waveforms[store]-gives-zeros-for--1-and-channels-the-store-does-not-hold', ok0, bad[:4]
            absent = [i for i in range(ns) if i not in ids]
            if absent and f in (1, 1.0):
                q = sorted(absent[:1] + ids[:1])
                with quiet():
                    out = m.get_waveforms(np.array(q, dtype='int64'), None if qch is None else np.array(qch, dtype='int64'))
                exp = windows(A, [spikes[i] for i in q], nsw, chl, False)
                yield 'get_waveforms-falls-back-to-the-raw-window-when-a-spike-is-not-in-the-store', out is not None and same(out, exp), (q, brief(out) if out is not None else None, brief(exp))
        finally:
            m.close()


CASES = {'direct': case_direct, 'iter': case_iter, 'export': case_export, 'store_lookup': case_store_lookup,
         'model': case_model}


# ----------------------------------------------------------------------------------------------
# known classes (DESIGN section 6 rows 2-4), decided from the input only
# ----------------------------------------------------------------------------------------------

_WINDOW_CLAUSES = {
    'no-unexpected-exception',
    'shape-is-(n_spikes,n,n_channels)',
    'extract_waveforms-returns-the-zero-padded-window-of-every-spike',
    '_extract_waveform-returns-the-zero-padded-window',
    'every-spike-lands-in-exactly-one-batch',
    'batches-concatenate-to-the-windows-in-spike-order',
    'exported-file-loads-with-np.load',
    'loaded-array-has-the-declared-shape-(n_spikes,n,n_channels_loc)',
    'loaded-array-holds-the-windows-times-the-unit-factor-in-spike-order',
    'lookup-returns-the-stored-window-for-every-queried-spike-and-stored-channel',
    'get_waveforms[raw]-returns-the-zero-padded-window-of-every-spike',
    'get_waveforms[store]-returns-the-window-times-the-unit-factor-on-stored-channels',
    'get_waveforms-falls-back-to-the-raw-window-when-a-spike-is-not-in-the-store',
}
_EXPORT_CLAUSES = {
    'exported-file-loads-with-np.load',
    'loaded-array-has-the-declared-shape-(n_spikes,n,n_channels_loc)',
    'loaded-array-holds-the-windows-times-the-unit-factor-in-spike-order',
    'lookup-shape-is-(n_queried,n,n_channels)',
    'lookup-returns-the-stored-window-for-every-queried-spike-and-stored-channel',
    'get_waveforms[store]-returns-the-window-times-the-unit-factor-on-stored-channels',
    'get_waveforms[store]-gives-zeros-for--1-and-channels-the-store-does-not-hold',
}
_SPIKE_CASES = ('direct', 'iter', 'export', 'model')


def _live_spikes(case, inp):
    """Spikes whose channel list names at least one real channel (an all -1 list gives zeros whatever the rows)."""
    ch = inp.get('channels')
    if case == 'direct':
        return inp['spikes'] if any(c != -1 for c in ch) else []
    if case in ('iter', 'export'):
        return [s for s, row in zip(inp['spikes'], ch) if any(c != -1 for c in row)]
    return inp['spikes']


def _unsigned_below_half_window(case, clause, inp):
    """DESIGN 6 row 2: `sample - nsw//2` wraps for an unsigned NumPy sample smaller than nsw//2."""
    if case not in _SPIKE_CASES or clause not in _WINDOW_CLAUSES or not str(inp['sdtype']).startswith('uint'):
        return False
    n, dur = inp['nsw'], sum(inp['sizes'])
    live = _live_spikes(case, inp)
    # in-memory array + all -1 channel list: the wrapped (empty) read is still right when the window also overhangs
    # the end; readers raise on the empty read in every case
    lenient = inp.get('backend') == 'ndarray'
    return any(s < n // 2 and (not lenient or s in live or s - n // 2 + n <= dur) for s in inp['spikes'])


def _window_overhangs_both_ends(case, clause, inp):
    """DESIGN 6 row 4: recording shorter than the window, window sticking out on both sides."""
    if case not in _SPIKE_CASES or clause not in _WINDOW_CLAUSES:
        return False
    dur, n = sum(inp['sizes']), inp['nsw']
    return any(s - n // 2 < 0 and s - n // 2 + n > dur for s in _live_spikes(case, inp))


def _export_bytes_not_float64(case, clause, inp):
    """DESIGN 6 row 3: header says float64, bytes are those of dtype(traces * factor): int16 x Python int and
    float32 x any Python scalar (NEP 50) are not float64."""
    return (case in ('export', 'model') and clause in _EXPORT_CLAUSES and len(inp['spikes']) > 0
            and (inp['dtype'] == 'float32' or (inp['dtype'] == 'int16' and isinstance(inp['factor'], int))))


KNOWN_CLASSES = {
    'unsigned-spike-sample-below-half-window': _unsigned_below_half_window,
    'window-overhangs-both-ends-of-recording': _window_overhangs_both_ends,
    'export-bytes-dtype-differs-from-declared-float64': _export_bytes_not_float64,
}


# ----------------------------------------------------------------------------------------------
# enumeration
# ----------------------------------------------------------------------------------------------

SDTYPES = ['int64', 'uint64', 'int32', 'uint32', 'pyint']
DTYPES = ['int16', 'float32', 'float64']
FACTORS = [1, 2, 0.5, 2.5, 1.0, -3]


def _distinct(ch):
    """Drop repeated non-negative channels (channel lists have distinct channels; -1 may repeat)."""
    out = []
    for c in ch:
        if c == -1 or c not in out:
            out.append(c)
    return out


def chan_variants(nch):
    return [_distinct(v) for v in
            (list(range(nch)), [nch - 1, 0], [1 % nch, -1], [-1, nch - 1, -1, 0], [-1], [nch - 1])]


def pair_variants(nch):
    """Per-spike channel rows of length 2 (distinct channels, -1 may repeat)."""
    pv = [[0, 1 % nch], [nch - 1, 0], [1 % nch, -1], [-1, nch - 1], [-1, -1], [2 % nch, 0] if nch > 2 else [0, -1]]
    return [v if len(_distinct(v)) == 2 else [v[0], -1] for v in pv]


def per_spike_channels(ns, nch, k):
    pv = pair_variants(nch)
    return [pv[(k + i) % len(pv)] for i in range(ns)]


def multisets(dur, maxlen):
    for L in range(0, maxlen + 1):
        yield from (list(t) for t in itertools.combinations_with_replacement(range(dur), L))


def in_class(dur, nsw, sdtype, s):
    return (sdtype.startswith('uint') and s < nsw // 2) or (s - nsw // 2 < 0 and s - nsw // 2 + nsw > dur)


def split_spikes(dur, nsw, sdtype, spikes):
    """One vector of the spikes outside every known class + one singleton per spike inside one, so that a known
    finding never hides the other spikes of the same call."""
    clean = [s for s in spikes if not in_class(dur, nsw, sdtype, s)]
    out = [clean] if clean else []
    out += [[s] for s in spikes if in_class(dur, nsw, sdtype, s)]
    return out


def enumerate_cases(ctx):
    quick = ctx.tier == 'quick'
    nch = 3

    # ---- A. direct extraction from an in-memory array: every position, window, sample type ----------------
    D, N = (6, 7) if quick else (9, 11)
    ctx.scope('direct/ndarray: all (dur<=%d, spike s in [0,dur), window 1..%d) x spike types %s x 6 channel lists '
              '(all, reordered, with -1, several -1, only -1, last channel) for int16; 2 channel lists for float32/float64; one spike per call'
              % (D, N, SDTYPES))
    for dur in range(1, D + 1):
        for nsw in range(1, N + 1):
            for s in range(dur):
                for sd in SDTYPES:
                    for di, dt in enumerate(DTYPES):
                        for ci, ch in enumerate(chan_variants(nch)):
                            if di and ci not in (0, 3):
                                continue
                            ctx.run('direct', {'backend': 'ndarray', 'sizes': [dur], 'nch': nch, 'dtype': dt, 'nsw': nsw,
                                               'spikes': [s], 'sdtype': sd, 'channels': ch})
    ctx.scope('direct/ndarray: the vector of all spike positions in one call (dur<=%d, window 1..%d), signed types, int32 channel ids, 1 and 2 channels wide recordings' % (D, N))
    for dur in range(1, D + 1):
        for nsw in range(1, N + 1):
            for sd in ('int64', 'int32', 'pyint'):
                for vec in split_spikes(dur, nsw, sd, list(range(dur))):
                    for nc_ in (1, 2, 3):
                        ctx.run('direct', {'backend': 'ndarray', 'sizes': [dur], 'nch': nc_, 'dtype': DTYPES[(dur + nsw) % 3], 'nsw': nsw,
                                           'spikes': vec, 'sdtype': sd, 'channels': chan_variants(nc_)[3 if nc_ > 1 else 2], 'chdtype': 'int32',
                                           'big': bool((dur + nsw) % 2)})

    # ---- B. direct extraction through readers: file boundaries, backends --------------------------------
    D = 5 if quick else 7
    NW = (1, 2, 3, 4, 5) if quick else (1, 2, 3, 4, 5, 6, 7)
    ctx.scope('direct/readers: flat readers over every split of dur<=%d samples into 1..3 files (+3-byte header offset on odd dur), array, npy and '
              'cbin readers; windows %s; spike types int64/uint64/uint32; all spike positions (known-class spikes one per call)' % (D, list(NW)))
    k = 0
    for dur in range(1, D + 1):
        layouts = [('flat', list(c)) for c in _compositions(dur, 3)] + [('array', [dur]), ('npy', [dur]), ('cbin', [dur])]
        for backend, sizes in layouts:
            if quick and backend == 'npy' and dur < D:
                continue
            for nsw in NW:
                for sd in ('int64', 'uint64', 'uint32'):
                    if sd == 'uint32' and (backend != 'flat' or (quick and dur < D)):
                        continue
                    for vec in split_spikes(dur, nsw, sd, list(range(dur))):
                        k += 1
                        ctx.run('direct', {'backend': backend, 'sizes': sizes, 'cs': 1 + k % 3, 'nch': nch, 'dtype': DTYPES[k % 3], 'nsw': nsw,
                                           'spikes': vec, 'sdtype': sd, 'channels': chan_variants(nch)[k % 4],
                                           'offset': 3 if (dur % 2 and backend == 'flat') else 0})

    # ---- C. chunk-by-chunk routes: iter_waveforms and export_waveforms -------------------------------------
    D, L = (4, 3) if quick else (6, 3)   # quick: length-3 vectors exhaustive for dur<=3, length<=2 + three triples at dur=4
    ctx.scope('iter+export/flat: EXHAUSTIVE over (dur<=%d, every split into 1..3 files, every chunk size 1..dur, every sorted spike vector with '
              'ties of length 0..%d and the vector of all positions); window, spike type, per-spike channel rows (with/without -1), sample type and '
              'unit factor rotate deterministically over 1..6, %s, 6 row patterns, %s, %s' % (D, L, SDTYPES, DTYPES, FACTORS))
    k = 0
    for dur in range(1, D + 1):
        for sizes in _compositions(dur, 3):
            for cs in range(1, dur + 1):
                Ld = 2 if (quick and dur == D) else L
                vecs = list(multisets(dur, Ld)) + ([list(range(dur))] if dur > Ld else [])
                if Ld < L:
                    vecs += [[0, 0, dur - 1], [0, dur - 2, dur - 1], [1, 2, 2]]
                for vec in vecs:
                    k += 1
                    nsw = 1 + k % 6
                    sd = SDTYPES[(k // 2) % 5]
                    base = {'backend': 'flat', 'sizes': list(sizes), 'cs': cs, 'nch': nch, 'nsw': nsw, 'spikes': vec, 'sdtype': sd,
                            'channels': per_spike_channels(len(vec), nch, k), 'ncl': 2}
                    ctx.run('iter', dict(base, dtype=DTYPES[k % 3]))
                    if sd.startswith('uint') and any(s < nsw // 2 for s in vec):
                        # same chunking question for unsigned samples without the known wrap: window of one sample
                        ctx.run('iter', dict(base, dtype=DTYPES[k % 3], nsw=1))
                        if not quick:
                            ctx.run('export', dict(base, dtype='float64', factor=2.5, nsw=1))
                    # export: float64 recordings carry no known finding, so they get two thirds of the inputs
                    dt = ('float64', 'int16', 'float64', 'float32', 'float64', 'int16')[k % 6]
                    f = FACTORS[(k // 3) % 6]
                    if dt == 'int16' and k % 4 == 1:
                        f = (0.5, 2.5, 1.0)[(k // 4) % 3]
                    e = dict(base, dtype=dt, factor=f)
                    if k % 2 and vec:
                        ids = [3 + 2 * i for i in range(len(vec))]
                        e.update(store_ids=ids, query=[ids[(k + i) % len(ids)] for i in range(len(ids))][:1 + k % 3],
                                 qch=chan_variants(nch)[(k // 2) % 4])
                        e['query'] = list(dict.fromkeys(e['query']))
                    ctx.run('export', e)

    ctx.scope('iter+export/flat cross: recording [2,2] (thorough: also [1,2,2]) x chunk sizes 1,2,3 x all sorted spike vectors of length<=2 and all '
              'positions x windows 1..6 (quick: 1..5) x spike types x row patterns, float64 x factor 2.5')
    recs = [[2, 2]] if quick else [[2, 2], [1, 2, 2]]
    sds = ('int64', 'uint64') if quick else ('int64', 'uint64', 'int32', 'uint32')
    for sizes in recs:
        dur = sum(sizes)
        for cs in (1, 2, 3):
            for vec in list(multisets(dur, 2)) + [list(range(dur))]:
                for nsw in range(1, 6 if quick else 7):
                    for sd in sds:
                        for kk in ((len(vec) + nsw) % 3,) if quick else (0, 2):
                            base = {'backend': 'flat', 'sizes': sizes, 'cs': cs, 'nch': nch, 'nsw': nsw, 'spikes': vec, 'sdtype': sd,
                                    'channels': per_spike_channels(len(vec), nch, kk), 'ncl': 2, 'dtype': 'float64'}
                            ctx.run('iter', base)
                            ctx.run('export', dict(base, factor=2.5))

    ctx.scope('export dtype algebra: sample types %s x unit factors %s x windows {1,4} x spike types int64/uint64 x spikes {[1],[2,3],[0,2,4],[]} on a [3,2] recording, chunk sizes 1,2; also int16 samples near the int16 range (big)' % (DTYPES, FACTORS))
    for dt in DTYPES:
        for f in FACTORS:
            for nsw in (1, 4):
                for sd in ('int64', 'uint64'):
                    for vec in ([1], [2, 3], [0, 2, 4], []):
                        if quick and sd == 'uint64' and (nsw == 4 or len(vec) != 2):
                            continue
                        for cs in ((2,) if quick else (1, 2)):
                            for big in ((False, True) if dt == 'int16' else (False,)):
                                ctx.run('export', {'backend': 'flat', 'sizes': [3, 2], 'cs': cs, 'nch': nch, 'nsw': nsw, 'spikes': vec, 'sdtype': sd,
                                                   'channels': per_spike_channels(len(vec), nch, cs), 'ncl': 2, 'dtype': dt, 'factor': f, 'big': big})

    ctx.scope('iter+export/other backends: array, npy, cbin (chunk durations 1..dur, n_threads 1..3 = batch sizes, cache on/off) with the vector of all '
              'positions, all pairs on a chunk boundary, and single spikes; windows 1..5')
    durs = (5,) if quick else (4, 5, 7, 9)
    k = 0
    for dur in durs:
        for cs in range(1, dur + 1):
            if quick and cs in (4, 6):
                continue
            bset = {0, dur - 1}
            for b in range(cs, dur, cs):
                bset |= {b - 1, b}
            bl = sorted(bset)
            vecs = [list(range(dur)), bl, [0, 0, dur - 1]] + [[s] for s in bl]
            for vec in vecs:
                for backend, nt, cache in (('cbin', 1, False), ('cbin', 2, True), ('cbin', 3, True), ('cbin', 3, False), ('array', 1, False), ('npy', 1, False)):
                    if quick and ((backend, nt, cache) == ('cbin', 3, False) or (backend == 'npy' and len(vec) == 1)):
                        continue
                    k += 1
                    nsw = 1 + k % 5
                    sd = ('int64', 'uint64', 'int32')[k % 3]
                    dt = DTYPES[(k // 3) % 3]
                    base = {'backend': backend, 'sizes': [dur], 'cs': cs, 'nt': nt, 'cache': cache, 'nch': nch, 'nsw': nsw, 'spikes': vec,
                            'sdtype': sd, 'channels': per_spike_channels(len(vec), nch, k), 'ncl': 2}
                    ctx.run('iter', dict(base, dtype=dt))
                    ctx.run('export', dict(base, dtype=('float64', 'int16')[k % 4 == 0], factor=(2.5, 0.5, 1.0)[k % 3]))

    # ---- D. lookup in a store written from the statement -------------------------------------------------------
    ctx.scope('store lookup: stores of 1..3 spikes (ids increasing, not contiguous) with per-spike channel rows (with/without -1, duplicates of -1), '
              'EVERY ordered selection of distinct stored ids as query x 7 query channel lists (all, reordered, with -1, absent channels) x id types')
    dur_, nch_ = 6, 4
    rows_opts = [[[0, 1], [3, 0], [1, -1]], [[2, 3, 1], [-1, 0, -1], [3, 2, 0]], [[1], [-1], [3]], [[0, 1, 2, 3], [3, 2, 1, 0], [2, -1, 0, -1]]]
    qch_opts = [[0, 1, 2, 3], [3, 1], [1, -1, 0], [2], [-1], [3, 0, 2, 1], [1, 3, -1, 2]]
    for ri, rows in enumerate(rows_opts):
        for nstore in (1, 2, 3):
            ids = [2, 5, 9][:nstore] if ri % 2 == 0 else [0, 1, 7][:nstore]
            samples = [0, 3, 5][:nstore]
            for L in range(1, nstore + 1):
                for query in itertools.permutations(ids, L):
                    for qi, qch in enumerate(qch_opts):
                        for idt, wdt, f in (('int64', 'float64', 2.5), ('int32', 'float32', 1), ('uint32', 'int16', 1)):
                            if not quick or (qi + ri + len(query)) % 3 == ('int64', 'int32', 'uint32').index(idt):
                                ctx.run('store_lookup', {'dur': dur_, 'nch': nch_, 'dtype': 'float64' if wdt == 'float64' else wdt, 'nsw': 1 + (qi + ri) % 5,
                                                         'store_ids': ids, 'store_samples': samples, 'store_channels': rows[:nstore],
                                                         'wdtype': wdt, 'factor': f, 'iddtype': idt, 'qdtype': idt if qi % 2 else 'int64',
                                                         'query': list(query), 'qch': qch})

    # ---- E. the model: raw route, export of the subset store, lookup through the reloaded store -------------
    ctx.scope('model: TemplateModel on generated datasets (raw data 4 channels wide, channel map [2,0,3], 1..3 raw files, chunk sizes 1..4, windows 2..5, '
              'spike_times uint64 (KiloSort) / int64, sample types, unit factors 1.0/2.5/1/0.5, n_closest_channels 2 or 12, 1-2 spikes per template kept); '
              'queries in rotated/reversed order')
    rec_opts = [[6], [3, 4], [2, 3, 2], [1, 4], [9]] if quick else [[6], [3, 4], [2, 3, 2], [1, 4], [9], [4, 4, 4], [5, 1, 3], [12]]
    k = 0
    for sizes in rec_opts:
        dur = sum(sizes)
        spike_sets = [sorted(set([0, dur // 2, dur - 1, min(dur - 1, 2), max(0, dur - 3)])),
                      [2, 2, 3, min(4, dur - 1)][:dur],
                      list(range(dur))[:6],
                      [dur // 2, dur // 2 + 1][:max(1, dur - dur // 2)]]
        for spikes in spike_sets:
            spikes = sorted(min(s, dur - 1) for s in spikes)
            for nsw in ((2, 3, 4) if quick else (2, 3, 4, 5)):
                for sd in ('uint64', 'int64'):
                    k += 1
                    if quick and sd == 'int64' and k % 2:
                        continue
                    dt = ('int16', 'float64', 'int16', 'float64', 'float32')[k % 5]
                    f = (1.0, 2.5, 1.0, 1, 0.5)[(k // 2) % 5]
                    ns = len(spikes)
                    ntpl = 2 if ns > 1 else 1
                    ctx.run('model', {'sizes': sizes, 'nch_dat': 4, 'channel_map': [2, 0, 3], 'dtype': dt, 'cs': 1 + k % 4, 'nsw': nsw,
                                      'spikes': spikes, 'sdtype': sd, 'templates': [(i + k) % ntpl for i in range(ns)], 'n_templates': ntpl + (k % 2),
                                      'factor': f, 'max_spikes': 1 + k % 2 if ns > 2 else 5, 'max_channels': 1 + k % 3, 'n_closest': (2, 12)[k % 3 == 0],
                                      'raw_query': sorted(set([(k + i) % ns for i in range(1 + k % 3)])),
                                      'query': [(k + 2 * i) % 5 for i in range(3)][::-1 if k % 2 else 1],
                                      'qch': (None, [2, 0], [1, -1, 0], [0, 1, 2])[k % 4], 'seed': k})

    # ---- F. thorough: seeded random larger inputs -----------------------------------------------------------------
    if not quick:
        rs = np.random.RandomState(ctx.seed)
        ctx.scope('random larger inputs (seeded): recordings of 8..40 samples, 1..4 channels, 1..4 files or cbin, chunk sizes 1..12, up to 12 sorted spikes biased to '
                  'the ends and to chunk/file boundaries, windows 1..16, all routes')
        for it in range(700):
            dur = int(rs.randint(8, 41))
            nc_ = int(rs.randint(1, 5))
            nf = int(rs.randint(1, 5))
            cuts = sorted(rs.choice(np.arange(1, dur), nf - 1, replace=False).tolist()) if nf > 1 else []
            sizes = [b - a for a, b in zip([0] + cuts, cuts + [dur])]
            cs = int(rs.randint(1, 13))
            nsw = int(rs.randint(1, 17))
            hot = sorted(set([0, dur - 1] + [x for b in list(range(cs, dur, cs)) + cuts for x in (b - 1, b)]))
            ns = int(rs.randint(1, 13))
            spikes = sorted(int(hot[rs.randint(len(hot))]) if rs.rand() < 0.6 else int(rs.randint(dur)) for _ in range(ns))
            sd = SDTYPES[rs.randint(5)]
            if rs.rand() < 0.7:   # mostly stay outside the known classes so that the rest of the vector is checked
                spikes = [s for s in spikes if not in_class(dur, nsw, sd, s)] or [min(dur - 1, nsw // 2)]
                if in_class(dur, nsw, sd, spikes[0]):
                    sd = 'int64'
            backend = ('flat', 'flat', 'cbin', 'array')[rs.randint(4)]
            if backend != 'flat':
                sizes = [dur]
            dt = DTYPES[rs.randint(3)]
            base = {'backend': backend, 'sizes': sizes, 'cs': cs, 'nt': int(rs.randint(1, 4)), 'cache': bool(rs.randint(2)), 'nch': nc_, 'nsw': nsw,
                    'spikes': spikes, 'sdtype': sd, 'channels': per_spike_channels(len(spikes), nc_, it), 'ncl': 2}
            ctx.run('iter', dict(base, dtype=dt))
            ctx.run('export', dict(base, dtype=('float64', dt)[it % 3 == 0], factor=FACTORS[rs.randint(6)]))
            ctx.run('direct', dict(base, dtype=dt, channels=chan_variants(nc_)[rs.randint(6)]))


def _compositions(n, maxparts):
    from concrete.common import compositions
    return list(compositions(n, maxparts))
