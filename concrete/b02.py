# C02 — lazy reader expressions commute with eager NumPy evaluation; deriving a reader has no side effect on
# its parent or siblings.  Bounded stand-in (tier B): DESIGN 4/C02 evaluated on the REAL readers.
#
# Oracle: the same operator program applied with plain Python operators to the fully loaded array A (the
# concatenation of the files, see b01), then indexed by NumPy.
#
# Input encoding (JSON only; layout / rows / cols as in b01):
#   prog = [[op, arg], ...] applied left to right, op in
#          pos neg | add radd sub rsub mul rmul truediv rtruediv floordiv rfloordiv pow rpow | cols
#          arg: None (unary) | int | float | {'np': 'float32', 'v': 1.5} (NumPy scalar) | column selector (cols)
#   case 'program':    {'layout', 'prog', 'rows', 'cols'}        expr(reader)[rows(, cols)] vs expr(A)[rows][:, cols]
#   case 'derivation': {'layout', 'base': prog, 'children': [prog, ...], 'grand': [[child index, prog], ...], 'rows': [rows, ...]}
import json, warnings
import numpy as np
from concrete.b01 import build, dec_rows, dec_cols, np_rows, same, all_rows, admitted

from phylib.io import traces as T

CONTRACTED = ['phylib/io/traces.py::BaseEphysReader._append_op', 'phylib/io/traces.py::BaseEphysReader._apply_ops',
              'phylib/io/traces.py::_apply_op', 'phylib/io/traces.py::BaseEphysReader.__getitem__'] + \
             ['phylib/io/traces.py::BaseEphysReader.__%s__' % d for d in
              ('add', 'radd', 'sub', 'rsub', 'mul', 'rmul', 'truediv', 'rtruediv', 'floordiv', 'rfloordiv',
               'pow', 'rpow', 'pos', 'neg')]

warnings.simplefilter('ignore')   # NumPy RuntimeWarnings (overflow, invalid power, division by zero) are expected on both sides

UNARY = ('pos', 'neg')
BINARY = ('add', 'radd', 'sub', 'rsub', 'mul', 'rmul', 'truediv', 'rtruediv', 'floordiv', 'rfloordiv', 'pow', 'rpow')
REFLECTED = ('radd', 'rsub', 'rmul', 'rtruediv', 'rfloordiv', 'rpow')

# the operator table, written from the statement / the Python data model (NOT from the code under test)
_APPLY = {
    'pos': lambda x, s: +x, 'neg': lambda x, s: -x,
    'add': lambda x, s: x + s, 'radd': lambda x, s: s + x,
    'sub': lambda x, s: x - s, 'rsub': lambda x, s: s - x,
    'mul': lambda x, s: x * s, 'rmul': lambda x, s: s * x,
    'truediv': lambda x, s: x / s, 'rtruediv': lambda x, s: s / x,
    'floordiv': lambda x, s: x // s, 'rfloordiv': lambda x, s: s // x,
    'pow': lambda x, s: x ** s, 'rpow': lambda x, s: s ** x,
}


def dec_scalar(a):
    if isinstance(a, dict):
        return np.dtype(a['np']).type(a['v'])
    assert isinstance(a, (int, float)) and not isinstance(a, bool)
    return a


def apply_prog(x, prog, check_reader=False):
    """Apply the program with Python operators. x is an ndarray (oracle side) or a reader (code under test)."""
    for op, arg in prog:
        if op == 'cols':
            x = x[:, dec_cols(arg)]
        else:
            x = _APPLY[op](x, None if op in UNARY else dec_scalar(arg))
        if check_reader and not isinstance(x, T.BaseEphysReader):
            return x, False
    return (x, True) if check_reader else x


def eager(A, prog):
    """(value, None) or (None, exception type) of the expression on the fully loaded array."""
    try:
        return apply_prog(A, prog), None
    except Exception as e:   # raised by NumPy on the oracle side: no phylib frame involved
        return None, type(e)


_EAGER = {}


def eager_cached(b, layout, prog):
    key = json.dumps([layout, prog], sort_keys=True)
    if key not in _EAGER:
        _EAGER.clear()          # the enumeration visits all rows of one (layout, program) consecutively
        _EAGER[key] = eager(b.A, prog)
    return _EAGER[key]


def agree(out, exp, prog):
    """Same values.  Exact, except after a float power: NumPy's pow/rpow loops are not bit-reproducible across memory
    layouts (SIMD body vs scalar tail, strided views), so `(A ** -1.5)[rows]` and `A[rows] ** -1.5` may differ in the
    last bits although both are "the same expression"; there a few-ulp tolerance (relative to the largest value) is used."""
    if out.shape != exp.shape:
        return False
    if exp.dtype.kind == 'f' and out.dtype.kind == 'f' and any(op in ('pow', 'rpow') for op, _ in prog):
        eps = float(np.finfo(exp.dtype).eps) * 64
        fin = np.abs(exp[np.isfinite(exp)])
        scale = float(fin.max()) if fin.size else 0.0
        return bool(np.allclose(out, exp, rtol=eps, atol=eps * scale, equal_nan=True))
    return bool(np.array_equal(out, exp, equal_nan=True))


def read(reader, rows, cols):
    item = dec_rows(rows)
    out = reader[item] if cols is None else reader[item, dec_cols(cols)]
    if isinstance(out, T.BaseEphysReader):   # whole-recording channel selection: again a reader
        out = out[:]
    return np.asarray(out)


def expect(E, rows, cols):
    e = np_rows(E, rows)
    return e if cols is None else e[:, dec_cols(cols)]


def case_program(inp):
    b = build(inp['layout'])
    prog, rows, cols = inp['prog'], inp['rows'], inp.get('cols')
    assert admitted(b.A.shape[0], rows, inp['layout']['backend'])
    with np.errstate(all='ignore'):
        E, exc = eager_cached(b, inp['layout'], prog)
        # the root reader is shared by all 'program' evaluations on a layout (side-effect freedom of deriving is the
        # subject of the 'derivation' case, which always works on a fresh root)
        R, is_reader = apply_prog(b.reader, prog, check_reader=True)
        yield 'expression-is-again-a-reader', is_reader, type(R).__name__
        if not is_reader:
            return
        if exc is not None:
            # Appendix G: an exception raised identically by the eager expression counts as agreement; when the eager
            # expression on the WHOLE array raises (value-dependent NumPy errors) the comparison is undefined.
            yield '__nontrivial__', False, ''
            try:
                read(R, rows, cols)
            except exc:
                pass
            return
        exp = expect(E, rows, cols)
        out = read(R, rows, cols)
    yield 'same-values-as-expression-on-loaded-array-then-index', agree(out, exp, prog), (out.tolist(), exp.tolist())
    yield 'same-dtype-as-expression-on-loaded-array', out.dtype == exp.dtype, (str(out.dtype), str(exp.dtype))


def case_derivation(inp):
    """Parent = base(reader). Children are derived one after the other (then grandchildren); after every derivation
    and after every read, the root, the parent and every reader derived so far must still return what they returned."""
    b = build(inp['layout'])
    rows_list = inp['rows']
    with np.errstate(all='ignore'):
        root = b.fresh()
        nodes = []   # (label, reader, eager value)

        def check(when):
            for label, rd, E, pr in nodes:
                for rows in rows_list:
                    out = read(rd, rows, None)
                    exp = expect(E, rows, None)
                    if not (agree(out, exp, pr) and out.dtype == exp.dtype):
                        return False, '%s changed/wrong %s, rows %s: %s vs %s' % (label, when, rows, out.tolist(), exp.tolist())
            return True, ''

        nodes.append(('root', root, b.A, []))
        parent, ok = apply_prog(root, inp['base'], check_reader=True)
        Ep = apply_prog(b.A, inp['base'])   # bases are chosen so that the eager parent exists
        if inp['base']:
            nodes.append(('parent', parent, Ep, inp['base']))
        yield 'parent-reads-as-eager', *check('before deriving')
        kids = []
        for i, prog in enumerate(inp['children']):
            c, isr = apply_prog(parent, prog, check_reader=True)
            yield 'expression-is-again-a-reader', isr, type(c).__name__
            yield 'deriving-child-does-not-change-parent-or-siblings', *check('after deriving child %d' % i)
            Ec, exc = eager(Ep, prog)
            if exc is None:
                nodes.append(('child%d' % i, c, Ec, inp['base'] + prog))
            kids.append((c, Ec, inp['base'] + prog))
            yield 'reading-child-does-not-change-parent-or-siblings', *check('after reading child %d' % i)
        for j, (ci, prog) in enumerate(inp.get('grand', [])):
            c, Ec, pc = kids[ci]
            g, isr = apply_prog(c, prog, check_reader=True)
            yield 'expression-is-again-a-reader', isr, type(g).__name__
            yield 'deriving-grandchild-does-not-change-ancestors-or-siblings', *check('after deriving grandchild %d' % j)
            Eg, exc = eager(Ec, prog) if Ec is not None else (None, ValueError)
            if exc is None:
                nodes.append(('grand%d' % j, g, Eg, pc + prog))
            yield 'reading-grandchild-does-not-change-ancestors-or-siblings', *check('after reading grandchild %d' % j)


CASES = {'program': case_program, 'derivation': case_derivation}


def _np_scalar_on_the_left(case, clause, inp):
    return (case == 'program' and clause in ('same-dtype-as-expression-on-loaded-array', 'same-values-as-expression-on-loaded-array-then-index')
            and any(op in REFLECTED and isinstance(arg, dict) for op, arg in inp['prog']))


KNOWN_CLASSES = {
    # C01's defect (DESIGN section 6 row 1) seen through a derived reader: ndarray of >= 2 row indices + column selector
    'ndarray-rows-of-2-or-more-with-column-selector':
        lambda case, clause, inp: (case == 'program' and clause == 'no-unexpected-exception' and inp['rows']['k'] == 'array'
                                   and len(inp['rows']['v']) >= 2 and inp.get('cols') is not None),
    # `np.int64(2) * reader`: NumPy's scalar falls back to an object-dtype loop and calls reader.__rmul__ with the
    # *Python* scalar, so the deferred op has lost the NumPy scalar's (strong) type: the result dtype is that of
    # `2 * arr`, not of `np.int64(2) * arr`.
    'numpy-scalar-as-left-operand': _np_scalar_on_the_left,
}


# ----------------------------------------------------------------------------------------------------------------
# enumeration
# ----------------------------------------------------------------------------------------------------------------

def cols_syms(w):
    """column selectors valid on w columns: reversed slice, permutation list, drop-first slice, two-column list"""
    out = [{'k': 'slice', 'a': None, 'b': None, 's': -1}]
    if w >= 2:
        out.append({'k': 'list', 'v': list(range(1, w)) + [0]})
        out.append({'k': 'slice', 'a': 1, 'b': None, 's': None})
    if w >= 3:
        out.append({'k': 'list', 'v': [0, w - 1]})
    return out


def width_after(w, c):
    return len(np.empty((1, w))[:, dec_cols(c)][0])


def programs_full(depth, w, scalars):
    """Every program of exactly `depth` steps over the full alphabet (each binary op with each scalar, each column
    selector valid at that point)."""
    if depth == 0:
        yield []
        return
    for p, wp in _programs_w(depth - 1, w, scalars):
        for s in UNARY:
            yield p + [[s, None]]
        for s in BINARY:
            for a in scalars:
                yield p + [[s, a]]
        for c in cols_syms(wp):
            yield p + [['cols', c]]


def _programs_w(depth, w, scalars):
    if depth == 0:
        yield [], w
        return
    for p, wp in _programs_w(depth - 1, w, scalars):
        for s in UNARY:
            yield p + [[s, None]], wp
        for s in BINARY:
            for a in scalars:
                yield p + [[s, a]], wp
        for c in cols_syms(wp):
            yield p + [['cols', c]], width_after(wp, c)


def programs_15(depth, w, scalars, salt):
    """Every word of length `depth` over the 15-symbol alphabet {2 unary, 12 binary, cols}; the scalar of a binary op
    and the selector of a cols step are chosen by rotation (position + word index + salt)."""
    import itertools
    syms = list(UNARY) + list(BINARY) + ['cols']
    for wi, word in enumerate(itertools.product(syms, repeat=depth)):
        p, wp = [], w
        for k, s in enumerate(word):
            if s in UNARY:
                p.append([s, None])
            elif s == 'cols':
                cs = cols_syms(wp)
                c = cs[(wi + k + salt) % len(cs)]
                p.append(['cols', c])
                wp = width_after(wp, c)
            else:
                p.append([s, scalars[(wi + 3 * k + salt) % len(scalars)]])
        yield p


SC_PY = [2, -3, 0.5, -1.5]
SC_MORE = [0, 1, 40000, 2.0, {'np': 'float32', 'v': 1.5}, {'np': 'int64', 'v': 2}, {'np': 'float64', 'v': 2.5}, {'np': 'int16', 'v': 3}, {'np': 'uint8', 'v': 2}]
SC_NP = [{'np': 'float64', 'v': 2.5}, {'np': 'int64', 'v': 2}, {'np': 'float32', 'v': 1.5}, {'np': 'int16', 'v': 3}]


def enumerate_cases(ctx):
    quick = ctx.tier == 'quick'
    n, w = 5, 3
    FULL = {'k': 'slice', 'a': None, 'b': None, 's': None}
    few_rows = [FULL, {'k': 'int', 'v': -2}, {'k': 'slice', 'a': -4, 'b': 4, 's': None}, {'k': 'list', 'v': [0, 2, 3]},
                {'k': 'array', 'v': [1, 4], 't': 'int64'}]
    two_rows = [{'k': 'slice', 'a': 1, 'b': -1, 's': 1}, {'k': 'array', 'v': [3], 't': 'int64'}]
    perm = {'k': 'list', 'v': [2, 0, 1]}

    def lay_array(dt):
        return {'backend': 'array', 'parts': [n], 'nch': w, 'dtype': dt, 'sr': 2.5}

    def lay_flat(dt, parts=(2, 1, 2), off=3):
        return {'backend': 'flat', 'parts': list(parts), 'nch': w, 'dtype': dt, 'offset': off, 'sr': 2.5, 'ext': '.dat'}

    dts = ['int16', 'float32'] if quick else ['int16', 'int32', 'float32', 'float64', 'uint8', 'uint16']
    dts2 = ['int16', 'int32', 'float32', 'float64'] if quick else dts

    ctx.scope('programs of depth <= 2 over the full alphabet (pos, neg, 12 binary ops x Python scalars {2,-3,0.5,-1.5}, column '
              'selectors {reversed slice, permutation, drop-first slice, 2-column list}) on a 5x3 in-memory array, dtypes %s, '
              'row forms {[:], int, slice with negative bounds, list, ndarray}; depth <= 1 also with a final column selector' % dts)
    for dt in dts:
        lay = lay_array(dt)
        for d in (0, 1, 2):
            for p in programs_full(d, w, SC_PY):
                for r in (few_rows if d < 2 or not quick else few_rows[1:4]):
                    ctx.run('program', {'layout': lay, 'prog': p, 'rows': r, 'cols': None})
                if d <= 1:
                    wp = width_after(w, p[0][1]) if (p and p[0][0] == 'cols') else w
                    for r in few_rows:
                        for c in cols_syms(wp)[:2]:
                            ctx.run('program', {'layout': lay, 'prog': p, 'rows': r, 'cols': c})

    ctx.scope('every depth-1 program x EVERY row index form of C01 (all ints, slices, index lists/arrays of length <= 3 on n = 5) '
              'on the 3-file flat layout [2,1,2] (header offset 3), dtypes %s' % dts2)
    rows_all = all_rows(n, 'flat', 3, both_steps=False)
    for dt in dts2:
        lay = lay_flat(dt)
        for p in programs_full(1, w, SC_PY[:2] + SC_PY[2:3] if quick else SC_PY):
            for r in rows_all:
                ctx.run('program', {'layout': lay, 'prog': p, 'rows': r, 'cols': None})

    if not quick:
        ctx.scope('thorough: every depth-2 program over the full alphabet with scalars {2,-3,0.5} x EVERY row index form of C01 on the '
                  '3-file flat int16 layout')
        lay = lay_flat('int16')
        for p in programs_full(2, w, SC_PY[:3]):
            for r in rows_all:
                ctx.run('program', {'layout': lay, 'prog': p, 'rows': r, 'cols': None})

    ctx.scope('all 15^3 words of depth 3 over the 15-symbol alphabet (scalar / selector chosen by rotation%s) on the 5x3 array, '
              'dtypes %s, 2 row forms' % ('' if quick else ', two different rotations', dts2))
    for di, dt in enumerate(dts2):
        lay = lay_array(dt) if di % 2 == 0 else lay_flat(dt)
        for salt in ((di,) if quick else (di, di + 2)):
            for pi, p in enumerate(programs_15(3, w, SC_PY, salt)):
                if quick and (pi + di) % 2:
                    continue
                for r in two_rows:
                    ctx.run('program', {'layout': lay, 'prog': p, 'rows': r, 'cols': None})

    ctx.scope('other backends (npy, cbin with chunk length 2, multi-file flat with different splits): depth <= %d over the full alphabet, '
              'int16 and float32' % (1 if quick else 2))
    for dt in ('int16', 'float32'):
        lays = [{'backend': 'npy', 'parts': [n], 'nch': w, 'dtype': dt, 'sr': 2.5},
                {'backend': 'cbin', 'parts': [n], 'nch': w, 'dtype': dt, 'chunk': 2, 'via': 'reader'},
                {'backend': 'cbin', 'parts': [n], 'nch': w, 'dtype': dt, 'chunk': 2, 'via': 'path'},
                lay_flat(dt, (1, 4), 0), lay_flat(dt, (5,), 8)]
        for lay in lays:
            for d in ((0, 1) if quick else (0, 1, 2)):
                for p in programs_full(d, w, SC_PY):
                    for r in few_rows[:3] + (few_rows[3:] if lay['backend'] != 'cbin' else []):
                        ctx.run('program', {'layout': lay, 'prog': p, 'rows': r, 'cols': perm if (d == 1 and p[0][0] != 'cols' and len(p[0][0]) % 2) else None})

    ctx.scope('further scalars on depth-1 programs: 0, 1, 2.0, 40000 (out of range for int16: OverflowError on both sides), NumPy '
              'scalars float32/int64/float64/int16/uint8 as RIGHT operand of the non-reflected ops; dtypes %s' % dts2)
    for dt in dts2:
        lay = lay_array(dt)
        for s in BINARY:
            for a in SC_MORE:
                if isinstance(a, dict) and s in REFLECTED:
                    continue
                for r in few_rows[:2]:
                    ctx.run('program', {'layout': lay, 'prog': [[s, a]], 'rows': r, 'cols': None})
                    ctx.run('program', {'layout': lay, 'prog': [['neg', None], [s, a]], 'rows': r, 'cols': None})

    ctx.scope('NumPy scalars as LEFT operand (reflected ops), depth 1, dtypes %s' % dts2)
    for dt in dts2:
        lay = lay_array(dt)
        for s in REFLECTED:
            for a in SC_NP:
                ctx.run('program', {'layout': lay, 'prog': [[s, a]], 'rows': few_rows[2], 'cols': None})

    ctx.scope('derivation trees: parent = base(reader) with base in {[], neg, cols, add 2}; two children = every ordered pair of the '
              '15 symbols (one scalar each), a grandchild under each child; root, parent and every reader derived so far are re-read '
              '(3 row forms) after each derivation and after each read; int16 array%s' % ('' if quick else ' and float32 3-file flat; plus 200 seeded random trees with 3 children of depth <= 2'))
    syms = [[s, None] for s in UNARY] + [[s, SC_PY[i % 4]] for i, s in enumerate(BINARY)] + [['cols', cols_syms(w)[0]]]
    bases = [[], [['neg', None]], [['cols', perm]], [['add', 2]]]
    rows3 = [FULL, {'k': 'int', 'v': 2}, {'k': 'list', 'v': [1, 3]}]
    for lay in ([lay_array('int16')] if quick else [lay_array('int16'), lay_flat('float32')]):
        for bi, base in enumerate(bases):
            for i, s1 in enumerate(syms):
                for j, s2 in enumerate(syms):
                    if quick and bi >= 1 and (i + j + bi) % 3:
                        continue
                    g1, g2 = syms[(i + 2 * j + 1) % len(syms)], syms[(2 * i + j + 5) % len(syms)]
                    ctx.run('derivation', {'layout': lay, 'base': base, 'children': [[s1], [s2]],
                                           'grand': [[0, [g1]], [1, [g2]], [0, [g2]]], 'rows': rows3 if not quick else rows3[::2]})
    if not quick:
        rng = ctx.rng
        full1 = list(programs_full(1, w, SC_PY))
        for t in range(200):
            lay = [lay_array('int32'), lay_flat('int16'), {'backend': 'cbin', 'parts': [n], 'nch': w, 'dtype': 'int16', 'chunk': 2, 'via': 'reader'},
                   {'backend': 'npy', 'parts': [n], 'nch': w, 'dtype': 'float64', 'sr': 2.5}][t % 4]

            def rp(maxd):
                p, wp = [], w
                for _ in range(rng.randint(1, maxd)):
                    s = rng.choice(syms)
                    if s[0] == 'cols':
                        c = rng.choice(cols_syms(wp))
                        wp = width_after(wp, c)
                        s = ['cols', c]
                    p.append(s)
                return p
            base = rp(2) if t % 3 else []
            wb = apply_prog(np.empty((1, w)), base).shape[1]
            # children of a column-reduced parent: only selectors valid on the parent's width
            kids = [[s for s in rp(2) if s[0] != 'cols'] or [['neg', None]] for _ in range(3)]
            kids[t % 3] = kids[t % 3] + [['cols', rng.choice(cols_syms(wb))]]
            ctx.run('derivation', {'layout': lay, 'base': base, 'children': kids,
                                   'grand': [[rng.randint(0, 2), [s for s in rp(2) if s[0] != 'cols'] or [['pos', None]]] for _ in range(2)],
                                   'rows': rows3[:2] if lay['backend'] == 'cbin' else rows3})
