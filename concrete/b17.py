# C17 — spike selection honours its cluster, chunk, subset and count constraints.  Bounded stand-in (tier B):
# the contracts of DESIGN 4/C17 evaluated on the real SpikeSelector / _times_in_chunks over an exhaustive small
# scope.  The selection is randomised (np.random.choice): every clause is a constraint that must hold for every
# draw, so each input is evaluated under several seeds of the global NumPy RNG.  Oracles are explicit loops on
# plain Python numbers and never call phylib.
#
# Preconditions (quantifier text + DESIGN Appendix G/C17): chunk grids are strictly increasing with >= 2 bounds;
# n_chunks_kept >= 1; get_spikes_per_cluster returns disjoint increasing int64 groups (empty for unknown ids);
# spike times are non-decreasing and non-negative.
# Readings (2.13): a chunk is the half-open interval [a, b) of two consecutive grid bounds — a spike exactly on a
# bound belongs to the chunk that starts there; "the kept chunks" in the clauses about the returned ids are the
# intervals the selector itself reports in `chunks_kept` (their relation to the grid is a separate clause), so
# no particular stride formula is demanded beyond the statement (regular stride from the first chunk, count
# never above the requested number).
import contextlib, io, itertools
import numpy as np
from concrete.common import tempdir

from phylib.io import array as A

CONTRACTED = ['phylib/io/array.py::SpikeSelector.__init__', 'phylib/io/array.py::_times_in_chunks',
              'phylib/io/array.py::SpikeSelector.__call__',
              'phylib/io/model.py::TemplateModel.save_spikes_subset_waveforms']


CALLS = [0]   # number of selector calls made (reported in the notes of the result)


def _nums(a):
    return [x.item() if hasattr(x, 'item') else x for x in np.asarray(a).ravel().tolist()]


def _pairs(ck):
    ck = list(ck)
    return list(zip(ck[0::2], ck[1::2]))


def _in_pairs(t, pairs):
    return any(a <= t < b for a, b in pairs)


def _grid_clauses(cb, kept, ck):
    """Clauses relating the reported kept bounds `ck` (flat list) to the supplied grid `cb`."""
    n_chunks = len(cb) - 1
    yield 'kept-bounds-form-intervals', len(ck) % 2 == 0 and len(ck) >= 2, ck
    pairs = _pairs(ck)
    grid = [(cb[i], cb[i + 1]) for i in range(n_chunks)]
    whole = all(p in grid for p in pairs)
    yield 'kept-chunks-are-whole-intervals-of-the-grid', whole, (pairs, cb)
    idx = [grid.index(p) for p in pairs] if whole else None
    yield 'first-chunk-is-kept', bool(pairs) and pairs[0] == grid[0], (pairs, cb)
    regular = idx is not None and any(idx == list(range(0, n_chunks, s)) for s in range(1, n_chunks + 1))
    yield 'kept-chunks-taken-at-a-regular-stride-starting-with-the-first', regular, (idx, n_chunks)
    yield 'never-more-kept-chunks-than-requested', len(pairs) <= kept, (len(pairs), kept)


def case_chunks_kept(inp):
    cb, kept = inp['cb'], inp['kept']
    grid = np.array(cb) if inp.get('cb_as') == 'array' else list(cb)
    sel = A.SpikeSelector(get_spikes_per_cluster=None, spike_times=None, chunk_bounds=grid, n_chunks_kept=kept)
    ck = _nums(sel.chunks_kept)
    yield from _grid_clauses(cb, kept, ck)


def case_times_in_chunks(inp):
    times, ck = inp['times'], inp['kept_bounds']
    t = np.array(times, dtype=inp.get('times_dtype', 'float64'))
    out = A._times_in_chunks(t, np.array(ck))
    out = np.asarray(out)
    yield 'one-flag-per-time', out.shape == t.shape and out.dtype == np.bool_, (out.shape, str(out.dtype))
    pairs = _pairs(ck)
    exp = [_in_pairs(x, pairs) for x in times]
    got = [bool(x) for x in out.ravel().tolist()]
    yield 'flag-iff-time-in-some-kept-half-open-interval', got == exp, (times, ck, got, exp)
    yield '__nontrivial__', len(times) > 0, ''


def _select_clauses(times, sc, ck, configs, n_seeds, times_dtype, get_sel):
    """Evaluate selector calls for every config (n, req, subset_chunks, subset_spikes) and seed; aggregate per
    clause (first failing configuration in the detail)."""
    pairs = _pairs(ck)
    nsp = len(sc)
    inchunk = [_in_pairs(t, pairs) for t in times]
    groups = {}
    for i, c in enumerate(sc):
        groups.setdefault(c, []).append(i)
    names = ['result-is-1d-integer-array', 'result-strictly-increasing', 'ids-are-valid-spike-ids',
             'every-id-belongs-to-a-requested-cluster', 'every-id-lies-in-a-kept-chunk-when-chunk-restriction-requested',
             'every-id-belongs-to-the-spike-subset-when-given',
             'all-eligible-spikes-of-a-cluster-when-at-most-the-count-or-no-positive-count',
             'exactly-the-requested-count-of-eligible-spikes-otherwise',
             'unknown-clusters-contribute-nothing', 'empty-request-gives-empty-selection']
    bad = {}

    def flag(name, ok, detail):
        if not ok and name not in bad:
            bad[name] = detail

    n_draws = 0
    for cfg in configs:
        n, req, sub_chunks, sub_spikes = cfg['n'], cfg['req'], cfg['subset_chunks'], cfg['subset_spikes']
        elig = {}
        reqset = set(req)
        subset = None if sub_spikes is None else set(sub_spikes)
        for c in reqset:
            e = list(groups.get(c, []))
            if sub_chunks:
                e = [i for i in e if inchunk[i]]
            if subset is not None:
                e = [i for i in e if i in subset]
            elig[c] = e
        limited = n is not None and n > 0
        random_draw = limited and any(len(e) > n for e in elig.values())
        for seed in range(n_seeds if random_draw else 1):
            np.random.seed(1000 * seed + 17)
            sel = get_sel()
            ss = None if sub_spikes is None else np.array(sub_spikes, dtype=np.int64)
            out = sel(n, list(req), subset_chunks=sub_chunks, subset_spikes=ss)
            n_draws += 1
            CALLS[0] += 1
            d = (cfg, seed, repr(out))
            is_arr = isinstance(out, np.ndarray) and out.ndim == 1 and out.dtype.kind in 'iu'
            flag(names[0], is_arr, d)
            got = [int(x) for x in np.asarray(out).ravel().tolist()]
            flag(names[1], all(got[i] < got[i + 1] for i in range(len(got) - 1)), d)
            valid = all(0 <= g < nsp for g in got)
            flag(names[2], valid, d)
            if not valid:
                continue
            flag(names[3], all(sc[g] in reqset for g in got), d)
            if sub_chunks:
                flag(names[4], all(inchunk[g] for g in got), d)
            if subset is not None:
                flag(names[5], all(g in subset for g in got), d)
            for c in reqset:
                mine = [g for g in got if sc[g] == c]
                if not limited or len(elig[c]) <= n:
                    flag(names[6], mine == elig[c], (d, c, mine, elig[c]))
                else:
                    flag(names[7], len(mine) == n and set(mine) <= set(elig[c]) and len(set(mine)) == n, (d, c, mine, elig[c]))
                if c not in groups:
                    flag(names[8], mine == [], (d, c, mine))
            known = [g for g in got if sc[g] in groups and sc[g] in reqset]
            flag(names[8], len(known) == len(got), d)
            if not req:
                flag(names[9], got == [], d)
    for nm in names:
        yield nm, nm not in bad, bad.get(nm)
    yield '__nontrivial__', n_draws > 0 and nsp > 0, ''


def case_select(inp):
    """SpikeSelector built on a grid, called for a list of configurations."""
    times, sc, cb, kept = inp['times'], inp['sc'], inp['cb'], inp['kept']
    tdt = inp.get('times_dtype', 'int64')
    groups = {}
    for i, c in enumerate(sc):
        groups.setdefault(c, []).append(i)
    garr = {c: np.array(v, dtype=np.int64) for c, v in groups.items()}
    empty = np.array([], dtype=np.int64)
    st = np.array(times, dtype=tdt)

    def get_sel():
        return A.SpikeSelector(get_spikes_per_cluster=lambda c: garr.get(c, empty), spike_times=st,
                               chunk_bounds=list(cb), n_chunks_kept=kept)
    sel = get_sel()
    ck = _nums(sel.chunks_kept)
    yield from _grid_clauses(cb, kept, ck)
    yield from _select_clauses(times, sc, ck, inp['configs'], inp.get('n_seeds', 5), tdt, get_sel)


def case_save_spikes_subset(inp):
    """Use in TemplateModel.save_spikes_subset_waveforms: the saved spike ids are a selection over the templates
    present, restricted to at most 20 kept chunks of the reader's chunk grid, at most k per template."""
    from concrete.datagen import make_dataset
    from phylib.io.model import load_model
    k = inp['k']
    with tempdir() as d:
        T = make_dataset(d, **inp['dataset'])
        m = load_model(d + '/params.py')
        try:
            np.random.seed(inp.get('seed', 0))
            with contextlib.redirect_stderr(io.StringIO()):
                m.save_spikes_subset_waveforms(max_n_spikes_per_template=k)
            out = np.load(d + '/_phy_spikes_subset.spikes.npy')
        finally:
            m.close()
        st = [int(x) for x in T['spike_templates']]
        ts = [int(x) for x in T['spike_samples']]
        n = int(T['raw'].shape[0])
        cs = int(round(600.0 * inp['dataset']['sample_rate']))
        cb = list(range(0, n, cs)) + [n]          # the reader's chunk grid (C16 statement), single file
        n_chunks = len(cb) - 1
        yield 'result-is-1d-integer-array', out.ndim == 1 and out.dtype.kind in 'iu', repr(out)
        got = [int(x) for x in out.tolist()]
        yield 'result-strictly-increasing', all(got[i] < got[i + 1] for i in range(len(got) - 1)), got
        valid = all(0 <= g < len(st) for g in got)
        yield 'ids-are-valid-spike-ids', valid, got
        if not valid:
            return
        # constraint-style: SOME regular stride from the first chunk with at most 20 kept chunks explains the result
        ok_any, why = False, []
        for s in range(1, n_chunks + 1):
            idx = list(range(0, n_chunks, s))
            if len(idx) > 20:
                continue
            pairs = [(cb[i], cb[i + 1]) for i in idx]
            ok = all(_in_pairs(ts[g], pairs) for g in got)
            for t in sorted(set(st)):
                e = [i for i in range(len(st)) if st[i] == t and _in_pairs(ts[i], pairs)]
                mine = [g for g in got if st[g] == t]
                ok = ok and (mine == e if len(e) <= k else (len(mine) == k and set(mine) <= set(e)))
            if ok:
                ok_any = True
                break
            why.append(s)
        yield 'selection-of-every-template-within-at-most-20-kept-chunks-at-a-regular-stride-at-most-k-each', ok_any, (got, cb, k)


CASES = {'chunks_kept': case_chunks_kept, 'times_in_chunks': case_times_in_chunks, 'select': case_select,
         'save_spikes_subset': case_save_spikes_subset}


# ------------------------------------------------------------------------------------------------
# scope
# ------------------------------------------------------------------------------------------------

def _grids(max_bounds, gaps=(1, 2), start=0):
    for nb in range(2, max_bounds + 1):
        for g in itertools.product(gaps, repeat=nb - 1):
            cb = [start]
            for x in g:
                cb.append(cb[-1] + x)
            yield cb


def _oracle_kept(cb, stride):
    out = []
    for i in range(0, len(cb) - 1, stride):
        out.extend([cb[i], cb[i + 1]])
    return out


COUNTS = [None, 0, 1, 2, 10]


def enumerate_cases(ctx):
    quick = ctx.tier == 'quick'
    rng = ctx.rng

    NB = 6 if quick else 7
    ctx.scope('SpikeSelector.__init__: every grid of 2..%d bounds from 0 with gaps in {1,2} x n_chunks_kept 1..%d (list and array '
              'grids); one uneven grid of each size 2..%d bounds x n_chunks_kept 1..%d; grids not starting at 0'
              % (NB, NB + 1, 14 if quick else 45, 16 if quick else 48))
    for cb in _grids(NB):
        for kept in range(1, NB + 2):
            ctx.run('chunks_kept', {'cb': cb, 'kept': kept, 'cb_as': 'list'})
            ctx.run('chunks_kept', {'cb': cb, 'kept': kept, 'cb_as': 'array'})
    for nb in range(2, (14 if quick else 45) + 1):
        cb = [0]
        for i in range(nb - 1):
            cb.append(cb[-1] + 1 + (i * i) % 3)
        for kept in range(1, (16 if quick else 48) + 1):
            ctx.run('chunks_kept', {'cb': cb, 'kept': kept, 'cb_as': 'list'})
    for cb in _grids(4, gaps=(1, 3), start=2):
        for kept in range(1, 5):
            ctx.run('chunks_kept', {'cb': cb, 'kept': kept, 'cb_as': 'array'})

    NB2 = 5 if quick else 6
    ctx.scope('_times_in_chunks: every grid of 2..%d bounds (gaps {1,2}, from 0 and from 2) x every stride 1..n_chunks (kept bounds '
              'built by the oracle, duplicated inner bounds when adjacent chunks are kept) x all times k/2 for k in -1..2*last+3 '
              '(every bound, every interior point, before/after the grid), float64; integer times as int64 and uint64' % NB2)
    for start in (0, 2):
        for cb in _grids(NB2, start=start):
            for stride in range(1, len(cb)):
                ck = _oracle_kept(cb, stride)
                half = [k / 2.0 for k in range(-1 if start == 0 else 0, 2 * cb[-1] + 4)]
                ctx.run('times_in_chunks', {'times': half, 'kept_bounds': ck, 'times_dtype': 'float64'})
                ints = list(range(0, cb[-1] + 3))
                ctx.run('times_in_chunks', {'times': ints, 'kept_bounds': ck, 'times_dtype': 'int64'})
                ctx.run('times_in_chunks', {'times': ints, 'kept_bounds': ck, 'times_dtype': 'uint64'})
    ctx.run('times_in_chunks', {'times': [], 'kept_bounds': [0, 2], 'times_dtype': 'int64'})

    # ---- selection, family A: chunk membership ---------------------------------------------------------------
    NB3 = 5 if quick else 6
    REQS_A = [[0], [2, 0], [7, 2], []]
    ctx.scope('selection / chunk membership: every grid of 2..%d bounds (gaps {1,2}) x n_chunks_kept 1..%d; one spike on every '
              'integer time 0..last+1 (so on every bound) plus a duplicate time, clusters alternating 0/2 in two phases; counts '
              '{None,0,1,2,10} x requests {[0],[2,0],[7,2],[]} x chunk restriction on/off x subset off / every-other-spike; '
              '%d RNG seeds whenever a draw happens; times as int64 / uint64 / float64' % (NB3, NB3, 4 if quick else 12))
    k = 0
    for cb in _grids(NB3):
        times = list(range(0, cb[-1] + 2))
        times = sorted(times + [cb[len(cb) // 2]])
        for kept in range(1, NB3 + 1):
            for phase in (0, 1):
                k += 1
                sc = [(0, 2)[(i + phase) % 2] for i in range(len(times))]
                configs = []
                for n in COUNTS:
                    for req in REQS_A:
                        for sub_chunks in (True, False):
                            for sub in (None, list(range(0, len(times), 2))):
                                if not sub_chunks and (sub is not None) and n in (0, 10):
                                    continue
                                configs.append({'n': n, 'req': req, 'subset_chunks': sub_chunks, 'subset_spikes': sub})
                ctx.run('select', {'times': times, 'sc': sc, 'cb': cb, 'kept': kept, 'configs': configs,
                                   'n_seeds': 4 if quick else 12, 'times_dtype': ('int64', 'uint64', 'float64')[k % 3]})

    # ---- selection, family B: count logic over all small cluster vectors --------------------------------------
    LB = 5 if quick else 6
    REQS_B = [[], [0], [2, 0], [7], [0, 7, 2], [2, 2], [1, 5]]
    GRIDS_B = [([0, 10], 1), ([0, 2, 4, 6], 2), ([0, 1, 3, 4, 6], 3)]
    ctx.scope('selection / counts: every cluster vector of length 1..%d over {0,2} (plus all over {0,2,5} up to length 4) x 3 '
              '(grid, n_chunks_kept) pairs with spike i at time i (spikes on bounds and in dropped chunks) x counts '
              '{None,0,-1,1,2,(3 thorough only),10} x requests {[],[0],[2,0],[7],[0,7,2],[2,2],[1,5]} (unknown ids 1,7) x chunk restriction on/off '
              'x subset off / two subsets (one unsorted, one with foreign ids); %d RNG seeds per configuration with a draw'
              % (LB, 4 if quick else 20))
    vecs = [list(v) for n in range(1, LB + 1) for v in itertools.product([0, 2], repeat=n)]
    vecs += [list(v) for n in range(1, 5) for v in itertools.product([0, 2, 5], repeat=n) if 5 in v]
    for sc in vecs:
        nsp = len(sc)
        subsets = [None, [i for i in range(nsp) if i % 3 != 1][::-1], [0, nsp - 1]]
        for cb, kept in GRIDS_B:
            configs = []
            for n in ((None, 0, -1, 1, 2, 10) if quick else (None, 0, -1, 1, 2, 3, 10)):
                for req in REQS_B:
                    for sub_chunks in (True, False):
                        for sub in subsets:
                            configs.append({'n': n, 'req': req, 'subset_chunks': sub_chunks, 'subset_spikes': sub})
            ctx.run('select', {'times': list(range(nsp)), 'sc': sc, 'cb': cb, 'kept': kept, 'configs': configs,
                               'n_seeds': 4 if quick else 20, 'times_dtype': 'int64'})

    # ---- model level ------------------------------------------------------------------------------------------
    ND = 4 if quick else 30
    ctx.scope('save_spikes_subset_waveforms on %d dataset directories: 30-60 spikes, 3 templates (one possibly unused), raw file of '
              '9..90 samples with chunk length 2..3 samples (3..45 chunks: below, at and above the 20 kept chunks, strides not dividing '
              'the chunk count), k in {1,2,5,100}' % ND)
    shapes = [(2, 50), (3, 9), (2, 41), (2, 40), (2, 90), (3, 61), (2, 81), (3, 120)]
    for j in range(ND):
        cs, nsamp = shapes[j % len(shapes)]
        ds = dict(seed=100 + j, n_spikes=(30, 45, 60)[j % 3], n_templates=3, times_dtype='int64', sample_rate=cs / 600.0,
                  raw=dict(n_samples=nsamp), unused_top_template=(j % 5 == 4))
        ctx.run('save_spikes_subset', {'dataset': ds, 'k': (1, 2, 5, 100)[(j // 2) % 4], 'seed': j})

    def note():
        ctx.notes.append('selector calls evaluated: %d' % CALLS[0])

    if quick:
        note()
    if not quick:
        NR = 150
        ctx.scope('seeded random larger inputs (%d): 50..400 spikes with non-decreasing times (ties, spikes on bounds), 1..8 clusters '
                  'with gapped ids, grids of 2..60 bounds with gaps 1..9, n_chunks_kept 1..25, counts {None,0,1,3,20,1000}, random '
                  'requests incl. unknown ids, subset off/random; 3 seeds' % NR)
        for j in range(NR):
            r = np.random.RandomState(ctx.seed * 104729 + j)
            nb = int(r.randint(2, 61))
            cb = np.concatenate([[0], np.cumsum(r.randint(1, 10, size=nb - 1))]).tolist()
            nsp = int(r.randint(50, 401))
            times = np.sort(r.randint(0, cb[-1] + 3, size=nsp)).tolist()
            ids = sorted(int(x) for x in r.choice(30, size=int(r.randint(1, 9)), replace=False))
            sc = [ids[int(i)] for i in r.randint(0, len(ids), size=nsp)]
            configs = []
            for n in (None, 0, 1, 3, 20, 1000):
                req = [c for c in ids if r.rand() < 0.6] + [31, 99]
                r.shuffle(req)
                sub = None if r.rand() < 0.5 else sorted(int(x) for x in r.choice(nsp, size=nsp // 2, replace=False))
                for sub_chunks in (True, False):
                    configs.append({'n': n, 'req': [int(x) for x in req], 'subset_chunks': sub_chunks, 'subset_spikes': sub})
            ctx.run('select', {'times': [int(t) for t in times], 'sc': sc, 'cb': [int(x) for x in cb],
                               'kept': int(r.randint(1, 26)), 'configs': configs, 'n_seeds': 3,
                               'times_dtype': ('int64', 'uint64', 'float64')[j % 3]})
        note()
