# C09 — amplitude, depth, duration and peak-channel summaries follow their definitions.  Bounded stand-in
# (tier B): the contracts of DESIGN 4/C09 evaluated on the REAL TemplateModel (loaded from a dataset
# directory written by concrete/datagen.py) over an exhaustively enumerated small scope of spike
# assignments (templates / clusters without spikes at every position, clusters equal to or different
# from templates), cycled unit factors, sampling rates, whitening and geometry configurations, plus
# seeded random larger datasets and datasets longer than one get_depths batch (50000 spikes).
#
# The oracle is the "direct formula on the stored arrays": plain NumPy on what datagen wrote (and, for the
# per-cluster quantities of curated datasets, on the model's stored cluster waveforms sparse_clusters.data,
# whose correctness is property C08).  It never calls phylib.
import os, itertools, math
import numpy as np
from concrete.common import tempdir
from concrete.datagen import make_dataset

from phylib.io import model as M

CONTRACTED = ['phylib/io/model.py::TemplateModel.get_amplitudes_true',
              'phylib/io/model.py::TemplateModel._amplitudes',
              'phylib/io/model.py::TemplateModel._channels',
              'phylib/io/model.py::TemplateModel._waveform_durations',
              'phylib/io/model.py::TemplateModel.get_depths',
              'phylib/io/model.py::TemplateModel.templates_amplitudes',
              'phylib/io/model.py::TemplateModel.clusters_amplitudes',
              'phylib/io/model.py::TemplateModel.templates_channels',
              'phylib/io/model.py::TemplateModel.clusters_channels',
              'phylib/io/model.py::TemplateModel.templates_probes',
              'phylib/io/model.py::TemplateModel.templates_waveforms_durations',
              'phylib/io/model.py::TemplateModel.clusters_waveforms_durations']

RTOL = 1e-5   # numeric clauses are compared at single-precision level (stored templates / features are float32)


def close(a, b, rtol=RTOL):
    a = np.asarray(a, dtype=np.float64)
    b = np.asarray(b, dtype=np.float64)
    if a.shape != b.shape:
        return False
    fin = b[np.isfinite(b)]
    scale = float(np.abs(fin).max()) if fin.size else 1.0
    return bool(np.allclose(a, b, rtol=rtol, atol=1e-7 * max(scale, 1e-300), equal_nan=True))


# ----------------------------------------------------------------------------------------------
# Dataset + model
# ----------------------------------------------------------------------------------------------

def positions_for(nc, geom):
    i = np.arange(nc, dtype=np.float64)
    if geom == 'two-column':
        return np.c_[(i % 2) * 7.0, 10.0 * i + 0.013 * i * i]
    if geom == 'depth-reversed':      # y decreases with the channel index, not monotone in x
        return np.c_[(i % 3) * 5.0, 400.0 - 17.0 * i - 0.5 * i * i]
    if geom == 'scrambled':
        a = next(k for k in (3, 5, 7, 11, 13) if math.gcd(k, nc) == 1)
        perm = (i * a + 1) % nc
        return np.c_[(perm % 2) * 9.0, 3.0 + 12.5 * perm]
    raise ValueError(geom)


def build(d, inp):
    nt, nc, nsw = inp['nt'], inp['nc'], inp.get('nsw', 6)
    st = inp.get('st')
    sc = inp.get('sc')
    ns = len(st) if st is not None else inp['ns']
    seed = inp.get('seed', 0)
    pos = positions_for(nc, inp.get('geom', 'two-column'))
    probes = None
    if inp.get('probes', False):
        probes = [(c * 2) // nc + (1 if c == nc - 1 else 0) for c in range(nc)]   # 3 probe labels, uneven
    T = make_dataset(d, seed=seed, n_spikes=ns, n_templates=nt, n_channels=nc, nsw=nsw,
                     spike_templates=(list(st) if st is not None else None),
                     spike_clusters=(sc if sc is None or isinstance(sc, str) else list(sc)),
                     sample_rate=float(inp.get('sr', 100.0)), shanks=bool(inp.get('shanks', False)),
                     whitening=bool(inp.get('whitening', True)), whitening_inv=bool(inp.get('wmi_file', False)),
                     positions=pos.tolist(), probes=probes, similar=False, features=bool(inp.get('features', False)),
                     colvec=bool(inp.get('colvec', False)), template_scale=float(inp.get('template_scale', 1.0)))
    rs = np.random.RandomState(4242 + seed)
    if inp.get('whitening', True) and inp.get('random_wm', False):
        wm = np.eye(nc) * 2.0 + rs.uniform(-0.6, 0.6, size=(nc, nc))      # non symmetric, well conditioned
        np.save(os.path.join(d, 'whitening_mat.npy'), wm)
        T['whitening_mat'] = wm
        if inp.get('wmi_file', False):
            np.save(os.path.join(d, 'whitening_mat_inv.npy'), np.linalg.inv(wm))
    if inp.get('peaky', False):
        # templates whose peak channel is not the channel of the largest single sample and whose peak
        # sample differs between channels; keeps float32 values
        tpl = np.array(T['templates'])
        for t in range(nt):
            c = (3 * t + 2) % nc
            tpl[t, :, c] = 0.0
            tpl[t, (t + 1) % nsw, c] = 4.0 + t
            tpl[t, (t + 3) % nsw, c] = -(4.5 + t)
            c2 = (c + 1) % nc
            tpl[t, (t + 2) % nsw, c2] = 7.5 + t            # largest sample, smaller peak-to-peak
            tpl[t, :, c2] = np.maximum(tpl[t, :, c2], 0.25)
        np.save(os.path.join(d, 'templates.npy'), tpl)
        T['templates'] = tpl
    if inp.get('features', False):
        pcf = rs.normal(size=T['pc_features'].shape).astype(np.float32)
        vanish = inp.get('vanish', 'some')
        if vanish == 'some':                      # a few spikes whose positive part vanishes / has a single channel
            pcf[0, 0, :] = -np.abs(pcf[0, 0, :])
            if ns > 2:
                pcf[1, 0, :] = -1.0
                pcf[1, 0, 1] = 2.0
            if ns > 3:                            # never the last spike: it must keep a defined depth
                pcf[2, 0, :] = 0.0
            pcf[ns - 1, 0, 0] = 1.5
        elif vanish == 'all':
            pcf[:, 0, :] = -np.abs(pcf[:, 0, :])
        np.save(os.path.join(d, 'pc_features.npy'), pcf)
        T['pc_features'] = pcf
    T['positions'] = pos
    T['probes'] = np.asarray(probes if probes is not None else [0] * nc)
    T['wmi'] = np.linalg.inv(T['whitening_mat']) if 'whitening_mat' in T else np.eye(nc)
    T['sr'] = float(inp.get('sr', 100.0))
    T['st'] = np.asarray(T['spike_templates']).astype(np.int64)
    T['sc'] = np.asarray(T['spike_clusters']).astype(np.int64) if 'spike_clusters' in T else T['st'].copy()
    return T


def ptp(w):
    """(n, n_samples, n_channels) -> (n, n_channels) peak-to-peak over samples."""
    return w.max(axis=1) - w.min(axis=1)


def id_space(m, T, use):
    """(per-spike ids, waveform table) of the id space: templates as written, clusters as stored."""
    if use == 'templates':
        return T['st'], np.asarray(T['templates'])
    return T['sc'], np.asarray(m.sparse_clusters.data)


# ----------------------------------------------------------------------------------------------
# Cases
# ----------------------------------------------------------------------------------------------

def case_amplitudes_true(inp):
    use, factor = inp['use'], float(inp['factor'])
    with tempdir() as d:
        T = build(d, inp)
        m = M.load_model(os.path.join(d, 'params.py'))
        try:
            ids, W = id_space(m, T, use)
            n = W.shape[0]
            amp = np.asarray(T['amplitudes'], dtype=np.float64)
            U = np.stack([np.dot(W[t].astype(np.float64), T['wmi']) for t in range(n)])    # unwhitened
            au = ptp(U).max(axis=1)                                                          # largest channel ptp
            exp_spike = amp * au[ids] * factor
            exp_id = np.array([exp_spike[ids == t].mean() if np.any(ids == t) else np.nan for t in range(n)])
            has = ~np.isnan(exp_id)

            a, b, c = m.get_amplitudes_true(sample2unit=factor, use=use)
            a, b, c = np.asarray(a), np.asarray(b), np.asarray(c)
            yield ('spike-amplitude = stored-amplitude x largest-channel-ptp-of-unwhitened-template x unit-factor',
                   close(a, exp_spike), (a.tolist()[:8], exp_spike.tolist()[:8]))
            yield ('per-id-amplitude-defined-for-every-id-incl-the-highest', c.shape == (n,), (c.shape, n))
            yield ('per-id-amplitude = mean-over-member-spikes, NaN-for-ids-without-spikes',
                   close(c, exp_id), (c.tolist(), exp_id.tolist()))
            ok_shape = b.shape == W.shape
            yield 'rescaled-templates-one-per-id', ok_shape, (b.shape, W.shape)
            if ok_shape:
                peak = ptp(b.astype(np.float64)).max(axis=1)
                yield ('rescaled-templates-have-exactly-the-per-id-peak-amplitude',
                       close(peak[has], exp_id[has]), (peak.tolist(), exp_id.tolist()))
                with np.errstate(divide='ignore', invalid='ignore'):
                    exp_b = U * (exp_id / au)[:, None, None]
                yield ('rescaled-templates-are-the-unwhitened-templates-rescaled',
                       close(b[has], exp_b[has]), '')
            yield '__nontrivial__', bool(np.any(has)), ''
        finally:
            m.close()


def case_summaries(inp):
    with tempdir() as d:
        T = build(d, inp)
        m = M.load_model(os.path.join(d, 'params.py'))
        try:
            amp = np.asarray(T['amplitudes'], dtype=np.float64)
            sr = T['sr']
            for use in ('templates', 'clusters'):
                ids, W = id_space(m, T, use)
                W = W.astype(np.float64) if W.dtype != np.float32 else W
                n = W.shape[0]
                uids = sorted(set(ids.tolist()))
                # mean amplitudes, one per id that has spikes, in increasing id order
                exp = np.array([amp[ids == t].mean() for t in uids])
                got = np.asarray(m.templates_amplitudes if use == 'templates' else m.clusters_amplitudes)
                yield '%s-mean-amplitude = mean-of-stored-amplitudes-over-member-spikes' % use, close(got, exp), (got.tolist(), exp.tolist())
                # peak channels: a channel attaining the largest peak-to-peak of the stored waveform
                P = ptp(W)
                got = np.asarray(m.templates_channels if use == 'templates' else m.clusters_channels)
                ok = got.shape == (n,) and all(0 <= int(got[t]) < W.shape[2] and P[t, int(got[t])] == P[t].max() for t in range(n))
                yield '%s-peak-channel = argmax-channel-of-peak-to-peak' % use, ok, (got.tolist(), P.tolist())
                if use == 'templates':
                    pr = np.asarray(m.templates_probes)
                    okp = pr.shape == (n,) and all(
                        int(pr[t]) in {int(T['probes'][c]) for c in range(W.shape[2]) if P[t, c] == P[t].max()} for t in range(n))
                    yield 'templates-probe = probe-of-the-peak-channel', okp, (pr.tolist(), T['probes'].tolist())
                # durations (ms): (sample of the maximum - sample of the minimum) on the peak channel / rate * 1000
                got = np.asarray(m.templates_waveforms_durations if use == 'templates' else m.clusters_waveforms_durations)
                okd = got.shape == (n,)
                det = ''
                for t in range(n if okd else 0):
                    cands = [(int(np.argmax(W[t][:, c])) - int(np.argmin(W[t][:, c]))) / sr * 1e3
                             for c in range(W.shape[2]) if P[t, c] == P[t].max()]
                    if not any(abs(got[t] - x) <= 1e-9 * max(1.0, abs(x)) for x in cands):
                        okd, det = False, (t, float(got[t]), cands)
                yield '%s-duration-ms = (argmax-sample - argmin-sample)-on-peak-channel / sample-rate x 1000' % use, okd, det
            # depths
            if inp.get('features', False):
                pcf = np.asarray(T['pc_features'], dtype=np.float64)[:, 0, :]       # first component, (ns, ncl)
                ind = np.asarray(T['pc_feature_ind']).astype(np.int64)              # (nt, ncl)
                y = np.asarray(T['positions'])[:, 1]
                w = np.maximum(pcf, 0.0) ** 2
                ych = y[ind[T['st']]]                                              # (ns, ncl)
                den = w.sum(axis=1)
                with np.errstate(divide='ignore', invalid='ignore'):
                    exp = np.where(den > 0, (w * ych).sum(axis=1) / den, np.nan)
                with np.errstate(invalid='ignore'):      # 0/0 -> NaN is the expected value, keep stderr quiet
                    got = m.get_depths()
                ok = got is not None and close(got, exp)
                bad = [] if ok or got is None or np.shape(got) != exp.shape else np.nonzero(~np.isclose(got, exp, rtol=RTOL, equal_nan=True))[0][:5].tolist()
                yield ('spike-depth = positive-squared-first-feature-weighted-mean-of-y-over-the-template-channels (NaN when the positive part vanishes)',
                       ok, (bad, None if got is None else np.asarray(got)[bad].tolist(), exp[bad].tolist()))
                yield '__nontrivial__', bool(np.any(den > 0)), ''
        finally:
            m.close()


CASES = {'amplitudes_true': case_amplitudes_true, 'summaries': case_summaries}


# ----------------------------------------------------------------------------------------------
# Known findings on the unchanged tree (DESIGN section 6, row 9)
# ----------------------------------------------------------------------------------------------

def _identical(inp):
    sc = inp.get('sc')
    return sc is None or sc == 'same' or (inp.get('st') is not None and list(sc) == list(inp['st']))


def _highest_id_without_spikes(case, clause, inp):
    """get_amplitudes_true counts spikes with np.bincount(spikes) (no minlength): when the highest id of the
    id space has no spikes the per-id vector is shorter than the waveform table.  If more than one id
    remains the division raises ValueError; if only id 0 has spikes the length-1 vector broadcasts silently
    and the per-id amplitudes come back with length 1.  Id space: templates -> the highest template unused;
    clusters -> only possible when clusters are the templates (a curated table always ends at the highest
    cluster id in use)."""
    if case != 'amplitudes_true' or inp.get('st') is None:
        return False
    top_unused = max(inp['st']) + 1 < inp['nt']
    if not (top_unused and (inp['use'] == 'templates' or _identical(inp))):
        return False
    if max(inp['st']) >= 1:
        return clause == 'no-unexpected-exception'
    return clause in ('per-id-amplitude-defined-for-every-id-incl-the-highest',
                      'per-id-amplitude = mean-over-member-spikes, NaN-for-ids-without-spikes')


KNOWN_CLASSES = {'highest-id-without-spikes': _highest_id_without_spikes}


# ----------------------------------------------------------------------------------------------
# Scope
# ----------------------------------------------------------------------------------------------

def matrices(n_cells, total):
    if n_cells == 1:
        yield (total,)
        return
    for first in range(total + 1):
        for rest in matrices(n_cells - 1, total - first):
            yield (first,) + rest


def spikes_of(mat, ncl, nt, rng):
    pairs = []
    for c in range(ncl):
        for t in range(nt):
            pairs += [(t, c)] * mat[c * nt + t]
    rng.shuffle(pairs)
    return [p[0] for p in pairs], [p[1] for p in pairs]


CONFIGS = [
    dict(nc=4, whitening=True, geom='two-column', sr=100.0, factor=1.0),
    dict(nc=5, whitening=True, random_wm=True, geom='depth-reversed', sr=30000.0, factor=2.34375, peaky=True, probes=True),
    dict(nc=4, whitening=False, geom='scrambled', sr=2500.0, factor=0.195, shanks=True),
    dict(nc=6, whitening=True, random_wm=True, wmi_file=True, geom='depth-reversed', sr=12345.6, factor=1e-6, peaky=True, probes=True, colvec=True),
    dict(nc=14, whitening=True, random_wm=True, geom='two-column', sr=25000.0, factor=3.0, shanks=True, probes=True),
]


def curate(rng, nt, ns, n_ops):
    st = [rng.randrange(nt) for _ in range(ns)]
    if rng.random() < 0.4 and nt > 1:
        dead = rng.randrange(nt)
        st = [t if t != dead else (t + 1) % nt for t in st]
    sc = list(st)
    nxt = nt
    for _ in range(n_ops):
        ids = sorted(set(sc))
        op = rng.choice(['merge', 'split', 'reassign'])
        if op == 'merge' and len(ids) >= 2:
            grp = set(rng.sample(ids, rng.randint(2, min(3, len(ids)))))
            sc = [nxt if c in grp else c for c in sc]
            nxt += 1
        elif op == 'split':
            c = rng.choice(ids)
            members = [i for i, x in enumerate(sc) if x == c]
            if len(members) >= 2:
                for i in rng.sample(members, rng.randint(1, len(members) - 1)):
                    sc[i] = nxt
                nxt += 1
        else:
            i = rng.randrange(ns)
            sc[i] = rng.choice(ids + [nxt])
            nxt = max(nxt, sc[i] + 1)
    return st, sc


def run_all(ctx, base, feats=True):
    """The three evaluations of one dataset description."""
    ctx.run('amplitudes_true', dict(base, use='templates'))
    ctx.run('amplitudes_true', dict(base, use='clusters'))
    ctx.run('summaries', dict(base, features=feats))


def enumerate_cases(ctx):
    quick = ctx.tier == 'quick'
    rng = ctx.rng
    nt = 3
    fam = [(3, (2, 3))] if quick else [(4, (2, 3, 4))]
    ctx.scope('ALL spike-count matrices N[cluster id][template] (= all pairs (spike_templates, spike_clusters) up to spike '
              'order, incl. clusters equal to templates, ids without spikes at every position, one-spike ids) for %s; each '
              'evaluated with get_amplitudes_true(use=templates), (use=clusters) and the summaries; random dense templates, '
              'random amplitudes/features; configurations (channels, whitening matrix / stored inverse / none, geometry, '
              'sampling rate, unit factor, probes, column-vector files) cycled: %s'
              % (['%d cluster ids x 3 templates, %s spikes' % (k, list(t)) for k, t in fam], CONFIGS))
    idx = 0
    for ncl, totals in fam:
        for total in totals:
            for mat in matrices(ncl * nt, total):
                st, sc = spikes_of(mat, ncl, nt, rng)
                cfg = CONFIGS[idx % (4 if quick else len(CONFIGS))]
                idx += 1
                run_all(ctx, dict(cfg, nt=nt, st=st, sc=sc, seed=idx % 5))
    # ---- ids without spikes at every position, every configuration ---------------------------------
    ctx.scope('every non-empty subset of used templates of 2..4 templates (templates without spikes at any position incl. '
              'the highest) x clusters {file absent, same, all merged into a new id, one template split, relabelled downwards} '
              'x all configurations')
    for nt2 in (2, 3, 4):
        for used in itertools.product((0, 1), repeat=nt2):
            ids = [t for t in range(nt2) if used[t]]
            if not ids:
                continue
            st = [ids[i % len(ids)] for i in range(2 * len(ids) + 1)]
            variants = [None, 'same', [nt2] * len(st),
                        [nt2 + 1 if i == 0 else c for i, c in enumerate(st)],       # split first spike off -> empty id nt2
                        [ids.index(c) if i else nt2 + 2 for i, c in enumerate(st)]]   # relabel + empty ids in the middle
            for k, cfg in enumerate(CONFIGS):
                if quick and (k + nt2 + sum(used)) % 5:
                    continue
                for scv in variants:
                    run_all(ctx, dict(cfg, nt=nt2, st=st, sc=scv, seed=k))
    # ---- feature stores whose positive part vanishes ---------------------------------------------
    ctx.scope('feature stores: positive part vanishing for no / some / all spikes, 2..4 templates, every geometry')
    for vanish in ('none', 'some', 'all'):
        for k, cfg in enumerate(CONFIGS):
            st = [(i * 7 + k) % 3 for i in range(9)]
            ctx.run('summaries', dict(cfg, nt=3 + (k % 2), st=st, sc=None, seed=10 + k, features=True, vanish=vanish))
    # ---- random larger datasets ---------------------------------------------------------------------
    n_rand = 25 if quick else 1200
    ctx.scope('%d seeded random datasets: 2..6 templates, 5..60 spikes, random curation history (merges / splits / '
              'reassignments, possibly none), 4..8 waveform samples, all configurations, random unit factor / sampling rate' % n_rand)
    for i in range(n_rand):
        nt2 = rng.randint(2, 6)
        ns = rng.randint(5, 60)
        st, sc = curate(rng, nt2, ns, rng.randint(0, 5))
        cfg = dict(CONFIGS[i % len(CONFIGS)])
        if i % 2:
            cfg['factor'] = round(rng.uniform(0.01, 50.0), 4)
            cfg['sr'] = float(rng.choice([1000, 20000, 30000, 44100]))
        run_all(ctx, dict(cfg, nt=nt2, st=st, sc=(sc if st != sc else rng.choice([None, 'same'])),
                          seed=rng.randrange(1000), nsw=rng.randint(4, 8), template_scale=rng.choice([1.0, 0.01, 37.5])))
    # ---- more spikes than one get_depths batch (50000) ------------------------------------------------
    sizes = (50001,) if quick else (49999, 50000, 50001, 100001)
    ctx.scope('datasets longer than one depth batch: %s spikes (random templates assignment over 3 templates, clusters = '
              'templates), features with vanishing positive parts' % (list(sizes),))
    for ns in sizes:
        ctx.run('summaries', dict(CONFIGS[1], nt=3, ns=ns, st=None, sc=None, seed=3, features=True, vanish='some'))
        ctx.run('amplitudes_true', dict(CONFIGS[1], nt=3, ns=ns, st=None, sc=None, seed=3, use='templates'))
