# C16 — chunkings tile the sample axis exactly once.  Bounded stand-in (tier B): the contracts of
# DESIGN 4/C16 evaluated on the real functions over an exhaustive small scope.
import itertools, types, os
import numpy as np
from concrete.common import tempdir

from phylib.io import array as A
from phylib.io import traces as T

CONTRACTED = ['phylib/io/array.py::chunk_bounds', 'phylib/io/array.py::excerpts',
              'phylib/io/array.py::_excerpt_step', 'phylib/io/array.py::data_chunk',
              'phylib/io/array.py::get_excerpts', 'phylib/io/traces.py::_get_chunk_bounds',
              'phylib/io/traces.py::BaseEphysReader.iter_chunks',
              'phylib/io/traces.py::MtscompEphysReader.iter_chunks',
              'phylib/io/traces.py::FlatEphysReader.__init__', 'phylib/io/traces.py::ArrayEphysReader.__init__']


def case_chunk_bounds(inp):
    n, cs, ov = inp['n'], inp['cs'], inp['ov']
    data = np.arange(n)
    chunks = list(A.chunk_bounds(n, cs, overlap=ov))
    kept = [A.data_chunk(data, c) for c in chunks]
    whole = [A.data_chunk(data, c, with_overlap=True) for c in chunks]
    cat = np.concatenate(kept) if kept else data[:0]
    yield 'kept-parts-concatenate-to-data', np.array_equal(cat, data), (chunks, cat.tolist())
    yield 'no-chunk-larger-than-chunk-size', all(len(w) <= cs for w in whole), chunks
    yield 'kept-part-inside-chunk', all(set(k.tolist()) <= set(w.tolist()) for k, w in zip(kept, whole)), chunks
    yield 'chunks-well-formed', all(len(c) == 4 and c[0] < c[1] for c in chunks), chunks


def case_excerpts(inp):
    n, ne, es = inp['n'], inp['ne'], inp['es']
    ex = list(A.excerpts(n, n_excerpts=ne, excerpt_size=es))
    yield 'at-most-n-excerpts', len(ex) <= ne, ex
    yield 'in-bounds-nonempty', all(0 <= s < e <= n for s, e in ex), ex
    yield 'size-at-most-excerpt-size', all(e - s <= es for s, e in ex), ex
    yield 'disjoint-increasing', all(ex[i][1] <= ex[i + 1][0] for i in range(len(ex) - 1)), ex
    yield '__nontrivial__', n > 0, ''


def case_get_excerpts(inp):
    n, ne, es = inp['n'], inp['ne'], inp['es']
    data = np.arange(n) * 3 + 1
    out = A.get_excerpts(data, n_excerpts=ne, excerpt_size=es)
    if n < ne * es:
        yield 'whole-data-when-short', np.array_equal(out, data), out.tolist()
    elif ne == 0:
        yield 'empty-for-zero-excerpts', len(out) == 0, out.tolist()
    elif ne == 1:
        yield 'single-excerpt-is-prefix', np.array_equal(out, data[:es]), out.tolist()
    else:
        ex = list(A.excerpts(n, n_excerpts=ne, excerpt_size=es))
        exp = np.concatenate([data[s:e] for s, e in ex])
        yield 'concatenation-of-excerpts', np.array_equal(out, exp), out.tolist()
        yield 'length-bound', len(out) <= ne * es, len(out)
        # the returned samples are distinct, increasing elements of data (disjoint excerpts)
        yield 'strictly-increasing-subsequence', bool(np.all(np.diff(out) > 0)) and set(out.tolist()) <= set(data.tolist()), out.tolist()


def check_bounds(b, sizes, cs):
    total = sum(sizes)
    yield 'starts-at-0', b[0] == 0, b
    yield 'ends-at-n-samples', b[-1] == total, b
    yield 'strictly-increasing', all(b[i] < b[i + 1] for i in range(len(b) - 1)), b
    yield 'gaps-at-most-chunk-size', all(b[i + 1] - b[i] <= cs for i in range(len(b) - 1)), b
    pre = 0
    ok = True
    for s in sizes:
        pre += s
        ok = ok and pre in b
    yield 'contains-every-file-boundary', ok, b


def case_get_chunk_bounds(inp):
    sizes, cs = inp['sizes'], inp['cs']
    b = T._get_chunk_bounds(list(sizes), cs)
    b = [int(x) for x in b]
    yield from check_bounds(b, sizes, cs)


def case_reader_bounds(inp):
    """Real readers: chunk_bounds / iter_chunks of Array and Flat readers (chunk length = round(600*sr))."""
    sizes, sr = inp['sizes'], inp['sr']
    cs = int(round(600.0 * sr))
    nch = 2
    with tempdir() as d:
        if inp['backend'] == 'array':
            arr = np.arange(sum(sizes) * nch, dtype=np.int16).reshape((-1, nch))
            r = T.get_ephys_reader(arr, sample_rate=sr)
        else:
            paths = []
            k = 0
            for i, s in enumerate(sizes):
                a = np.arange(k, k + s * nch, dtype=np.int16).reshape((-1, nch)); k += s * nch
                p = os.path.join(d, 'f%d.bin' % i)
                a.tofile(p)
                from pathlib import Path
                paths.append(Path(p))
            r = T.get_ephys_reader(paths, sample_rate=sr, dtype=np.int16, n_channels=nch)
        b = [int(x) for x in r.chunk_bounds]
        yield from check_bounds(b, sizes, cs)
        it = [(int(a), int(c)) for a, c in r.iter_chunks()]
        ne = [(a, c) for a, c in it if a < c]
        yield 'iter-chunks-tile-in-order', (not ne and sum(sizes) == 0) or (ne and ne[0][0] == 0 and ne[-1][1] == sum(sizes) and all(ne[i][1] == ne[i + 1][0] for i in range(len(ne) - 1))), it
        yield 'iter-chunks-no-inverted-interval', all(a <= c for a, c in it), it
        yield 'n_samples', r.n_samples == sum(sizes), r.n_samples


class _StubReader:
    """A-contract of mtscomp.Reader fields used by iter_chunks (DESIGN 2.5): batch_size >= 1,
    n_batches == ceil(n_chunks / batch_size), chunk_bounds strictly increasing from 0."""
    def __init__(self, cb, bs):
        self.chunk_bounds = list(cb)
        self.n_chunks = len(cb) - 1
        self.batch_size = bs
        self.n_batches = -(-self.n_chunks // bs)
        self.pool = None
        self.calls = []

    def start_thread_pool(self): self.calls.append('start')
    def stop_thread_pool(self): self.calls.append('stop')
    def set_cache_size(self, n): self.calls.append(('cache', n))
    def decompress_chunks(self, r, pool): self.calls.append(('dec', list(r)))


def _tiles(it, n):
    ne = [(a, c) for a, c in it if a < c]
    return bool(ne) and ne[0][0] == 0 and ne[-1][1] == n and all(ne[i][1] == ne[i + 1][0] for i in range(len(ne) - 1))


def case_mtscomp_iter_stub(inp):
    cb, bs = inp['cb'], inp['bs']
    outs = []
    for cache in (False, True):
        stub = _StubReader(cb, bs)
        self = types.SimpleNamespace(reader=stub)
        it = [(int(a), int(c)) for a, c in T.MtscompEphysReader.iter_chunks(self, cache=cache)]
        outs.append(it)
        yield 'nonempty-intervals-tile-recording-in-order[cache=%s]' % cache, _tiles(it, cb[-1]), it
        yield 'no-inverted-interval[cache=%s]' % cache, all(a <= c for a, c in it), it
        yield 'intervals-on-chunk-grid[cache=%s]' % cache, all(a in cb and c in cb for a, c in it), it
        if cache:
            dec = [c[1] for c in stub.calls if isinstance(c, tuple) and c[0] == 'dec']
            flat = [x for l in dec for x in l]
            yield 'every-chunk-decompressed-once', flat == list(range(len(cb) - 1)), dec
    yield 'same-with-cache-on-off', outs[0] == outs[1], outs


def case_mtscomp_real(inp):
    import mtscomp
    n, sr, cd, nt, cache = inp['n'], inp['sr'], inp['chunk_duration'], inp['n_threads'], inp['cache']
    nch = 2
    with tempdir() as d:
        a = (np.arange(n * nch) % 251).astype(np.int16).reshape((-1, nch))
        p = os.path.join(d, 'data.bin')
        a.tofile(p)
        mtscomp.compress(p, os.path.join(d, 'data.cbin'), os.path.join(d, 'data.ch'), sample_rate=sr, n_channels=nch,
                         dtype=np.int16, chunk_duration=cd, n_threads=nt, check_after_compress=False, quiet=True)
        rd = mtscomp.Reader(n_threads=nt)
        rd.open(os.path.join(d, 'data.cbin'), os.path.join(d, 'data.ch'))
        r = T.get_ephys_reader(rd)
        b = [int(x) for x in r.chunk_bounds]
        yield 'bounds-strictly-increasing-0-to-n', b[0] == 0 and b[-1] == n and all(b[i] < b[i + 1] for i in range(len(b) - 1)), b
        it = [(int(x), int(y)) for x, y in r.iter_chunks(cache=cache)]
        yield 'nonempty-intervals-tile-recording-in-order', _tiles(it, n), it
        got = np.vstack([r[x:y] for x, y in it if x < y])
        yield 'chunk-reads-concatenate-to-data', np.array_equal(got, a), got.shape
        rd.close()


CASES = {
    'chunk_bounds': case_chunk_bounds, 'excerpts': case_excerpts, 'get_excerpts': case_get_excerpts,
    '_get_chunk_bounds': case_get_chunk_bounds, 'reader_bounds': case_reader_bounds,
    'mtscomp_iter_stub': case_mtscomp_iter_stub, 'mtscomp_real': case_mtscomp_real,
}


def enumerate_cases(ctx):
    quick = ctx.tier == 'quick'
    N, CS = (18, 8) if quick else (30, 12)
    ctx.scope('chunk_bounds: all (n, cs, ov) with n<=%d, 1<=cs<=%d, 0<=ov<cs (exhaustive)' % (N, CS))
    for n in range(0, N + 1):
        for cs in range(1, CS + 1):
            for ov in range(0, cs):
                ctx.run('chunk_bounds', {'n': n, 'cs': cs, 'ov': ov})
    NE, ES, NN = (4, 5, 22) if quick else (6, 7, 40)
    ctx.scope('excerpts/get_excerpts: all (n, ne, es) with n<=%d, ne<=%d, 1<=es<=%d (exhaustive)' % (NN, NE, ES))
    for n in range(0, NN + 1):
        for ne in range(0, NE + 1):
            for es in range(1, ES + 1):
                if ne >= 2:
                    ctx.run('excerpts', {'n': n, 'ne': ne, 'es': es})
                ctx.run('get_excerpts', {'n': n, 'ne': ne, 'es': es})
    S, K, C = (5, 3, 6) if quick else (7, 4, 9)
    ctx.scope('_get_chunk_bounds: all size lists of 1..%d files with sizes 0..%d (not all zero... zeros allowed) x cs 1..%d' % (K, S, C))
    for k in range(1, K + 1):
        for sizes in itertools.product(range(0, S + 1), repeat=k):
            if k == 3 and quick and max(sizes) > 4:
                continue
            if k == 4 and max(sizes) > 3:
                continue
            for cs in range(1, C + 1):
                ctx.run('_get_chunk_bounds', {'sizes': list(sizes), 'cs': cs})
    ctx.scope('real Array/Flat readers: file size lists (1..3 files, sizes 1..5) x sample rates giving chunk length 1..4')
    for k in (1, 2, 3):
        for sizes in itertools.product(range(1, 6 if quick else 7), repeat=k):
            if quick and k == 3 and sum(sizes) % 3:
                continue
            for csz in (1, 2, 3, 4):
                sr = csz / 600.0
                if int(round(600.0 * sr)) != csz:
                    continue
                for backend in (('array', 'flat') if k == 1 else ('flat',)):
                    ctx.run('reader_bounds', {'sizes': list(sizes), 'sr': sr, 'backend': backend})
    NCH, G = (6, 3) if quick else (8, 3)
    ctx.scope('MtscompEphysReader.iter_chunks on stub readers obeying the assumed mtscomp contract: n_chunks 1..%d, chunk lengths 1..%d (last may be shorter), batch_size 1..%d, cache on/off' % (NCH, G, NCH + 1))
    for nchunks in range(1, NCH + 1):
        lens_opts = [[g] * nchunks for g in range(1, G + 1)] + [[2] * (nchunks - 1) + [1], [3, 1, 2, 1, 3, 2, 1, 1][:nchunks]]
        for lens in lens_opts:
            cb = [0]
            for l in lens:
                cb.append(cb[-1] + l)
            for bs in range(1, NCH + 2):
                ctx.run('mtscomp_iter_stub', {'cb': cb, 'bs': bs})
    ctx.scope('real .cbin readers (mtscomp.compress): n in {7,12}, chunk durations {1,2,5}s @1Hz... x n_threads {1,2,3} x cache on/off')
    for n in ((7, 12) if quick else (5, 7, 12, 20)):
        for cd in ((1, 5) if quick else (1, 2, 3, 5)):
            for nt in ((1, 3) if quick else (1, 2, 3, 4)):
                for cache in (False, True):
                    ctx.run('mtscomp_real', {'n': n, 'sr': 1.0, 'chunk_duration': float(cd), 'n_threads': nt, 'cache': cache})
