# C11 — merging probes conserves every spike and renumbers ids disjointly.  Bounded stand-in (tier B):
# the contracts of DESIGN 4/C11 evaluated on the real phylib.io.merge code over an exhaustive small scope.
#
# Readings / preconditions (DESIGN Appendix G, 2.13): every probe has >= 2 spikes, per-probe spike times are
# non-decreasing ("original order kept within a probe" + "non-decreasing" only make sense together then), all
# probes use the same dtype for the same per-spike array, cluster/template ids are non-negative, per-cluster
# TSV files only mention ids inside the probe's id range 0..max(spike_clusters).  The per-probe offsets are
# existentially quantified ("shifted by a per-probe offset so that ids ... never collide"): the clauses do not
# demand the particular value max+1.
import os, csv, io, itertools, contextlib
import numpy as np
from concrete.common import tempdir, dir_digest

from phylib.io import merge as M

CONTRACTED = ['phylib/io/merge.py::_load_multiple_spike_times', 'phylib/io/merge.py::_load_multiple_spike_arrays',
              'phylib/io/merge.py::Merger.write_spike_times', 'phylib/io/merge.py::Merger.write_spike_data',
              'phylib/io/merge.py::Merger.write_spike_clusters', 'phylib/io/merge.py::Merger.write_cluster_data',
              'phylib/io/merge.py::Merger.merge']

TSV_FILES = {'cluster_KSLabel.tsv': 'KSLabel', 'cluster_Amplitude.tsv': 'Amplitude', 'cluster_ContamPct.tsv': 'ContamPct'}


# ----------------------------------------------------------------------------------------------------------
# Writer of one probe directory (numpy only; shared with b12).  Everything is explicit in the spec.
# ----------------------------------------------------------------------------------------------------------
def template_values(p, nt, nsw, nc, dtype='float32'):
    """Deterministic, all non-zero, pairwise different waveforms (so a misplaced block is visible)."""
    t, s, c = np.meshgrid(np.arange(nt), np.arange(nsw), np.arange(nc), indexing='ij')
    return (1 + p * 100 + t * 17 + s * 5 + c * 2 + 0.5 * ((t + s + c) % 2)).astype(dtype)


def matrix_values(p, n, salt):
    i, j = np.meshgrid(np.arange(n), np.arange(n), indexing='ij')
    # all entries non-zero and different; strictly diagonally dominant, hence invertible (a whitening matrix is)
    return (1.0 + salt + p + i * 0.5 + j * 0.125 + 64.0 * (i == j)).astype(np.float64)


def probe_defaults(p, spec):
    """Fill the channel/template side of a probe spec that only describes spikes (and vice versa)."""
    s = dict(spec)
    s.setdefault('times', [0, 1])
    ns = len(s['times'])
    s.setdefault('st', [0] * ns)
    s.setdefault('sc', list(s['st']))
    s.setdefault('amps', [1.0 + p + 0.25 * i for i in range(ns)])
    s.setdefault('nt', max(s['st']) + 1)
    s.setdefault('nc', 2)
    s.setdefault('nsw', 2)
    s.setdefault('chanmap', list(range(s['nc'])))
    s.setdefault('pos', [[7.0 * (c % 2), 10.0 * c] for c in range(s['nc'])])
    s.setdefault('ncd', max(s['chanmap']) + 1)
    s.setdefault('sr', 100.0)
    s.setdefault('times_dtype', 'uint64')
    s.setdefault('ids_dtype', 'uint32')
    s.setdefault('chanmap_dtype', 'int32')
    s.setdefault('ind_dtype', 'int32')
    s.setdefault('tpl_dtype', 'float32')
    s.setdefault('pos_dtype', 'float64')
    s.setdefault('colvec', False)
    s.setdefault('tsv', {})
    s.setdefault('whitening', True)
    s.setdefault('whitening_inv', False)
    s.setdefault('similar', True)
    # per-template index tables (local numbering): channel indices, similar-template indices
    nloc = s.setdefault('n_loc', min(2, s['nc']))
    s.setdefault('pc_ind', [[(t + j) % s['nc'] for j in range(nloc)] for t in range(s['nt'])])
    ntl = s.setdefault('n_tloc', min(2, s['nt']))
    s.setdefault('tf_ind', [[(t + j) % s['nt'] for j in range(ntl)] for t in range(s['nt'])])
    return s


def write_probe(d, p, spec):
    """Write probe number p described by spec into directory d (always a complete dataset directory, so that a writer is
    free to read any file of it); returns the filled spec plus truth arrays."""
    s = probe_defaults(p, spec)
    os.makedirs(d, exist_ok=True)

    def vec(a):
        return a.reshape((-1, 1)) if s['colvec'] else a

    def save(name, a):
        np.save(os.path.join(d, name), a)
    save('spike_times.npy', vec(np.asarray(s['times']).astype(s['times_dtype'])))
    save('spike_templates.npy', vec(np.asarray(s['st']).astype(s['ids_dtype'])))
    save('spike_clusters.npy', vec(np.asarray(s['sc']).astype(s['ids_dtype'])))
    save('amplitudes.npy', vec(np.asarray(s['amps'], dtype=np.float64)))
    save('channel_map.npy', vec(np.asarray(s['chanmap']).astype(s['chanmap_dtype'])))
    save('channel_positions.npy', np.asarray(s['pos'], dtype=s['pos_dtype']).reshape((s['nc'], 2)))
    tpl = template_values(p, s['nt'], s['nsw'], s['nc'], s['tpl_dtype'])
    save('templates.npy', tpl)
    save('pc_feature_ind.npy', np.asarray(s['pc_ind']).astype(s['ind_dtype']).reshape((s['nt'], -1)))
    save('template_feature_ind.npy', np.asarray(s['tf_ind']).astype(s['ind_dtype']).reshape((s['nt'], -1)))
    truth = {'templates': tpl}
    if s['whitening']:
        truth['whitening_mat.npy'] = matrix_values(p, s['nc'], 0.0)
        save('whitening_mat.npy', truth['whitening_mat.npy'])
    if s['whitening_inv']:
        truth['whitening_mat_inv.npy'] = matrix_values(p, s['nc'], 0.5)
        save('whitening_mat_inv.npy', truth['whitening_mat_inv.npy'])
    if s['similar']:
        truth['similar_templates.npy'] = matrix_values(p, s['nt'], 0.125)
        save('similar_templates.npy', truth['similar_templates.npy'])
    for fn, rows in s['tsv'].items():
        with open(os.path.join(d, fn), 'w', newline='') as f:
            w = csv.writer(f, delimiter='\t')
            w.writerow(['cluster_id', TSV_FILES[fn]])
            for k, v in rows:
                w.writerow([k, v])
    with open(os.path.join(d, 'params.py'), 'w') as f:
        f.write('dat_path = []\nn_channels_dat = %d\ndtype = %r\noffset = 0\nsample_rate = %r\nhp_filtered = False\n'
                % (s['ncd'], 'int16', float(s['sr'])))
    s['truth'] = truth
    return s


def read_tsv(path):
    """Independent reader of a two-column TSV: (header row, {int id: string value}) with duplicate detection."""
    with open(path, newline='') as f:
        rows = list(csv.reader(f, delimiter='\t'))
    head, body = rows[0], rows[1:]
    out, dup = {}, False
    for r in body:
        if not r:
            continue
        k = int(r[0])
        dup = dup or k in out
        out[k] = r[1]
    return head, out, dup


def same_value(a, b):
    """TSV values: numbers compare numerically (the library re-serialises them), everything else as text."""
    try:
        return float(a) == float(b)
    except (TypeError, ValueError):
        return str(a) == str(b)


# ----------------------------------------------------------------------------------------------------------
# Oracle
# ----------------------------------------------------------------------------------------------------------
def merged_order(times_l):
    """[(probe, index)] in the order the statement prescribes: by time, then probe, then original position."""
    return sorted(((p, i) for p, ts in enumerate(times_l) for i in range(len(ts))),
                  key=lambda pi: (times_l[pi[0]][pi[1]], pi[0], pi[1]))


def check_ids(name, merged, order, orig_l):
    """ids shifted by ONE offset per probe; shifted id sets of different probes disjoint. Returns offsets."""
    merged = [int(x) for x in merged]
    offs, const = {}, True
    for m, (p, i) in zip(merged, order):
        o = m - orig_l[p][i]
        const = const and offs.setdefault(p, o) == o
    yield '%s-ids-shifted-by-one-offset-per-probe' % name, const and len(merged) == len(order), (merged, offs)
    sets = [set(x + offs.get(p, 0) for x in ids) for p, ids in enumerate(orig_l)]
    disjoint = all(not (sets[a] & sets[b]) for a in range(len(sets)) for b in range(a + 1, len(sets)))
    yield '%s-ids-of-different-probes-never-collide' % name, disjoint and min(merged, default=0) >= 0, (merged, offs)
    return offs


def case_spike_order(inp):
    """_load_multiple_spike_times / _load_multiple_spike_arrays on in-memory arrays."""
    times_l = inp['times']
    dt = inp.get('dtype', 'uint64')
    arrs = [np.asarray(t, dtype=dt) for t in times_l]
    before = [a.copy() for a in arrs]
    out, order = M._load_multiple_spike_times(*arrs)
    n = sum(len(t) for t in times_l)
    exp = merged_order(times_l)
    flat = [(p, i) for p, ts in enumerate(times_l) for i in range(len(ts))]
    yield 'order-is-a-permutation-of-all-input-spikes', sorted(int(x) for x in order) == list(range(n)), order.tolist()
    got = [flat[int(j)] for j in order] if sorted(int(x) for x in order) == list(range(n)) else None
    yield 'times-non-decreasing', all(out[i] <= out[i + 1] for i in range(len(out) - 1)), out.tolist()
    yield 'ties-keep-probe-then-original-order', got == exp, (got, exp)
    yield 'merged-times-are-the-input-times', [int(x) for x in out] == [times_l[p][i] for p, i in exp], out.tolist()
    # any per-spike array (here a 2-column payload identifying (probe, index)) follows the same permutation
    pay = [np.asarray([[p, i] for i in range(len(ts))], dtype=np.int64).reshape((-1, 2)) for p, ts in enumerate(times_l)]
    moved = M._load_multiple_spike_arrays(*pay, spike_order=order)
    yield 'per-spike-arrays-follow-the-same-order', [tuple(r) for r in moved.tolist()] == exp, moved.tolist()
    yield 'inputs-not-modified', all(np.array_equal(a, b) for a, b in zip(arrs, before)), ''
    yield '__nontrivial__', n > 0, ''


def case_merge(inp):
    """Real Merger on real directories.  inp['e2e']: call Merger.merge() (whole driver, returned model) instead
    of only the four spike/cluster writers."""
    specs = inp['probes']
    with tempdir() as root:
        dirs = [os.path.join(root, 'probe%d' % p) for p in range(len(specs))]
        S = [write_probe(d, p, s) for p, (d, s) in enumerate(zip(dirs, specs))]
        out = os.path.join(root, 'merged')
        before = [dir_digest(d) for d in dirs]
        m = M.Merger(dirs, out)
        model = None
        if inp.get('e2e'):
            with contextlib.redirect_stderr(io.StringIO()):     # tqdm bar
                model = m.merge()
        else:
            m.write_spike_times()
            m.write_spike_data()
            m.write_spike_clusters()
            m.write_cluster_data()
        after = [dir_digest(d) for d in dirs]
        yield 'input-directories-byte-identical', before == after, [sorted(set(a.items()) ^ set(b.items())) for a, b in zip(before, after)]
        yield 'nothing-written-outside-the-output-directory', sorted(os.listdir(root)) == sorted(['probe%d' % p for p in range(len(specs))] + ['merged']), os.listdir(root)

        times_l = [s['times'] for s in S]
        order = merged_order(times_l)
        n = len(order)

        def load(fn):
            return np.load(os.path.join(out, fn))
        t = load('spike_times.npy')
        yield 'each-input-spike-exactly-once(count)', t.shape == (n,), t.shape
        yield 'times-non-decreasing', bool(np.all(t[1:] >= t[:-1])), t.tolist()
        yield 'spike-keeps-its-time(in-statement-order)', [int(x) for x in t] == [times_l[p][i] for p, i in order], t.tolist()
        a = load('amplitudes.npy')
        # amplitudes are pairwise distinct in every generated input, so this also pins the permutation
        yield 'spike-keeps-its-amplitude', a.shape == (n,) and a.tolist() == [float(S[p]['amps'][i]) for p, i in order], a.tolist()
        sc = load('spike_clusters.npy')
        st = load('spike_templates.npy')
        yield 'id-arrays-one-entry-per-spike', sc.shape == (n,) and st.shape == (n,), (sc.shape, st.shape)
        coff = yield from check_ids('cluster', sc, order, [s['sc'] for s in S])
        yield from check_ids('template', st, order, [s['st'] for s in S])
        yield 'id-dtypes-integer', sc.dtype.kind in 'iu' and st.dtype.kind in 'iu', (str(sc.dtype), str(st.dtype))
        cp = load('cluster_probes.npy')
        ok = cp.ndim == 1 and len(cp) >= int(sc.max()) + 1
        if ok:
            for p, s in enumerate(S):
                ids = set(s['sc']) | set(int(k) for rows in s['tsv'].values() for k, _ in rows)
                ok = ok and all(0 <= k + coff.get(p, 0) < len(cp) and int(cp[k + coff.get(p, 0)]) == p for k in ids)
        yield 'cluster-probe-table-points-to-originating-probe', ok, (cp.tolist(), coff)
        yield 'cluster-probe-table-covers-exactly-the-merged-id-range', len(cp) == int(sc.max()) + 1 and set(cp.tolist()) <= set(range(len(S))), cp.tolist()
        for fn, field in TSV_FILES.items():
            exp = {}
            for p, s in enumerate(S):
                for k, v in s['tsv'].get(fn, ()):
                    exp[k + coff.get(p, 0)] = v
            path = os.path.join(out, fn)
            if not any(fn in s['tsv'] for s in S):
                # the statement says nothing about a file no probe has: only "no made-up metadata"
                yield 'no-metadata-invented[%s]' % field, not os.path.exists(path) or not read_tsv(path)[1], ''
                continue
            if not exp:
                continue
            if not os.path.exists(path):
                yield 'renumbered-metadata-points-back-to-probe-and-original-id[%s]' % field, False, 'file missing'
                continue
            head, got, dup = read_tsv(path)
            yield 'renumbered-metadata-points-back-to-probe-and-original-id[%s]' % field, \
                (not dup) and set(got) == set(exp) and all(same_value(got[k], exp[k]) for k in exp), (got, exp)
            yield 'metadata-header-kept[%s]' % field, head == ['cluster_id', field], head
        if model is not None:
            sr = float(S[0]['sr'])
            yield 'model-spike-count', model.n_spikes == n, model.n_spikes
            yield 'model-spike-times', np.allclose(np.asarray(model.spike_times), np.asarray([times_l[p][i] for p, i in order]) / sr, rtol=0, atol=1e-12), ''
            yield 'model-spike-clusters', np.array_equal(np.asarray(model.spike_clusters).ravel(), sc), ''
            yield 'model-spike-templates', np.array_equal(np.asarray(model.spike_templates).ravel(), st), ''
            yield 'model-amplitudes', np.array_equal(np.asarray(model.amplitudes).ravel(), a), ''
            mcp = getattr(model, 'cluster_probes', None)
            if mcp is not None:
                yield 'model-cluster-probes', np.array_equal(np.asarray(mcp).ravel(), cp), ''
            model.close()
        yield '__nontrivial__', n > 0, ''


CASES = {'spike_order': case_spike_order, 'merge': case_merge}


# ----------------------------------------------------------------------------------------------------------
# Scope
# ----------------------------------------------------------------------------------------------------------
def nondecreasing(alphabet, lengths):
    for L in lengths:
        yield from (list(c) for c in itertools.combinations_with_replacement(alphabet, L))


# id patterns for a probe with n spikes: (spike_templates, spike_clusters); gaps, curated (split/merged) clusters
def id_patterns(n):
    pats = [
        ([0] * n, [0] * n),                                             # a single cluster
        ([i % 2 for i in range(n)], [i % 2 for i in range(n)]),          # uncurated
        ([i % 2 for i in range(n)], [3 if i % 2 else 0 for i in range(n)]),  # gap 1..2 (curated: cluster 1 -> 3)
        ([0] * n, list(range(n))[::-1]),                                # split, decreasing ids
        ([2 * (i % 2) for i in range(n)], [1 + (i % 2) * 3 for i in range(n)]),  # template gap, no cluster 0
        ([min(i, 2) for i in range(n)], [5] * (n - 1) + [2]),            # merged into a high id
        (list(range(n))[::-1], [0] * n),                                # all merged into cluster 0: more templates than clusters
        ([4 - (i % 2) for i in range(n)], [1 - (i % 2) for i in range(n)]),   # high template ids, low cluster ids
    ]
    return pats


NPAT = len(id_patterns(2))


def tsv_patterns(sc, which):
    """TSV content for a probe: ids inside 0..max(sc) (used ids and, with gaps, an unused id as KS writes them)."""
    top = max(sc)
    used = sorted(set(sc))
    out = {}
    if which & 1:
        out['cluster_KSLabel.tsv'] = [[k, 'good' if k % 2 == 0 else 'mua'] for k in range(top + 1)]
    if which & 2:
        out['cluster_Amplitude.tsv'] = [[k, 10.5 + k] for k in used]
    if which & 4:
        out['cluster_ContamPct.tsv'] = [[k, 7 * (k + 1)] for k in used[::-1]]   # unsorted rows, ints
    return out


def distinct_amps(p, n):
    return [0.5 + p * 16 + i for i in range(n)]


def build_probe(p, times, pat, tsv_which, times_dtype, ids_dtype, colvec, extra=None):
    st, sc = id_patterns(len(times))[pat % len(id_patterns(len(times)))]
    s = {'times': list(times), 'st': st, 'sc': sc, 'amps': distinct_amps(p, len(times)),
         'tsv': tsv_patterns(sc, tsv_which), 'times_dtype': times_dtype, 'ids_dtype': ids_dtype, 'colvec': colvec}
    s.update(extra or {})
    return s


def enumerate_cases(ctx):
    quick = ctx.tier == 'quick'
    # ---- function level: exhaustive
    L = 3 if quick else 4
    ctx.scope('_load_multiple_spike_times/_arrays: all k<=3 tuples of non-decreasing time vectors of length 0..%d over {0,1,2}'
              ' (k=3: length<=%d), dtypes uint64/int32' % (L, 2 if quick else 3))
    vecs = list(nondecreasing((0, 1, 2), range(0, L + 1)))
    small = [v for v in vecs if len(v) <= (2 if quick else 3)]
    for k in (1, 2, 3):
        for i, combo in enumerate(itertools.product(vecs if k < 3 else small, repeat=k)):
            ctx.run('spike_order', {'times': [list(c) for c in combo], 'dtype': 'uint64' if i % 2 == 0 else 'int32'})
    # ---- directory level, spike/cluster writers only
    DT = [('uint64', 'uint32'), ('int64', 'int32'), ('uint32', 'int64'), ('int32', 'uint32')]
    tv = list(nondecreasing((0, 1, 2), (2, 3)))               # 6 + 10 vectors, every tie pattern
    tv4 = [[0, 0, 1, 1], [1, 1, 1, 1], [0, 1, 1, 2], [0, 0, 0, 2]]
    ctx.scope('Merger spike/cluster writers on real directories: 1..3 probes, 2..4 spikes each, all non-decreasing time vectors of '
              'length 2..3 over {0,1,2} for 1-2 probes (3 probes: %s), 8 id patterns (gaps, curated splits/merges, no id 0), '
              'TSV files in all/some/none of the probes, 4 (time dtype, id dtype) pairs, column-vector files'
              % ('every second triple of length-2 vectors' if quick else 'length 2 all, longer ones a third'))
    R = ctx.rng     # id pattern / TSV presence / dtype / column-vector layout drawn independently (seeded) per run

    def probes_for(times_l):
        td, idt = DT[R.randrange(4)]
        colvec = R.randrange(6) == 0
        # "keeps its time" is exact: half of the runs use sample numbers no float32/float64 detour would preserve
        base = R.choice((0, (2 ** 30 + 1) if td.endswith('32') else (2 ** 62 + 1)))
        return [build_probe(p, [base + x for x in t], R.randrange(NPAT), R.randrange(8), td, idt, colvec) for p, t in enumerate(times_l)]
    i = 0
    for t0 in tv + tv4:
        for pat in range(NPAT):
            i += 1
            td, idt = DT[i % 4]
            ctx.run('merge', {'probes': [build_probe(0, t0, pat, (i // 4) % 8, td, idt, i % 5 == 0)]})
    for t0 in tv + tv4:
        for t1 in tv + tv4[:2]:
            for rep in range(1 if quick else 3):
                i += 1
                if quick and i % 2:
                    continue
                ctx.run('merge', {'probes': probes_for([t0, t1])})
    tv3 = [v for v in tv if len(v) == 2] if quick else tv
    for t0 in tv3:
        for t1 in tv3:
            for t2 in tv3:
                i += 1
                if (quick and i % 2) or (not quick and i % 3 and len(t0) + len(t1) + len(t2) > 6):
                    continue
                ctx.run('merge', {'probes': probes_for([t0, t1, t2])})
    # ---- whole driver
    ctx.scope('Merger.merge() end to end (returned TemplateModel, byte identity of complete input directories): 1..3 probes with '
              'unequal spike/channel/template counts, ties inside and across probes')
    e2e = []
    for k in (1, 2, 3):
        for j in range(6 if quick else 24):
            probes = []
            for p in range(k):
                times = (tv + tv4)[(j * 5 + p * 3 + k) % (len(tv) + len(tv4))]
                # >= 2 templates and >= 2 channels per probe: the single-template / single-channel probe is a class of
                # C12's quantifier ("any channel and template counts") and is exercised and reported in b12
                b = build_probe(p, times, j + p, (j + p * 3) % 8, *DT[j % 4], False, extra={'nc': 2 + (p + j) % 2, 'nsw': 2})
                b['nt'] = max(2, max(b['st']) + 1 + (j + p) % 2)
                probes.append(b)
            e2e.append(probes)
    for probes in e2e:
        ctx.run('merge', {'probes': probes, 'e2e': True})
    if not quick:
        ctx.scope('seeded random larger merges: 2..4 probes, 2..12 spikes each, times in 0..6')
        for _ in range(300):
            k = ctx.rng.randint(2, 4)
            td, idt = DT[ctx.rng.randrange(4)]
            probes = []
            for p in range(k):
                n = ctx.rng.randint(2, 12)
                times = sorted(ctx.rng.randint(0, 6) for _ in range(n))
                sc = [ctx.rng.choice((0, 1, 2, 4, 7)) for _ in range(n)]
                st = [ctx.rng.choice((0, 1, 3)) for _ in range(n)]
                probes.append({'times': times, 'st': st, 'sc': sc, 'amps': distinct_amps(p, n), 'tsv': tsv_patterns(sc, ctx.rng.randrange(8)),
                               'times_dtype': td, 'ids_dtype': idt, 'colvec': False})
            ctx.run('merge', {'probes': probes})
