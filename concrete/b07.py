# C07 — spike-cluster index utilities partition the spikes.  Bounded stand-in (tier B): the contracts of
# DESIGN 4/C07 evaluated on the real functions over an exhaustive small scope (+ seeded long vectors in the
# thorough tier).  Oracles are explicit loops / set comprehensions on plain Python ints; they never call phylib.
#
# Preconditions (quantifier text + DESIGN Appendix G/C07): ids are non-negative (signed dtypes included);
# dtypes int32/int64/uint16/uint32; spike-id vectors, when given, are strictly increasing; for the
# index-in-lookup helper the lookup has distinct entries and contains every element of the array (the helper's
# documented domain); the flatten helper gets at least one group.
import itertools
import numpy as np
from concrete.common import tempdir

from phylib.io import array as A
from phylib.io.model import TemplateModel, load_model

CONTRACTED = ['phylib/io/array.py::_spikes_per_cluster', 'phylib/io/array.py::_spikes_in_clusters',
              'phylib/io/array.py::_unique', 'phylib/io/array.py::_index_of',
              'phylib/io/array.py::_flatten_per_cluster', 'phylib/io/array.py::grouped_mean',
              'phylib/io/model.py::TemplateModel.get_cluster_spikes',
              'phylib/io/model.py::TemplateModel.get_template_spikes',
              'phylib/io/model.py::TemplateModel.get_template_counts']

DTYPES = ('int32', 'int64', 'uint16', 'uint32')


def _ints(a):
    """Plain Python ints of a 1-D array-like returned by the code under test."""
    return [int(x) for x in np.asarray(a).ravel().tolist()]


def _is_1d_int_array(a):
    return isinstance(a, np.ndarray) and a.ndim == 1 and (a.dtype.kind in 'iu')


def _strictly_increasing(l):
    return all(l[i] < l[i + 1] for i in range(len(l) - 1))


# ------------------------------------------------------------------------------------------------
# grouping
# ------------------------------------------------------------------------------------------------

def case_spikes_per_cluster(inp):
    sc, dt, ids = inp['sc'], inp['dtype'], inp.get('ids')
    n = len(sc)
    arr = np.array(sc, dtype=dt)
    if ids is None:
        out = A._spikes_per_cluster(arr)
        label = list(range(n))
    else:
        out = A._spikes_per_cluster(arr, np.array(ids, dtype=np.int64))
        label = list(ids)
    # oracle: for every id present, the spikes (positions or supplied ids) carrying it, in increasing order
    exp = {}
    for i, c in enumerate(sc):
        exp.setdefault(c, []).append(label[i])
    keys = [int(k) for k in out.keys()]
    yield 'keys-are-exactly-the-cluster-ids-present', sorted(keys) == sorted(exp) and len(set(keys)) == len(keys), (keys, sorted(exp))
    got = {int(k): _ints(v) for k, v in out.items()}
    yield 'every-group-is-a-1d-integer-array', all(_is_1d_int_array(v) for v in out.values()), {str(k): repr(v) for k, v in out.items()}
    yield 'group-is-exactly-the-spikes-carrying-that-id', all(got.get(c) == exp[c] for c in exp), (got, exp)
    yield 'groups-strictly-increasing', all(_strictly_increasing(v) for v in got.values()), got
    allsp = [x for v in got.values() for x in v]
    yield 'groups-partition-all-spikes', len(allsp) == n and sorted(allsp) == sorted(label), (got, label)
    yield 'lookup-by-python-int-key-works', all(c in out and _ints(out[c]) == exp[c] for c in exp), sorted(exp)
    yield '__nontrivial__', n > 0, ''


def case_spikes_in_clusters(inp):
    sc, dt, clusters = inp['sc'], inp['dtype'], inp['clusters']
    arr = np.array(sc, dtype=dt)
    cdt = inp.get('clusters_dtype')
    cl = list(clusters) if cdt is None else np.array(clusters, dtype=cdt)
    out = A._spikes_in_clusters(arr, cl)
    want = set(clusters)
    exp = [i for i, c in enumerate(sc) if c in want]
    yield 'is-1d-integer-array', _is_1d_int_array(out), repr(out)
    got = _ints(out)
    yield 'strictly-increasing', _strictly_increasing(got), got
    yield 'exactly-the-spikes-whose-cluster-is-requested', got == exp, (got, exp)
    # "selecting the spikes of any set of clusters equals the sorted union of their groups" — against the
    # groups the real grouping function returns
    groups = A._spikes_per_cluster(arr)
    gi = {int(k): _ints(v) for k, v in groups.items()}
    union = sorted(set(x for c in want if c in gi for x in gi[c]))
    yield 'equals-sorted-union-of-the-groups-of-the-requested-clusters', got == union, (got, union)
    yield '__nontrivial__', len(sc) > 0 and len(clusters) > 0, ''


# ------------------------------------------------------------------------------------------------
# unique / index_of / flatten / grouped_mean
# ------------------------------------------------------------------------------------------------

def case_unique(inp):
    x, dt = inp['x'], inp['dtype']
    if inp.get('as') == 'none':
        out = A._unique(None)
        x = []
    elif inp.get('as') == 'list':
        out = A._unique(list(x))
    else:
        out = A._unique(np.array(x, dtype=dt))
    yield 'is-1d-integer-array', _is_1d_int_array(out), repr(out)
    got = _ints(out)
    yield 'strictly-increasing', _strictly_increasing(got), got
    yield 'members-are-exactly-the-values-present', got == sorted(set(x)), (got, sorted(set(x)))
    yield '__nontrivial__', len(x) > 0, ''


def case_index_of(inp):
    arr, dt, lookup = inp['arr'], inp['dtype'], inp['lookup']
    ldt = inp.get('lookup_dtype')
    lk = list(lookup) if ldt is None else np.array(lookup, dtype=ldt)
    a = np.array(arr, dtype=dt)
    if inp.get('shape2d'):
        a = a.reshape((-1, 1))
    out = A._index_of(a, lk)
    exp = [lookup.index(v) for v in arr]
    yield 'same-shape-as-array', np.asarray(out).shape == a.shape, np.asarray(out).shape
    got = _ints(out)
    yield 'entry-is-the-position-of-the-value-in-the-lookup', got == exp, (got, exp)
    yield 'lookup-of-result-gives-back-the-array', len(got) == len(arr) and all(0 <= g < len(lookup) and lookup[g] == v for g, v in zip(got, arr)), (got, arr, lookup)
    yield '__nontrivial__', len(arr) > 0, ''


def case_flatten(inp):
    groups = inp['groups']   # list of [cluster id, list of spike ids]
    dt = inp.get('dtype', 'int64')
    d = {c: np.array(v, dtype=dt) for c, v in groups}
    out = A._flatten_per_cluster(d)
    exp = sorted(set(x for _, v in groups for x in v))
    yield 'is-1d-integer-array', _is_1d_int_array(out), repr(out)
    got = _ints(out)
    yield 'strictly-increasing', _strictly_increasing(got), got
    yield 'equals-sorted-union-of-the-groups', got == exp, (got, exp)
    yield '__nontrivial__', len(exp) > 0, ''


def case_flatten_of_grouping(inp):
    """flatten(grouping restricted to a set of clusters) = selection of those clusters; flatten of the whole
    grouping = all spikes (the groups partition the spikes)."""
    sc, dt, clusters = inp['sc'], inp['dtype'], inp['clusters']
    ids = inp.get('ids')
    arr = np.array(sc, dtype=dt)
    label = list(range(len(sc))) if ids is None else list(ids)
    spc = A._spikes_per_cluster(arr) if ids is None else A._spikes_per_cluster(arr, np.array(ids, dtype=np.int64))
    sub = {k: v for k, v in spc.items() if int(k) in set(clusters)}
    if sub:
        got = _ints(A._flatten_per_cluster(sub))
        exp = sorted(label[i] for i, c in enumerate(sc) if c in set(clusters))
        yield 'flatten-of-requested-groups-equals-their-sorted-union', got == exp, (got, exp)
    got_all = _ints(A._flatten_per_cluster(spc))
    yield 'flatten-of-all-groups-is-every-spike-once', got_all == sorted(label), (got_all, label)


def case_grouped_mean(inp):
    sc, dt, vals = inp['sc'], inp['dtype'], inp['vals']
    arr = np.array(vals, dtype=np.float64)
    scl = np.array(sc, dtype=dt)
    out = A.grouped_mean(arr, scl)
    ids = sorted(set(sc))
    out = np.asarray(out)
    yield 'one-row-per-cluster-present', out.shape == (len(ids),) + arr.shape[1:], out.shape
    ok = True
    bad = None
    for r, c in enumerate(ids):
        members = [i for i, x in enumerate(sc) if x == c]
        s = np.zeros(arr.shape[1:])
        for i in members:           # same left-to-right order of summation as an explicit loop
            s = s + arr[i]
        m = s / len(members)
        if out.shape[0] != len(ids) or not np.allclose(out[r], m, rtol=1e-12, atol=1e-12):
            ok, bad = False, (c, np.asarray(out).tolist(), np.asarray(m).tolist())
            break
    yield 'row-i-is-the-mean-over-the-spikes-of-the-i-th-smallest-id', ok, bad
    yield '__nontrivial__', len(sc) > 0, ''


# ------------------------------------------------------------------------------------------------
# model queries
# ------------------------------------------------------------------------------------------------

def _check_model(m, sc, st, nt, cluster_queries, template_queries):
    ok, bad = True, None
    for c in cluster_queries:
        out = m.get_cluster_spikes(c)
        exp = [i for i, x in enumerate(sc) if x == c]
        if not (_is_1d_int_array(out) and _ints(out) == exp):
            ok, bad = False, (c, repr(out), exp)
            break
    yield 'cluster-spikes-are-exactly-the-increasing-spikes-of-that-cluster', ok, bad
    ok, bad = True, None
    for t in template_queries:
        out = m.get_template_spikes(t)
        exp = [i for i, x in enumerate(st) if x == t]
        if not (_is_1d_int_array(out) and _ints(out) == exp):
            ok, bad = False, (t, repr(out), exp)
            break
    yield 'template-spikes-are-exactly-the-increasing-spikes-of-that-template', ok, bad
    ok, bad = True, None
    for c in cluster_queries:
        out = m.get_template_counts(c)
        exp = [sum(1 for i in range(len(sc)) if sc[i] == c and st[i] == t) for t in range(nt)]
        if not (isinstance(out, np.ndarray) and out.ndim == 1 and _ints(out) == exp):
            ok, bad = False, (c, repr(out), exp)
            break
    yield 'template-counts-are-the-histogram-of-the-clusters-spikes-over-all-templates', ok, bad
    # agreement with the grouping helpers themselves ("... agree with them")
    spc = A._spikes_per_cluster(np.array(sc, dtype=np.int32))
    ok = all(_ints(m.get_cluster_spikes(int(k))) == _ints(v) for k, v in spc.items()) and \
        sorted(int(k) for k in spc) == sorted(set(sc))
    yield 'cluster-queries-agree-with-the-grouping-helper', ok, {str(k): _ints(v) for k, v in spc.items()}


def case_model_queries_stub(inp):
    """The three query methods of TemplateModel run on an instance carrying exactly the attributes they read
    (spike_clusters int32 as the loader produces, spike_templates in the loader's accepted dtypes, n_templates)."""
    sc, st, nt = inp['sc'], inp['st'], inp['n_templates']
    m = TemplateModel.__new__(TemplateModel)
    m.spike_clusters = np.array(sc, dtype=np.int32)
    m.spike_templates = np.array(st, dtype=inp['st_dtype'])
    m.n_templates = nt
    m.n_spikes = len(sc)
    # the other id tables the loader derives from the two vectors (so that a query reading them gets what a loaded model would have)
    m.template_ids = np.unique(m.spike_templates)
    m.cluster_ids = np.unique(m.spike_clusters)
    m.n_clusters = max(int(m.spike_clusters.max()) + 1, nt) if len(sc) else nt
    yield from _check_model(m, sc, st, nt, inp['cluster_queries'], inp['template_queries'])


def case_model_queries_loaded(inp):
    """Same, on a TemplateModel loaded from a dataset directory."""
    from concrete.datagen import make_dataset
    with tempdir() as d:
        T = make_dataset(d, **inp['dataset'])
        m = load_model(d + '/params.py')
        try:
            st = [int(x) for x in T['spike_templates']]
            sc = [int(x) for x in T.get('spike_clusters', T['spike_templates'])]
            nt = int(T['templates'].shape[0])
            yield 'loaded-assignments-equal-the-files', _ints(m.spike_clusters) == sc and _ints(m.spike_templates) == st and int(m.n_templates) == nt, (_ints(m.spike_clusters), sc)
            qs = sorted(set(sc) | {max(sc) + 1, max(sc) + 3})
            ts = list(range(nt + 1))
            yield from _check_model(m, sc, st, nt, qs, ts)
        finally:
            m.close()


CASES = {
    'spikes_per_cluster': case_spikes_per_cluster, 'spikes_in_clusters': case_spikes_in_clusters,
    'unique': case_unique, 'index_of': case_index_of, 'flatten': case_flatten,
    'flatten_of_grouping': case_flatten_of_grouping, 'grouped_mean': case_grouped_mean,
    'model_queries_stub': case_model_queries_stub, 'model_queries_loaded': case_model_queries_loaded,
}


# ------------------------------------------------------------------------------------------------
# scope
# ------------------------------------------------------------------------------------------------

def _vectors(alphabet, maxlen):
    for n in range(0, maxlen + 1):
        for v in itertools.product(alphabet, repeat=n):
            yield list(v)


def _subsets(univ):
    for k in range(len(univ) + 1):
        for s in itertools.combinations(univ, k):
            yield list(s)


def _unsorted(l, rng):
    """A deterministic non-sorted arrangement of l (reversed, then seeded shuffle for len >= 3)."""
    l = list(reversed(l))
    if len(l) >= 3:
        rng.shuffle(l)
    return l


def _id_vectors(n, rng):
    """Strictly increasing spike-id vectors of length n: affine, and a seeded gapped one."""
    yield [3 * i + 1 for i in range(n)]
    g, cur = [], -1
    for _ in range(n):
        cur += rng.randint(1, 4)
        g.append(cur)
    yield g


def enumerate_cases(ctx):
    quick = ctx.tier == 'quick'
    rng = ctx.rng
    ALPHA = [0, 2, 5]
    REQ = [0, 1, 2, 5, 7]
    L = 5 if quick else 7
    ctx.scope('_spikes_per_cluster: all assignment vectors of length <= %d over ids {0,2,5} (gaps; single-cluster vectors '
              'included) x dtypes %s x {no spike ids, two strictly increasing spike-id vectors}; plus the same vectors '
              'over {0,3,D} with D the top of the dtype range where representable (65535 for uint16, 2^31-1, 2^32-1, 2^63-1) '
              'up to length 4' % (L, '/'.join(DTYPES)))
    for v in _vectors(ALPHA, L):
        for dt in DTYPES:
            ctx.run('spikes_per_cluster', {'sc': v, 'dtype': dt, 'ids': None})
            if v:
                for ids in _id_vectors(len(v), rng):
                    ctx.run('spikes_per_cluster', {'sc': v, 'dtype': dt, 'ids': ids})
    TOP = {'int32': 2 ** 31 - 1, 'int64': 2 ** 63 - 1, 'uint16': 2 ** 16 - 1, 'uint32': 2 ** 32 - 1}
    for dt in DTYPES:
        for v in _vectors([0, 3, TOP[dt]], 4):
            ctx.run('spikes_per_cluster', {'sc': v, 'dtype': dt, 'ids': None})
            if v:
                ctx.run('spikes_in_clusters', {'sc': v, 'dtype': dt, 'clusters': [TOP[dt], 1]})
                ctx.run('spikes_in_clusters', {'sc': v, 'dtype': dt, 'clusters': [3]})

    L2 = 5 if quick else 6
    ctx.scope('_spikes_in_clusters: all assignment vectors of length <= %d over {0,2,5} x dtypes x every subset of the '
              'requested ids {0,1,2,5,7} (absent ids 1,7; empty request) in a non-sorted order, passed as list; '
              'array-typed requests (int64/uint16) for length <= 3; requests with a repeated id%s' % (L2, ' (quick tier: every third request for length %d)' % L2 if quick else ''))
    reqs = [_unsorted(s, rng) for s in _subsets(REQ)]
    for v in _vectors(ALPHA, L2):
        for dt in DTYPES:
            for cl in (reqs[::3] if quick and len(v) == L2 else reqs):   # quick: a third of the requests for the longest vectors
                ctx.run('spikes_in_clusters', {'sc': v, 'dtype': dt, 'clusters': cl})
            ctx.run('spikes_in_clusters', {'sc': v, 'dtype': dt, 'clusters': [5, 0, 5]})
            if len(v) <= 3:
                for cl in reqs:
                    if cl:
                        for cdt in ('int64', 'uint16'):
                            ctx.run('spikes_in_clusters', {'sc': v, 'dtype': dt, 'clusters': cl, 'clusters_dtype': cdt})

    ctx.scope('_spikes_in_clusters with long, wide-ranged requests (NumPy membership switches algorithm with the size and the '
              'value range of the request): all vectors of length <= 4 over {0,2,5} x dtypes x requests of 12 absent ids up to the '
              'top of the dtype range (capped at 2^31-1) plus each of {}, {0}, {5,2}, {0,2,5}, shuffled')
    for v in _vectors(ALPHA, 4):
        if not v:
            continue
        for dt in DTYPES:
            top = min(TOP[dt], 2 ** 31 - 1)
            absent = [1, 7, 9, 11, 40, 41, 300, 1000, 4000, 65000, top - 1, top]
            for extra in ([], [0], [5, 2], [0, 2, 5]):
                cl = absent + extra
                rng.shuffle(cl)
                ctx.run('spikes_in_clusters', {'sc': v, 'dtype': dt, 'clusters': list(cl)})

    ctx.scope('_unique: all vectors of length <= %d over {0,2,5} x dtypes (arrays), lists, None, plus vectors containing 65535 (uint16 top)' % L)
    ctx.run('unique', {'x': [], 'dtype': 'int64', 'as': 'none'})
    for v in _vectors(ALPHA, L):
        for dt in DTYPES:
            ctx.run('unique', {'x': v, 'dtype': dt})
        if len(v) <= 3:
            ctx.run('unique', {'x': v, 'dtype': 'int64', 'as': 'list'})
    for v in _vectors([0, 7, 65535], 3):
        for dt in DTYPES:
            ctx.run('unique', {'x': v, 'dtype': dt})

    L3 = 4 if quick else 5
    ctx.scope('_index_of: all arrays of length <= %d over {0,2,5} x dtypes x every ordering of every subset of {0,2,5,7} '
              'that contains the array\'s values (unsorted lookups), lookup as list; lookup as int64/uint32 array and '
              '(n,1)-shaped arrays for length <= 2' % L3)
    LK = [0, 2, 5, 7]
    perms = {}
    for s in _subsets(LK):
        perms[tuple(s)] = [list(p) for p in itertools.permutations(s)]
    for v in _vectors(ALPHA, L3):
        need = set(v)
        for s, ps in perms.items():
            if not need <= set(s):
                continue
            for p in ps:
                if quick and len(v) == L3 and len(p) == 4 and p[0] > p[-1]:
                    continue    # quick tier: half of the 4-element orderings for the longest arrays
                for dt in DTYPES:
                    ctx.run('index_of', {'arr': v, 'dtype': dt, 'lookup': p})
                if len(v) <= 2:
                    ctx.run('index_of', {'arr': v, 'dtype': 'int64', 'lookup': p, 'lookup_dtype': 'int64'})
                    ctx.run('index_of', {'arr': v, 'dtype': 'uint32', 'lookup': p, 'lookup_dtype': 'uint32'})
                    ctx.run('index_of', {'arr': v, 'dtype': 'int32', 'lookup': p, 'shape2d': True})
    for dt in DTYPES:
        ctx.run('index_of', {'arr': [65535, 0, 65535, 9], 'dtype': dt, 'lookup': [9, 65535, 0]})

    L4 = 4 if quick else 5
    ctx.scope('_flatten_per_cluster: (a) dicts of 1..3 groups, each any subset of spike ids {0,1,3,4} (overlapping and empty '
              'groups included; 3 groups: total size bounded), dtypes int64/int32/uint32; (b) the real grouping of every vector of length <= %d over {0,2,5} '
              '(with / without spike ids) restricted to every subset of {0,2,5,7}' % L4)
    subs = list(_subsets([0, 1, 3, 4]))
    for k in (1, 2, 3):
        for combo in itertools.product(subs, repeat=k):
            if k == 3 and sum(len(c) for c in combo) > (4 if quick else 6):
                continue
            groups = [[7 - 2 * j, list(reversed(c)) if j == 1 else list(c)] for j, c in enumerate(combo)]
            ctx.run('flatten', {'groups': groups, 'dtype': ('int64', 'int32', 'uint32')[(len(groups) + sum(len(c) for c in combo)) % 3]})
    for v in _vectors(ALPHA, L4):
        if not v:
            continue
        for dt in DTYPES:
            for cl in _subsets([0, 2, 5, 7]):
                ctx.run('flatten_of_grouping', {'sc': v, 'dtype': dt, 'clusters': cl, 'ids': None})
            ctx.run('flatten_of_grouping', {'sc': v, 'dtype': dt, 'clusters': [5, 0], 'ids': [3 * i + 1 for i in range(len(v))]})

    L5 = 5 if quick else 6
    ctx.scope('grouped_mean: all assignment vectors of length <= %d over {0,2,5} x dtypes x two value arrays (1-D integer-valued, '
              '2-D (n,2) with non-representable fractions)' % L5)
    for v in _vectors(ALPHA, L5):
        n = len(v)
        vals1 = [float((7 * i * i + 3 * i) % 11 - 4) for i in range(n)]
        vals2 = [[0.1 * (i + 1), 1.0 / (i + 3)] for i in range(n)]
        for dt in DTYPES:
            ctx.run('grouped_mean', {'sc': v, 'dtype': dt, 'vals': vals1})
            if n:
                ctx.run('grouped_mean', {'sc': v, 'dtype': dt, 'vals': vals2})

    L6 = 4 if quick else 5
    ctx.scope('model queries (real methods on an instance with the attributes they read): all cluster vectors over {0,2,5} '
              'x template vectors over {0,1,3} of equal length 1..%d, template dtypes %s, n_templates in {4,6}; queries for '
              'clusters {0,1,2,5,7} and templates 0..n_templates (absent ones included)' % (L6, '/'.join(DTYPES)))
    k = 0
    for n in range(1, L6 + 1):
        for sc in itertools.product(ALPHA, repeat=n):
            for st in itertools.product([0, 1, 3], repeat=n):
                k += 1
                dt = DTYPES[k % 4]
                nt = (4, 6)[(k // 4) % 2]
                ctx.run('model_queries_stub', {'sc': list(sc), 'st': list(st), 'st_dtype': dt, 'n_templates': nt,
                                               'cluster_queries': REQ, 'template_queries': list(range(nt + 1))})

    ND = 6 if quick else 40
    ctx.scope('model queries on %d loaded dataset directories (datagen): 12-30 spikes, 3-5 templates, id dtypes uint32/int32/'
              'int64/uint16, spike_clusters absent / equal / curated by merging and splitting (ids 0..max), KS and ALF names' % ND)
    for j in range(ND):
        ns = rng.choice([12, 20, 30])
        nt = rng.choice([3, 4, 5])
        r = np.random.RandomState(ctx.seed * 1000 + j)
        st = r.randint(0, nt, size=ns)
        st[:nt] = np.arange(nt)
        if j % 2:
            st[st == (j // 2) % nt] = (j // 2 + 1) % nt      # every other dataset: one template id (any position, also the highest) without spikes
        mode = j % 3
        ds = dict(seed=j, n_spikes=ns, n_templates=nt, spike_templates=[int(x) for x in st],
                  ids_dtype=('uint32', 'int32', 'int64', 'uint16')[j % 4], names=('ks', 'alf')[(j // 3) % 2])
        if mode == 1 or (mode == 0 and ds['names'] == 'alf'):
            # (an ALF-named directory without spikes.clusters.npy does not load at all: loading is C04's
            # subject, not this property's, so that layout is not generated here)
            ds['spike_clusters'] = 'same'
        elif mode == 2:
            sc = st.copy()
            sc[sc == nt - 1] = 0                       # merge top template into 0
            half = np.nonzero(st == 1)[0][::2]
            sc[half] = nt - 1                           # split template 1: every other spike to a recycled id
            sc[r.randint(0, ns)] = nt                   # one spike in a new cluster
            ds['spike_clusters'] = [int(x) for x in sc]
        ctx.run('model_queries_loaded', {'dataset': ds})

    if not quick:
        NR = 300
        ctx.scope('seeded random long vectors (%d): length 50..3000, 1..40 distinct ids drawn from 0..400 with gaps (uint16 also '
                  '65535), all dtypes; grouping with/without ids, selection of a random half of present ids + absent ids, '
                  'unique, index_of with a shuffled lookup, grouped_mean' % NR)
        for j in range(NR):
            r = np.random.RandomState(ctx.seed * 7919 + j)
            n = int(r.randint(50, 3001))
            nid = int(r.randint(1, 41))
            pool = sorted(int(x) for x in r.choice(401, size=nid, replace=False))
            dt = DTYPES[j % 4]
            if dt == 'uint16' and j % 8 == 2:
                pool[-1] = 65535
            v = [pool[int(i)] for i in r.randint(0, nid, size=n)]
            ctx.run('spikes_per_cluster', {'sc': v, 'dtype': dt, 'ids': None})
            ids = np.cumsum(r.randint(1, 4, size=n)).tolist()
            ctx.run('spikes_per_cluster', {'sc': v, 'dtype': dt, 'ids': [int(x) for x in ids]})
            present = sorted(set(v))
            req = [c for c in present if r.rand() < 0.5] + [401, 1000]
            r.shuffle(req)
            ctx.run('spikes_in_clusters', {'sc': v, 'dtype': dt, 'clusters': [int(x) for x in req]})
            ctx.run('unique', {'x': v, 'dtype': dt})
            lk = list(pool)
            r.shuffle(lk)
            ctx.run('index_of', {'arr': v[:200], 'dtype': dt, 'lookup': [int(x) for x in lk]})
            ctx.run('grouped_mean', {'sc': v[:300], 'dtype': dt, 'vals': [float(x) for x in r.normal(size=min(n, 300))]})
            ctx.run('flatten_of_grouping', {'sc': v[:400], 'dtype': dt, 'clusters': [int(x) for x in req], 'ids': None})
