# C01 — raw-data reader indexing equals NumPy indexing of the concatenated recording.
# Bounded stand-in (tier B): the contract of DESIGN 4/C01 evaluated on the REAL readers (real files in a
# temp dir: flat binary with header offset, .npy, in-memory array, mtscomp .cbin) over an exhaustively
# enumerated small scope.  Oracle: the in-memory array A the files were cut from, indexed by NumPy.
#
# Input encoding (JSON only):
#   layout = {'backend': 'flat'|'npy'|'array'|'cbin', 'parts': [len, ...] (each >= 1), 'nch': int,
#             'dtype': numpy dtype string, 'offset': header bytes (flat), 'sr': sample rate,
#             'ext': flat extension, 'path': 'path'|'str', 'single': pass the bare path instead of a
#             1-element list, 'chunk': cbin chunk length in samples, 'via': 'path'|'reader' (cbin)}
#   rows   = {'k':'int','v':i} | {'k':'npint','v':i,'t':'int64'} | {'k':'slice','a':..,'b':..,'s':None|1}
#            | {'k':'list','v':[..]} | {'k':'array','v':[..],'t':'int64'}
#   cols   = None | {'k':'slice','a','b','s'} | {'k':'list','v':[..]} | {'k':'array','v':[..]}
import os, json, atexit, shutil, tempfile, itertools
from pathlib import Path
import numpy as np
from concrete.common import compositions

from phylib.io import traces as T

CONTRACTED = ['phylib/io/traces.py::_get_subitems', 'phylib/io/traces.py::_find_chunks',
              'phylib/io/traces.py::_get_part_bounds', 'phylib/io/traces.py::_memmap_flat',
              'phylib/io/traces.py::BaseEphysReader.__getitem__', 'phylib/io/traces.py::BaseEphysReader.n_samples',
              'phylib/io/traces.py::BaseEphysReader.shape', 'phylib/io/traces.py::BaseEphysReader.duration',
              'phylib/io/traces.py::FlatEphysReader.__init__', 'phylib/io/traces.py::FlatEphysReader._get_part',
              'phylib/io/traces.py::MtscompEphysReader.__init__', 'phylib/io/traces.py::MtscompEphysReader._get_part',
              'phylib/io/traces.py::ArrayEphysReader.__init__', 'phylib/io/traces.py::ArrayEphysReader._get_part',
              'phylib/io/traces.py::NpyEphysReader.__init__', 'phylib/io/traces.py::_get_ephys_constructor',
              'phylib/io/traces.py::get_ephys_reader']


# ----------------------------------------------------------------------------------------------------------------
# building the recording (oracle array A) and the real reader on real files
# ----------------------------------------------------------------------------------------------------------------

def make_array(n, nch, dtype):
    """Every cell distinct, so that any row/column mix-up changes the values."""
    dt = np.dtype(dtype)
    a = (np.arange(n * nch, dtype=np.int64) + 1).reshape((n, nch))
    if dt.kind == 'f':
        return (a + 0.5).astype(dt)
    if dt.kind == 'i':   # signed: alternate signs
        a = a * np.where((np.arange(n)[:, None] + np.arange(nch)[None, :]) % 2 == 0, 1, -1)
    return a.astype(dt)


def _cls(o):
    return isinstance(o, T.BaseEphysReader)


class _Built:
    """One recording: oracle array A + the real reader on the files written from A."""

    def __init__(self, layout):
        self.dir = tempfile.mkdtemp(prefix='pvc_c01_')
        self._mts = None
        try:
            self._init(layout)
        except BaseException:
            # a constructor of the code under test raised: do not leak the temp dir of the half-built recording
            self.close()
            raise

    def _init(self, layout):
        self.layout = layout
        parts, nch, dtype = list(layout['parts']), layout['nch'], layout['dtype']
        assert parts and all(p >= 1 for p in parts) and nch >= 1
        self.sr = float(layout.get('sr', 2.5))
        raw = make_array(sum(parts), nch, dtype)          # what is written to the files, part by part
        bnd = np.cumsum([0] + parts)
        # the oracle, literally from the statement: "the single array obtained by concatenating the files in order"
        self.A = np.concatenate([raw[bnd[i]:bnd[i + 1]] for i in range(len(parts))], axis=0)
        backend = layout['backend']
        A = raw
        conv = (lambda p: str(p)) if layout.get('path', 'path') == 'str' else (lambda p: Path(p))
        if backend == 'array':
            assert len(parts) == 1
            self.src = A.copy()
            self._make = lambda: T.get_ephys_reader(self.src, sample_rate=self.sr)
        elif backend == 'npy':
            assert len(parts) == 1
            p = os.path.join(self.dir, 'rec.npy')
            np.save(p, A)
            arg = conv(p) if layout.get('single', True) else [conv(p)]
            self._make = lambda: T.get_ephys_reader(arg, sample_rate=self.sr)
        elif backend == 'flat':
            off = int(layout.get('offset', 0))
            ext = layout.get('ext', '.bin')
            paths, k = [], 0
            for i, s in enumerate(parts):
                p = os.path.join(self.dir, 'rec%d%s' % (i, ext))
                with open(p, 'wb') as f:
                    f.write(bytes((0xA5 ^ (37 * j + 11 * i)) & 0xFF for j in range(off)))   # header, never zero-filled
                    f.write(A[k:k + s].tobytes())
                k += s
                paths.append(conv(p))
            arg = paths[0] if (len(paths) == 1 and layout.get('single', False)) else paths
            self._make = lambda: T.get_ephys_reader(arg, sample_rate=self.sr, dtype=np.dtype(dtype), n_channels=nch, offset=off)
        elif backend == 'cbin':
            import mtscomp
            assert len(parts) == 1
            p = os.path.join(self.dir, 'rec.bin')
            A.tofile(p)
            cb, ch = os.path.join(self.dir, 'rec.cbin'), os.path.join(self.dir, 'rec.ch')
            # sample_rate 1 Hz: chunk_duration == chunk length in samples
            mtscomp.compress(p, cb, ch, sample_rate=1.0, n_channels=nch, dtype=np.dtype(dtype),
                             chunk_duration=float(layout.get('chunk', 2)), n_threads=1,
                             check_after_compress=False, quiet=True)
            self.sr = 1.0
            if layout.get('via', 'path') == 'reader':
                self._mts = mtscomp.Reader(n_threads=1)
                self._mts.open(cb, ch)
                self._make = lambda: T.get_ephys_reader(self._mts)
            else:
                self._make = None
                self.reader = T.get_ephys_reader(conv(cb))
                self._mts = getattr(self.reader, 'reader', None)
        else:
            raise AssertionError(backend)
        if self._make is not None:
            self.reader = self._make()

    def fresh(self):
        """A new reader object on the same files (C02: derivation cases must not share state across cases)."""
        return self._make() if self._make is not None else self.reader

    def close(self):
        try:
            if self._mts is not None:
                self._mts.close()
        except Exception:
            pass
        self.reader = None
        shutil.rmtree(self.dir, ignore_errors=True)


_CACHE = {}


def build(layout):
    """Reader + oracle for a layout; the last layout is kept (the enumeration visits one layout at a time)."""
    key = json.dumps(layout, sort_keys=True)
    b = _CACHE.get(key)
    if b is None:
        for k in list(_CACHE):
            _CACHE.pop(k).close()
        b = _Built(layout)
        _CACHE[key] = b
    return b


@atexit.register
def _cleanup():
    for k in list(_CACHE):
        _CACHE.pop(k).close()


def dec_rows(r):
    k = r['k']
    if k == 'int':
        return int(r['v'])
    if k == 'npint':
        return np.dtype(r.get('t', 'int64')).type(r['v'])
    if k == 'slice':
        return slice(r['a'], r['b'], r.get('s'))
    if k == 'list':
        return [int(x) for x in r['v']]
    if k == 'array':
        return np.array(r['v'], dtype=r.get('t', 'int64'))
    raise AssertionError(k)


def dec_cols(c):
    if c is None:
        return None
    if c['k'] == 'slice':
        return slice(c['a'], c['b'], c.get('s'))
    if c['k'] == 'list':
        return [int(x) for x in c['v']]
    if c['k'] == 'array':
        return np.array(c['v'], dtype=c.get('t', 'int64'))
    raise AssertionError(c)


def np_rows(A, r):
    """What NumPy returns on the concatenated array; an integer selects one row, returned two-dimensional."""
    if r['k'] in ('int', 'npint'):
        return A[int(r['v'])][np.newaxis, :]
    if r['k'] == 'slice':
        return A[slice(r['a'], r['b'], r.get('s'))]
    return A[np.array(r['v'], dtype=np.int64)]


def admitted(n, r, backend):
    """Precondition of C01 (quantifier text + DESIGN Appendix G)."""
    k = r['k']
    if k in ('int', 'npint'):
        return -n <= r['v'] < n
    if k == 'slice':
        a, b, s = r['a'], r['b'], r.get('s')
        ok = all(x is None or -n <= x <= n for x in (a, b)) and s in (None, 1)
        return ok and len(range(*slice(a, b, s).indices(n))) >= 1
    v = r['v']
    return (backend != 'cbin' and len(v) >= 1 and all(0 <= x < n for x in v)
            and all(v[i] < v[i + 1] for i in range(len(v) - 1)))


def same(x, y):
    return x.shape == y.shape and np.array_equal(x, y, equal_nan=True)


# ----------------------------------------------------------------------------------------------------------------
# cases
# ----------------------------------------------------------------------------------------------------------------

def case_index(inp):
    b = build(inp['layout'])
    A, reader = b.A, b.reader
    rows, cols = inp['rows'], inp.get('cols')
    assert admitted(A.shape[0], rows, inp['layout']['backend']), 'input outside the quantifier of C01'
    exp = np_rows(A, rows)
    item = dec_rows(rows)
    if cols is not None:
        exp = exp[:, dec_cols(cols)]
        out = reader[item, dec_cols(cols)]
    else:
        out = reader[item]
    if _cls(out):
        # reader[:, cols]: whole-recording channel selection is itself a (lazy) reader (C02); its content is read here.
        yield 'lazy-result-only-for-whole-recording-channel-selection', rows == {'k': 'slice', 'a': None, 'b': None, 's': None} and cols is not None, type(out).__name__
        out = out[:]
    out = np.asarray(out)
    yield 'returns-rows-and-columns-numpy-returns-on-concatenation', same(out, exp), (out.tolist(), exp.tolist())
    yield 'same-shape-as-numpy', out.shape == exp.shape, (out.shape, exp.shape)
    yield 'same-dtype-as-concatenated-array', out.dtype == A.dtype, (str(out.dtype), str(A.dtype))
    if rows['k'] in ('int', 'npint'):
        yield 'integer-selects-one-row-two-dimensional', out.ndim == 2 and out.shape[0] == 1, out.shape


def case_attributes(inp):
    b = build(inp['layout'])
    A, r = b.A, b.reader
    n, nch = A.shape
    yield 'shape-of-concatenated-array', tuple(int(x) for x in r.shape) == (n, nch), r.shape
    yield 'n_samples-of-concatenated-array', int(r.n_samples) == n and r.n_samples == n, r.n_samples
    yield 'n_channels-of-concatenated-array', r.n_channels == nch, r.n_channels
    # np.concatenate returns native byte order; a reader of big-endian files may name the stored order (same type)
    yield 'dtype-of-concatenated-array', r.dtype is not None and np.dtype(r.dtype).newbyteorder('=') == A.dtype.newbyteorder('='), str(r.dtype)
    yield 'duration-is-n_samples-over-sample_rate', r.duration == n / b.sr, (r.duration, n / b.sr)


CASES = {'index': case_index, 'attributes': case_attributes}


# defects of the unchanged tree (DESIGN section 6, row 1): recognised from the INPUT only
KNOWN_CLASSES = {
    # `item[0] == slice(None, None, None)` is evaluated for truth on an ndarray of >= 2 row indices -> ValueError
    'ndarray-rows-of-2-or-more-with-column-selector':
        lambda case, clause, inp: (case == 'index' and clause == 'no-unexpected-exception' and inp['rows']['k'] == 'array'
                                   and len(inp['rows']['v']) >= 2 and inp.get('cols') is not None),
}


# ----------------------------------------------------------------------------------------------------------------
# enumeration
# ----------------------------------------------------------------------------------------------------------------

def all_rows(n, backend, maxlist, both_steps, npint=False):
    out = []
    for i in range(-n, n):
        out.append({'k': 'int', 'v': i})
        if npint:
            out.append({'k': 'npint', 'v': i, 't': 'int64' if i % 2 == 0 else 'int32'})
    bounds = [None] + list(range(-n, n + 1))
    for a in bounds:
        for b in bounds:
            for s in ((None, 1) if both_steps else ((1,) if ((a or 0) + (b or 0)) % 3 == 1 else (None,))):
                r = {'k': 'slice', 'a': a, 'b': b, 's': s}
                if admitted(n, r, backend):
                    out.append(r)
    if backend != 'cbin':
        for L in range(1, min(n, maxlist) + 1):
            for v in itertools.combinations(range(n), L):
                out.append({'k': 'list', 'v': list(v)})
                out.append({'k': 'array', 'v': list(v), 't': 'int64'})
    return out


def all_cols(nch, with_arrays=False):
    """none, slice, reversed slice, index list, permutation (quantifier of C01)."""
    perm = list(range(nch - 1, -1, -1)) if nch < 3 else [nch - 1, 0] + list(range(1, nch - 1))[::-1]
    sel = [None,
           {'k': 'slice', 'a': 1 if nch > 1 else 0, 'b': None, 's': None},
           {'k': 'slice', 'a': None, 'b': None, 's': -1},
           {'k': 'list', 'v': sorted({0, nch - 1})},
           {'k': 'list', 'v': perm}]
    if with_arrays:
        sel += [{'k': 'array', 'v': perm}, {'k': 'slice', 'a': -1, 'b': None, 's': None},
                {'k': 'slice', 'a': nch - 1, 'b': None if nch == 1 else 0, 's': -1}]
    return sel


def layouts(tier):
    quick = tier == 'quick'
    N = 6
    out = []
    flat_cfg_quick = [('int16', 0, 3), ('float32', 3, 2), ('float64', 8, 1), ('uint8', 5, 3)]
    flat_cfg_thorough = [(dt, off, nch) for i, dt in enumerate(('int16', 'float32', 'float64')) for j, off in enumerate((0, 3, 8))
                         for nch in ((1, 3) if dt == 'int16' else ((3,) if (i + j) % 2 else (1,)))] + \
        [('uint8', 5, 2), ('int32', 1, 2), ('>i2', 2, 3), ('uint16', 0, 4), ('int64', 16, 1), ('<f8', 7, 2)]
    for n in range(1, N + 1):
        comps = list(compositions(n, 3))
        for ci, parts in enumerate(comps):
            cfgs = flat_cfg_quick if quick else flat_cfg_thorough
            if quick:
                # every composition with two of the four configurations (rotating), all four for n <= 3
                cfgs = cfgs if n <= 3 else [cfgs[ci % 4], cfgs[(ci + 1 + n) % 4]]
            for j, (dt, off, nch) in enumerate(cfgs):
                out.append({'backend': 'flat', 'parts': list(parts), 'nch': nch, 'dtype': dt, 'offset': off,
                            'sr': 2.5 if (ci + j) % 2 == 0 else 0.005, 'ext': ('.bin', '.dat', '.raw', '.mda')[(ci + j) % 4],
                            'path': 'str' if (ci + j) % 3 == 0 else 'path', 'single': (ci + j) % 2 == 1})
        for j, dt in enumerate(('int16', 'float32') if quick else ('int16', 'float32', 'float64', 'uint8', 'int32')):
            for nch in ((3,) if quick else (1, 3)):
                out.append({'backend': 'array', 'parts': [n], 'nch': nch, 'dtype': dt, 'sr': 2.5 if n % 2 else 0.005})
                out.append({'backend': 'npy', 'parts': [n], 'nch': nch, 'dtype': dt, 'sr': 0.005 if n % 2 else 2.5,
                            'path': 'str' if (n + j) % 2 else 'path', 'single': (n + j + nch) % 3 != 0})
        for j, dt in enumerate(('int16',) if quick else ('int16', 'float32', 'uint8')):
            for chunk in ((1, 2, 7) if quick else (1, 2, 3, 4, 7)):
                if chunk > n and chunk != 7:
                    continue
                out.append({'backend': 'cbin', 'parts': [n], 'nch': 3 if (j + chunk) % 2 else 2, 'dtype': dt, 'chunk': chunk,
                            'via': 'reader' if (n + chunk + j) % 2 else 'path', 'path': 'str' if chunk % 2 else 'path'})
    return out


def enumerate_cases(ctx):
    quick = ctx.tier == 'quick'
    N = 6
    ctx.scope('layouts: every composition of n <= %d into <= 3 parts (flat: header offsets/dtypes/channel counts %s; '
              'extensions .bin/.dat/.raw/.mda, str and Path, bare path and list), single-file npy / in-memory array / '
              'cbin (chunk lengths 1..4 and > n, opened by path and as mtscomp.Reader); attributes checked on each'
              % (N, 'rotated pairwise in quick' if quick else '{int16,float32,float64} x {0,3,8} (int16: 1 and 3 channels, others alternating) + uint8/int32/>i2/uint16/int64/<f8'))
    ctx.scope('index expressions per layout (exhaustive): every int in [-n,n)%s; every slice with start/stop in [-n,n] or None, '
              'step None or 1 (both on int16 layouts in thorough, else one of the two by rotation), selecting >= 1 row; every strictly increasing index list AND int64 array of length <= %s '
              '(not on cbin); x column selectors {none, slice, reversed slice, increasing list, permutation%s}'
              % ('' if quick else ' (also numpy integer scalars on int16 layouts)', '3 (multi-file flat: n, those longer than 3 with two selectors)' if quick else 'n', '' if quick else ', ndarray permutation; on int16 layouts also negative-bound slices'))
    for li, lay in enumerate(layouts(ctx.tier)):
        n, nch, backend = sum(lay['parts']), lay['nch'], lay['backend']
        ctx.run('attributes', {'layout': lay})
        rich = (not quick) and lay['dtype'] == 'int16'     # thorough: the int16 layouts get every variant
        multi = backend == 'flat' and len(lay['parts']) >= 2
        rows = all_rows(n, backend, 6 if (multi or not quick) else 3, both_steps=rich, npint=rich)
        cols = all_cols(nch, with_arrays=not quick)
        if not quick and not rich:
            cols = cols[:6]
        for ri, r in enumerate(rows):
            long_list = r['k'] in ('list', 'array') and len(r['v']) > 3
            if quick and (not multi or long_list):
                # quick, single-part layouts and long index lists: no selector + one rotating selector
                cs = [None, cols[1 + (ri + li) % (len(cols) - 1)]]
            else:
                cs = cols
            for c in cs:
                ctx.run('index', {'layout': lay, 'rows': r, 'cols': c})
    if not quick:
        rng = np.random.RandomState(ctx.seed)
        ctx.scope('thorough: 7 <= n <= 8 into <= 4 parts (flat int16, offset 3, 2 channels), rows exhaustive (lists <= 3), selectors {none, permutation}')
        for n in (7, 8):
            for parts in compositions(n, 4):
                lay = {'backend': 'flat', 'parts': list(parts), 'nch': 2, 'dtype': 'int16', 'offset': 3, 'sr': 2.5}
                ctx.run('attributes', {'layout': lay})
                for r in all_rows(n, 'flat', 3, both_steps=False):
                    for c in (None, {'k': 'list', 'v': [1, 0]}):
                        ctx.run('index', {'layout': lay, 'rows': r, 'cols': c})
        ctx.scope('thorough: 60 seeded random larger layouts (n <= 60, <= 6 parts, <= 5 channels, random dtype/offset/backend) x 150 random admitted index expressions')
        dts = ['int16', 'float32', 'float64', 'uint8', 'int32', 'uint16']
        for t in range(60):
            backend = ['flat', 'flat', 'flat', 'npy', 'array', 'cbin'][t % 6]
            k = int(rng.randint(1, 7)) if backend == 'flat' else 1
            parts = [int(x) for x in rng.randint(1, 11, size=k)]
            n, nch = sum(parts), int(rng.randint(1, 6))
            lay = {'backend': backend, 'parts': parts, 'nch': nch, 'dtype': dts[int(rng.randint(len(dts)))]}
            if backend == 'flat':
                lay.update(offset=int(rng.randint(0, 40)), sr=2.5, ext='.dat')
            elif backend == 'cbin':
                lay.update(chunk=int(rng.randint(1, 6)), via='reader' if t % 4 < 2 else 'path')
            else:
                lay.update(sr=0.005)
            ctx.run('attributes', {'layout': lay})
            bnd = [0] + list(np.cumsum(parts))
            for q in range(150):
                kind = q % 3 if backend != 'cbin' else q % 2
                if kind == 0:
                    r = {'k': 'int', 'v': int(rng.randint(-n, n))}
                elif kind == 1:
                    # bias towards file boundaries
                    def pick():
                        u = rng.randint(4)
                        if u == 0:
                            return None
                        x = int(bnd[rng.randint(len(bnd))] + rng.randint(-1, 2)) if u == 1 else int(rng.randint(-n, n + 1))
                        x = max(-n, min(n, x))
                        return x - n if (u == 3 and x > 0) else x
                    r = {'k': 'slice', 'a': pick(), 'b': pick(), 's': None if q % 2 else 1}
                    if not admitted(n, r, backend):
                        continue
                else:
                    m = int(rng.randint(1, min(n, 8) + 1))
                    v = sorted(int(x) for x in rng.choice(n, size=m, replace=False))
                    r = {'k': 'list' if q % 2 else 'array', 'v': v}
                    if r['k'] == 'array':
                        r['t'] = ['int64', 'int32', 'uint8'][(q // 2) % 3]
                cu = rng.randint(4)
                if cu == 0:
                    c = None
                elif cu == 1:
                    c = {'k': 'list', 'v': [int(x) for x in rng.permutation(nch)]}
                elif cu == 2:
                    c = {'k': 'slice', 'a': None, 'b': None, 's': -1}
                else:
                    m = int(rng.randint(1, nch + 1))
                    c = {'k': 'list', 'v': sorted(int(x) for x in rng.choice(nch, size=m, replace=False))}
                ctx.run('index', {'layout': lay, 'rows': r, 'cols': c})
