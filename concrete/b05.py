# C05 — template records are aligned with their channel list (dense and sparse storage).
# Bounded stand-in (tier B): the contracts of DESIGN 4/C05 evaluated on the real functions over an
# exhaustive small scope (+ seeded random larger inputs in the thorough tier).
#
# Readings adopted (DESIGN 2.13 / Appendix G): tied maxima -> "peak channel first" means the first listed
# channel ATTAINS the peak amplitude and best_channel is a listed channel attaining it; ties in the distance
# to the peak channel at the neighbourhood cut-off may be broken either way; with an explicit caller's list the
# order is the caller's (only column / amplitude alignment is claimed); channel positions pairwise distinct;
# no NaN; explicit lists are non-empty arrays of distinct channels; stored (non -1) channels of a sparse row
# are distinct; "signal-free" = max |column| <= 1e-6 * max |template| (only exactly-zero columns are generated).
import itertools, os
import numpy as np
from concrete.common import tempdir
from concrete import datagen

from phylib.io import model as M
from phylib.utils import Bunch

CONTRACTED = ['phylib/io/model.py::TemplateModel._find_best_channels', 'phylib/io/model.py::get_closest_channels',
              'phylib/io/model.py::TemplateModel._get_template_dense',
              'phylib/io/model.py::TemplateModel._get_template_sparse', 'phylib/io/model.py::TemplateModel._unwhiten',
              'phylib/io/model.py::TemplateModel.get_template', 'phylib/io/model.py::TemplateModel.get_template_channels',
              'phylib/io/model.py::TemplateModel.get_template_waveforms',
              'phylib/io/model.py::TemplateModel.get_cluster_channels',
              'phylib/io/model.py::TemplateModel._get_template_from_spikes']


# ------------------------------------------------------------------------------------------------
# Oracle (never calls phylib)
# ------------------------------------------------------------------------------------------------

def _ptp(U):
    U = np.asarray(U)
    return [float(max(U[:, j]) - min(U[:, j])) for j in range(U.shape[1])]


def _unwhiten_o(tw, wmi, scale, ch=None):
    """Row-vector convention: unwhitened[t, a] = scale * sum_b whitened[t, b] * wmi[ch_b, ch_a]; float32 result."""
    tw = np.asarray(tw, dtype=np.float64)
    ns, k = tw.shape
    ch = list(range(k)) if ch is None else [int(c) for c in ch]
    out = np.zeros((ns, k))
    for t in range(ns):
        for a in range(k):
            out[t, a] = scale * sum(tw[t, b] * float(wmi[ch[b]][ch[a]]) for b in range(k))
    return out.astype(np.float32)


def _close(a, b, tol):
    a = np.asarray(a, dtype=np.float64)
    b = np.asarray(b, dtype=np.float64)
    return a.shape == b.shape and bool(np.all(np.abs(a - b) <= tol))


def _neigh(pos, best, ncl):
    """Nearest-channel structure around `best`: (must, may, kfree). Any valid neighbourhood is must + a subset of
    `may` (channels exactly at the cut-off distance) of size kfree."""
    nc = len(pos)
    d = [(pos[c][0] - pos[best][0]) ** 2 + (pos[c][1] - pos[best][1]) ** 2 for c in range(nc)]
    k = min(ncl, nc) if ncl else nc
    cutoff = sorted(d)[k - 1]
    must = [c for c in range(nc) if d[c] < cutoff]
    may = [c for c in range(nc) if d[c] == cutoff]
    return must, may, k - len(must)


def _cond(c, amp, shanks, thr, best, tol):
    """True / False / None (borderline: either answer accepted)."""
    if shanks is not None and shanks[c] != shanks[best]:
        return False
    x = amp[c] - thr * amp[best]
    if abs(x) <= tol and tol > 0:
        return None
    return x >= 0


def _member_ok(listed, amp, pos, shanks, ncl, thr, best, tol):
    must, may, kfree = _neigh(pos, best, ncl)
    L = set(listed)
    cm = {c: _cond(c, amp, shanks, thr, best, tol) for c in must + may}
    if any(c not in cm or cm[c] is False for c in L):
        return False
    if any(cm[c] is True and c not in L for c in must):
        return False
    lm = [c for c in may if c in L]
    spare = [c for c in may if c not in L and cm[c] is not True]
    return 0 <= kfree - len(lm) <= len(spare)


def _possible_lists(amp, pos, shanks, ncl, thr):
    """All sorted member sets the statement allows (peak ties x distance ties); exact arithmetic inputs only."""
    mx = max(amp)
    out = []
    for best in [c for c in range(len(amp)) if amp[c] == mx]:
        must, may, kfree = _neigh(pos, best, ncl)
        for T in itertools.combinations(may, kfree):
            S = sorted(c for c in must + list(T) if _cond(c, amp, shanks, thr, best, 0))
            if S not in out:
                out.append(S)
    return out


def _check_auto(chs, amp, pos, shanks, ncl, thr, best, tol):
    """Clauses on an automatically chosen channel list; amp = oracle amplitude of every channel."""
    mx = max(amp)
    yield 'listed-channels-distinct', len(set(chs)) == len(chs), chs
    yield ('listed-in-order-of-decreasing-amplitude',
           all(amp[chs[j]] >= amp[chs[j + 1]] - tol for j in range(len(chs) - 1)), (chs, amp))
    ok_best = 0 <= best < len(amp) and amp[best] >= mx - tol
    yield ('peak-channel-first', len(chs) > 0 and amp[chs[0]] >= mx - tol and ok_best and best in chs,
           (chs, best, amp))
    if ok_best:
        yield ('listed-are-nearest-on-peak-shank-reaching-threshold',
               _member_ok(chs, amp, pos, shanks, ncl, thr, best, tol), (chs, best, amp))


# ------------------------------------------------------------------------------------------------
# Building the real object
# ------------------------------------------------------------------------------------------------

def _model(inp):
    m = M.TemplateModel.__new__(M.TemplateModel)
    pos = inp['pos']
    nc = len(pos)
    m.n_channels = nc
    m.channel_positions = np.array(pos, dtype=np.float64)
    m.channel_shanks = np.array(inp.get('shanks') or [0] * nc, dtype=np.int32)
    m.n_closest_channels = inp['ncl']
    m.amplitude_threshold = inp.get('attr_thr', 0)
    wmi = inp.get('wmi')
    m.wmi = np.array(wmi, dtype=np.float64) if wmi is not None else np.eye(nc)
    if inp.get('scale') is not None:
        m.template_scaling = inp['scale']
    if 'data' in inp:
        data = np.array(inp['data'], dtype=inp.get('dtype', 'float32'))
        cols = np.array(inp['cols'], dtype=inp.get('cols_dtype', 'int32')) if inp.get('cols') is not None else None
        m.sparse_templates = Bunch(data=data, cols=cols)
        m.n_templates = data.shape[0]
        m.template_ids = np.arange(data.shape[0])
    if 'st' in inp:
        m.spike_templates = np.array(inp['st'], dtype=np.int32)
        m.spike_clusters = np.array(inp['sc'], dtype=np.int32)
    return m


def _geom(inp):
    nc = len(inp['pos'])
    return inp['pos'], (inp.get('shanks') or [0] * nc), inp['ncl']


def _eff_thr(inp):
    return inp['thr'] if inp.get('thr') is not None else inp.get('attr_thr', 0)


def _wmi(inp):
    return inp['wmi'] if inp.get('wmi') is not None else np.eye(len(inp['pos'])).tolist()


def _scale(inp):
    return inp['scale'] if inp.get('scale') is not None else 1.0


def _U_dense(inp, tid):
    tw = np.array(inp['data'], dtype=inp.get('dtype', 'float32'))[tid]
    return _unwhiten_o(tw, _wmi(inp), _scale(inp)) if inp.get('unwhiten', True) else tw


def _sparse_o(inp, tid):
    """(kept channel ids in stored order, oracle template on them)."""
    tw = np.array(inp['data'], dtype=inp.get('dtype', 'float32'))[tid]
    stored = [int(c) for c in inp['cols'][tid]]
    mx = float(np.max(np.abs(tw))) if tw.size else 0.0
    kept = [k for k in range(len(stored)) if stored[k] != -1 and float(np.max(np.abs(tw[:, k]))) > 1e-6 * mx]
    ch = [stored[k] for k in kept]
    sub = tw[:, kept]
    U = _unwhiten_o(sub, _wmi(inp), _scale(inp), ch) if inp.get('unwhiten', True) else sub.astype(np.float32)
    return ch, U


# ------------------------------------------------------------------------------------------------
# Cases
# ------------------------------------------------------------------------------------------------

def case_find_best_channels(inp):
    m = _model(inp)
    tpl = np.array(inp['tpl'], dtype=np.float64)
    pos, shanks, ncl = _geom(inp)
    tol = inp.get('tol', 0)
    chs, amplitude, best = m._find_best_channels(tpl, amplitude_threshold=inp.get('thr'))
    chs = [int(c) for c in chs]
    amp = _ptp(tpl)
    yield from _check_auto(chs, amp, pos, shanks, ncl, _eff_thr(inp), int(best), tol)
    yield ('amplitude-j-is-ptp-of-channel-j', _close(amplitude, [amp[c] for c in chs], tol),
           (chs, np.asarray(amplitude).tolist(), amp))


def _check_dense_record(rec, inp, tid, explicit):
    pos, shanks, ncl = _geom(inp)
    tol = inp.get('tol', 0)
    U = _U_dense(inp, tid)
    amp = _ptp(U)
    chs = [int(c) for c in rec.channel_ids]
    T = np.asarray(rec.template)
    ok_idx = all(0 <= c < U.shape[1] for c in chs)
    yield ('column-j-is-template-on-channel-j',
           ok_idx and T.shape == (U.shape[0], len(chs)) and all(_close(T[:, j], U[:, chs[j]], tol) for j in range(len(chs))),
           (chs, T.tolist()))
    yield ('amplitude-j-is-ptp-of-column-j',
           T.ndim == 2 and _close(rec.amplitude, _ptp(T) if T.shape[1] else [], 2 * tol),
           (chs, np.asarray(rec.amplitude).tolist(), _ptp(T) if T.ndim == 2 and T.shape[1] else []))
    if not ok_idx:
        return
    best = int(rec.best_channel)
    if explicit is not None:
        yield 'explicit-list-returned-as-given', chs == list(explicit), chs
        yield 'best-channel-attains-peak-amplitude', 0 <= best < len(amp) and amp[best] >= max(amp) - tol, (best, amp)
    else:
        yield from _check_auto(chs, amp, pos, shanks, ncl, _eff_thr(inp), best, tol)


def case_template_dense(inp):
    m = _model(inp)
    tid = inp['tid']
    explicit = inp.get('explicit')
    kw = {}
    if explicit is not None:
        kw['channel_ids'] = np.array(explicit, dtype=np.int64)
    if inp.get('thr') is not None:
        kw['amplitude_threshold'] = inp['thr']
    if 'unwhiten' in inp:
        kw['unwhiten'] = inp['unwhiten']
    rec = m.get_template(tid, **kw)
    yield from _check_dense_record(rec, inp, tid, explicit)


def _check_sparse_record(rec, inp, tid):
    tol = inp.get('tol', 0)
    ch, U = _sparse_o(inp, tid)
    amp = dict(zip(ch, _ptp(U)))
    col = {c: i for i, c in enumerate(ch)}
    chs = [int(c) for c in rec.channel_ids]
    T = np.asarray(rec.template)
    yield ('listed-are-stored-minus-unused-minus-signal-free',
           sorted(chs) == sorted(ch) and len(set(chs)) == len(chs), (chs, ch))
    known = all(c in col for c in chs)
    yield ('column-j-is-template-on-channel-j',
           known and T.shape == (U.shape[0], len(chs)) and all(_close(T[:, j], U[:, col[chs[j]]], tol) for j in range(len(chs))),
           (chs, T.tolist()))
    yield ('amplitude-j-is-ptp-of-column-j',
           T.ndim == 2 and _close(rec.amplitude, _ptp(T) if T.shape[1] else [], 2 * tol),
           (chs, np.asarray(rec.amplitude).tolist(), _ptp(T) if T.ndim == 2 and T.shape[1] else []))
    if not known or not chs:
        return
    mx = max(amp.values())
    yield ('listed-in-order-of-decreasing-amplitude',
           all(amp[chs[j]] >= amp[chs[j + 1]] - tol for j in range(len(chs) - 1)), (chs, amp))
    best = int(rec.best_channel)
    yield ('peak-channel-first', amp[chs[0]] >= mx - tol and best in amp and amp[best] >= mx - tol, (chs, best, amp))


def case_template_sparse(inp):
    m = _model(inp)
    tid = inp['tid']
    kw = {}
    if 'unwhiten' in inp:
        kw['unwhiten'] = inp['unwhiten']
    rec = m.get_template(tid, **kw)
    yield from _check_sparse_record(rec, inp, tid)


def _valid_auto_list(chs, inp, tid):
    """Is chs an acceptable automatic channel list of template tid (dense or sparse store)?"""
    tol = inp.get('tol', 0)
    if inp.get('cols') is None:
        pos, shanks, ncl = _geom(inp)
        amp = _ptp(_U_dense(dict(inp, unwhiten=True), tid))
        if not all(0 <= c < len(amp) for c in chs) or not chs:
            return False
        # the peak channel is not observable through this accessor: any channel attaining the peak may be it
        for best in [c for c in range(len(amp)) if amp[c] >= max(amp) - tol]:
            if all(ok for _, ok, _ in _check_auto(chs, amp, pos, shanks, ncl, _eff_thr(inp), best, tol)):
                return True
        return False
    ch, U = _sparse_o(dict(inp, unwhiten=True), tid)
    amp = dict(zip(ch, _ptp(U)))
    return (sorted(chs) == sorted(ch) and len(set(chs)) == len(chs) and bool(chs) and
            all(amp[chs[j]] >= amp[chs[j + 1]] - tol for j in range(len(chs) - 1)))


def case_accessors(inp):
    """get_template_channels / get_template_waveforms / get_cluster_channels agree with the record clauses."""
    m = _model(inp)
    tol = inp.get('tol', 0)
    nt = len(inp['data'])
    for tid in range(nt):
        chs = [int(c) for c in m.get_template_channels(tid)]
        yield 'template-channels-are-a-valid-list[t=%d]' % tid, _valid_auto_list(chs, inp, tid), chs
        W = np.asarray(m.get_template_waveforms(tid))
        if inp.get('cols') is None:
            U = _U_dense(dict(inp, unwhiten=True), tid)
            ok = all(0 <= c < U.shape[1] for c in chs) and W.shape == (U.shape[0], len(chs)) and \
                all(_close(W[:, j], U[:, chs[j]], tol) for j in range(len(chs)))
        else:
            ch, U = _sparse_o(dict(inp, unwhiten=True), tid)
            col = {c: i for i, c in enumerate(ch)}
            ok = all(c in col for c in chs) and W.shape == (U.shape[0], len(chs)) and \
                all(_close(W[:, j], U[:, col[chs[j]]], tol) for j in range(len(chs)))
        yield 'template-waveforms-column-j-is-template-on-channel-j[t=%d]' % tid, ok, (chs, W.tolist())
    st, sc = inp['st'], inp['sc']
    for c in sorted(set(sc)):
        counts = {}
        for s in range(len(st)):
            if sc[s] == c:
                counts[st[s]] = counts.get(st[s], 0) + 1
        top = [t for t in counts if counts[t] == max(counts.values())]
        chs = [int(x) for x in m.get_cluster_channels(c)]
        yield ('cluster-channels-are-those-of-its-main-template[c=%d]' % c,
               any(_valid_auto_list(chs, inp, t) for t in top), (chs, top))


def _loaded_inputs(kw):
    """Regenerate the dataset of a loaded_model input and express it as an in-memory input (oracle side)."""
    with tempdir() as d:
        T = datagen.make_dataset(d, **kw)
    nc = kw.get('n_channels', datagen.DEFAULT['n_channels'])
    inp = {'pos': T['channel_positions'].tolist(),
           'shanks': T['channel_shanks'].tolist() if 'channel_shanks' in T else None,
           'ncl': 12, 'attr_thr': 0,
           'data': T['templates'].tolist(), 'dtype': str(T['templates'].dtype),
           'cols': T['template_ind'].tolist() if 'template_ind' in T else None,
           'wmi': np.linalg.inv(T['whitening_mat']).tolist() if 'whitening_mat' in T else np.eye(nc).tolist(),
           'tol': 1e-4}
    return inp


def case_loaded_model(inp):
    """The same record clauses on a model loaded from a dataset directory (class defaults: 12 nearest channels,
    threshold 0 unless passed)."""
    kw = inp['dataset']
    tid = inp['tid']
    with tempdir() as d:
        datagen.make_dataset(d, **kw)
        m = M.load_model(os.path.join(d, 'params.py'))
        try:
            call = {}
            if inp.get('thr') is not None:
                call['amplitude_threshold'] = inp['thr']
            if 'unwhiten' in inp:
                call['unwhiten'] = inp['unwhiten']
            rec = m.get_template(tid, **call)
            rec = Bunch(template=np.array(rec.template), amplitude=np.array(rec.amplitude),
                        best_channel=int(rec.best_channel), channel_ids=np.array(rec.channel_ids))
        finally:
            m.close()
    o = _loaded_inputs(kw)
    o['thr'] = inp.get('thr')
    if 'unwhiten' in inp:
        o['unwhiten'] = inp['unwhiten']
    if o['cols'] is None:
        yield from _check_dense_record(rec, o, tid, None)
    else:
        yield from _check_sparse_record(rec, o, tid)


CASES = {'find_best_channels': case_find_best_channels, 'template_dense': case_template_dense,
         'template_sparse': case_template_sparse, 'accessors': case_accessors, 'loaded_model': case_loaded_model}


# ------------------------------------------------------------------------------------------------
# Known classes (DESIGN section 6 rows 5-7), decided from the input only
# ------------------------------------------------------------------------------------------------

def _desc_orders(vals, cap=200):
    """All index orders sorting vals non-increasingly (ties in any order)."""
    groups = {}
    for i, v in enumerate(vals):
        groups.setdefault(v, []).append(i)
    parts = [list(itertools.permutations(groups[v])) for v in sorted(groups, reverse=True)]
    out = []
    for combo in itertools.product(*parts):
        out.append([i for g in combo for i in g])
        if len(out) >= cap:
            break
    return out


def _dense_view(case, inp):
    """(amp of every channel, geometry, thr, explicit) of a dense-store input, or None."""
    if case == 'find_best_channels':
        return _ptp(np.array(inp['tpl'], dtype=np.float64)), inp, None
    if case == 'template_dense':
        return _ptp(_U_dense(inp, inp['tid'])), inp, inp.get('explicit')
    if case == 'loaded_model':
        o = _loaded_inputs(inp['dataset'])
        if o['cols'] is not None:
            return None
        o['thr'] = inp.get('thr')
        if 'unwhiten' in inp:
            o['unwhiten'] = inp['unwhiten']
        return _ptp(_U_dense(o, inp['tid'])), o, None
    return None


def known_amplitude_indexed_by_sort_order(case, clause, inp):
    """_find_best_channels returns amplitude[order] (order = positions inside the kept list) instead of
    amplitude[channel_ids]: wrong iff for the sorted member set S some i < len(S) has amp[i] != amp[S[i]]."""
    if clause not in ('amplitude-j-is-ptp-of-channel-j', 'amplitude-j-is-ptp-of-column-j'):
        return False
    v = _dense_view(case, inp)
    if v is None or v[2] is not None:
        return False
    amp, g, _ = v
    pos, shanks, ncl = _geom(g)
    return any(any(amp[i] != amp[S[i]] for i in range(len(S))) for S in _possible_lists(amp, pos, shanks, ncl, _eff_thr(g)))


def known_explicit_list_gets_automatic_amplitude(case, clause, inp):
    """With a caller's channel list the amplitude vector is still the one of the AUTOMATIC list (today additionally
    mis-indexed, see the class above): wrong unless it happens to coincide with the caller's channels' amplitudes.
    Both forms (amp[order] today, amp[S[order]] once the indexing is repaired) are recognised, so that repairing the
    indexing alone does not turn the remaining failures into unknown ones."""
    if case != 'template_dense' or clause != 'amplitude-j-is-ptp-of-column-j' or inp.get('explicit') is None:
        return False
    amp, g, explicit = _dense_view(case, inp)
    pos, shanks, ncl = _geom(g)
    want = [amp[c] for c in explicit]
    for S in _possible_lists(amp, pos, shanks, ncl, _eff_thr(g)):
        for order in _desc_orders([amp[c] for c in S]):
            if [amp[i] for i in order] != want or [amp[S[i]] for i in order] != want:
                return True
    return False


def known_sparse_amplitude_not_reordered(case, clause, inp):
    """_get_template_sparse reorders columns and channel ids by decreasing amplitude but returns the amplitude
    vector in stored order: wrong iff the kept channels' amplitudes are not already non-increasing."""
    if clause != 'amplitude-j-is-ptp-of-column-j':
        return False
    if case == 'template_sparse':
        o = inp
    elif case == 'loaded_model':
        o = _loaded_inputs(inp['dataset'])
        if o['cols'] is None:
            return False
        if 'unwhiten' in inp:
            o['unwhiten'] = inp['unwhiten']
    else:
        return False
    a = _ptp(_sparse_o(o, inp['tid'])[1])
    return any(a[j] < a[j + 1] for j in range(len(a) - 1))


def known_sparse_no_channel_with_signal(case, clause, inp):
    """Every stored column of the template is unused (-1) or signal-free: np.argmax of an empty vector raises."""
    if case != 'template_sparse' or clause != 'no-unexpected-exception':
        return False
    return len(_sparse_o(inp, inp['tid'])[0]) == 0


KNOWN_CLASSES = {
    'amplitude_indexed_by_sort_order_instead_of_channel': known_amplitude_indexed_by_sort_order,
    'explicit_channel_list_gets_automatic_amplitude': known_explicit_list_gets_automatic_amplitude,
    'sparse_amplitude_not_reordered': known_sparse_amplitude_not_reordered,
    'sparse_no_channel_with_signal': known_sparse_no_channel_with_signal,
}


# ------------------------------------------------------------------------------------------------
# Scope
# ------------------------------------------------------------------------------------------------

# positions: tie-free line, the same line with permuted channel numbering, a line with distance ties, a 2-D layout
POS = {
    1: [[[0, 0]]],
    2: [[[0, 0], [0, 1]], [[3, 1], [0, 0]]],
    3: [[[0, 0], [0, 1], [0, 3]], [[0, 3], [0, 0], [0, 1]], [[0, 0], [0, 1], [0, 2]], [[0, 0], [4, 0], [1, 2]]],
    4: [[[0, 0], [0, 1], [0, 3], [0, 7]], [[0, 7], [0, 0], [0, 3], [0, 1]], [[0, 0], [0, 1], [0, 2], [0, 3]],
        [[0, 0], [5, 0], [0, 7], [5, 9]]],
}
SHANKS = {1: [[0]], 2: [[0, 0], [0, 1]], 3: [[0, 0, 0], [0, 1, 0], [1, 1, 0]],
          4: [[0, 0, 0, 0], [0, 1, 0, 1], [0, 0, 1, 1]]}
# inverse whitening matrices with dyadic entries (exact in float32), deliberately non-symmetric
WMI = {
    3: [None, [[1, 0.5, 0], [0, 1, -0.5], [2, 0, 1]], [[0.5, 0, 1], [1, 0.5, 0], [0, -1, 2]]],
    4: [None, [[1, 0.5, 0, 0], [0, 1, -0.5, 0], [2, 0, 1, 0.5], [0, 0, 0, 1]]],
    6: [None, [[1, 0.5, 0, 0, 0, 2], [0, 1, -0.5, 0, 0, 0], [2, 0, 1, 0.5, 0, 0], [0, 0, 0, 1, 0.5, 0],
               [0, -1, 0, 0, 2, 0], [0.5, 0, 0, 0, 0, 1]]],
}


def _templates(nc, rows):
    """All 2-sample templates whose row r takes values in rows[r]."""
    for r0 in itertools.product(rows[0], repeat=nc):
        for r1 in itertools.product(rows[1], repeat=nc):
            yield [list(r0), list(r1)]


def _sublists(nc):
    for k in range(1, nc + 1):
        for p in itertools.permutations(range(nc), k):
            yield list(p)


def enumerate_cases(ctx):
    quick = ctx.tier == 'quick'
    rs = np.random.RandomState(ctx.seed)

    # ---- _find_best_channels ------------------------------------------------------------------
    full = [(-1, 0, 1, 2), (-1, 0, 1, 2)]
    red = [(-1, 0, 2), (-1, 0, 2)]
    tiny = [(0, -1), (0, 2)]
    mid = [(0, -1), (0, 1, 2)]
    alph = {1: [full], 2: [red] if quick else [full], 3: [mid] if quick else [red, full], 4: [tiny] if quick else [mid]}
    ctx.scope('_find_best_channels: all 2-sample templates on 1..4 channels over value alphabets %s x positions '
              '(tie-free line, renumbered line, line with distance ties, 2-D) x shank maps (1-2 shanks) x '
              'n_closest_channels in {1,2,3,5} (below/above the channel count) x threshold in {attr 0, 0, .5, 1, attr .5} '
              '(exhaustive; the widest alphabet of a channel count on a sixth of the configurations; quick tier: n_closest in {1,2,5} for >= 3 channels, three quarters of the geometry x n_closest combinations)' % ({k: v for k, v in alph.items()},))
    for nc in (1, 2, 3, 4):
        for pi, pos in enumerate(POS[nc]):
            for si, sh in enumerate(SHANKS[nc]):
                if nc == 4 and (pi + si) % 2:
                    continue
                for ncl in (1, 2, 3, 5):
                    if (ncl > nc + 1 and ncl != 5) or (quick and nc >= 3 and (ncl == 3 or (pi + si + ncl) % 4 == 3)):
                        continue
                    for thr, attr in ((None, 0), (0.5, 0), (1, 0), (None, 0.5), (0, 0.5)):
                        if quick and nc >= 3 and (thr, attr) == (0, 0.5):
                            continue
                        for ai, al in enumerate(alph[nc]):
                            if ai and (pi + si + ncl) % 6:   # the widest alphabet on a sixth of the configurations
                                continue
                            for tpl in _templates(nc, al):
                                if ai and not any(v == 1 for r in tpl for v in r):
                                    continue   # already enumerated with the narrower alphabet
                                ctx.run('find_best_channels', {'tpl': tpl, 'pos': pos, 'shanks': sh, 'ncl': ncl,
                                                               'thr': thr, 'attr_thr': attr})

    # ---- dense get_template -------------------------------------------------------------------
    ctx.scope('get_template, dense store: 2 templates x 2 samples x 3 channels (quick: rows over {0,-1} x {0,1,2}; '
              'thorough: {-1,0,2}^2, plus 4 channels over {0,-1}x{0,2}), float32/float64, whitening absent / 2 dyadic '
              'non-symmetric inverse matrices / template_scaling 2, whitened and unwhitened requests, thresholds '
              '{default, .5, 1}, geometries as above with n_closest in {2,5}; explicit lists = all non-empty ordered '
              'lists of distinct channels')
    decoy = {3: [[2, -1, 0], [0, 1, -1]], 4: [[2, -1, 0, 1], [0, 1, -1, 2]]}
    for nc in ((3,) if quick else (3, 4)):
        rows = tiny if nc == 4 else ([(0, -1), (0, 1, 2)] if quick else red)
        wl = WMI[nc]
        variants = [dict(unwhiten=False, wmi=wl[1], scale=2.0), dict(), dict(wmi=wl[1]),
                    dict(wmi=wl[1], scale=2.0, dtype='float64')]
        if len(wl) > 2:
            variants.append(dict(wmi=wl[2], unwhiten=True))
        geoms = [(POS[nc][0], SHANKS[nc][0], 2), (POS[nc][1], SHANKS[nc][1], 2), (POS[nc][3], SHANKS[nc][2], 5),
                 (POS[nc][2], SHANKS[nc][0], 2)]
        for tpl in _templates(nc, rows):
            for gi, (pos, sh, ncl) in enumerate(geoms):
                for vi, var in enumerate(variants):
                    for thr in (None, 0.5, 1):
                        if quick and (gi + vi + (0 if thr is None else int(thr * 2))) % 2:
                            continue
                        for tid, data in ((1, [decoy[nc], tpl]), (0, [tpl, decoy[nc]])):
                            if quick and tid == 0 and gi:
                                continue
                            inp = dict(var, pos=pos, shanks=sh, ncl=ncl, thr=thr, data=data, tid=tid)
                            ctx.run('template_dense', inp)
    for nc in ((3,) if quick else (3, 4)):
        rows = [(0, -1), (0, 2)] if quick or nc == 4 else [(0, -1), (0, 1, 2)]
        wl = WMI[nc]
        for tpl in _templates(nc, rows):
            for ex in _sublists(nc):
                for vi, var in enumerate([dict(unwhiten=False, wmi=wl[1]), dict(wmi=wl[1]), dict(wmi=wl[1], scale=2.0)]):
                    if (quick or nc == 4) and (len(ex) + vi) % 3:
                        continue
                    ctx.run('template_dense', dict(var, pos=POS[nc][0], shanks=SHANKS[nc][1], ncl=2, thr=0.5,
                                                   data=[decoy[nc], tpl], tid=1, explicit=ex))

    # ---- sparse get_template ------------------------------------------------------------------
    colrows = [[3, 1, 4], [4, -1, 0], [-1, -1, 2], [0, 1, 2], [2, 0, -1], [-1, -1, -1], [5, 3, -1], [1, 5, 0]]
    if not quick:
        colrows += [list(p) for p in itertools.permutations([-1, 0, 2, 5], 3)]
    ctx.scope('get_template, sparse store: 2 templates x 2 samples x 3 stored columns (values: quick {0,-1}x{0,1,2}, '
              'thorough {-1,0,2}^2, incl. all-zero columns and all-zero templates), column rows over {-1,0..5} incl. '
              'repeated -1 (%d rows), 6 channels, whitening absent / dyadic non-symmetric / scaling 2, whitened and '
              'unwhitened requests (against a non-identity matrix), int32/int64/uint32 tables; plus one column scaled '
              'by 2^-10 (small but not signal-free)' % len(colrows))
    rows = [(0, -1), (0, 1, 2)] if quick else red
    sv = [dict(unwhiten=False, wmi=WMI[6][1], scale=2.0), dict(), dict(wmi=WMI[6][1]),
          dict(wmi=WMI[6][1], scale=2.0, dtype='float64', cols_dtype='int64')]
    pos6 = [[0, i * i] for i in range(6)]
    for ci, cr in enumerate(colrows):
        for tpl in _templates(3, rows):
            for vi, var in enumerate(sv):
                if quick and (ci + vi) % 2:
                    continue
                other = colrows[(ci + 1) % len(colrows)]
                for tid, data, cols in ((1, [decoy[3], tpl], [other, cr]), (0, [tpl, decoy[3]], [cr, other])):
                    if tid == 0 and (quick or vi != 2):
                        continue
                    inp = dict(var, pos=pos6, ncl=3, data=data, cols=cols, tid=tid)
                    if min(min(c) for c in cols) >= 0 and vi == 2:
                        inp['cols_dtype'] = 'uint32'
                    ctx.run('template_sparse', inp)

    # a column 1000x smaller than the template's maximum still carries signal and must stay listed
    for ci, cr in enumerate(colrows[:5]):
        for tpl in _templates(3, tiny):
            for j in range(3):
                small = [[v * (2.0 ** -10 if k == j else 1.0) for k, v in enumerate(r)] for r in tpl]
                for var in (dict(unwhiten=False, wmi=WMI[6][1]), dict(wmi=WMI[6][1])):
                    ctx.run('template_sparse', dict(var, pos=pos6, ncl=3, data=[decoy[3], small],
                                                    cols=[colrows[ci + 1], cr], tid=1))

    # ---- accessors ------------------------------------------------------------------------------
    ctx.scope('get_template_channels / get_template_waveforms / get_cluster_channels: 3 templates (dense on 4 channels, '
              'sparse with 3 columns), 4 spikes, all template assignments x %s cluster assignments' % ('4' if quick else 'all 2-cluster'))
    d3 = [[[0, 2, 0, 1], [0, -1, 0, 0]], [[1, 0, 0, 2], [0, 0, -1, 0]], [[0, 0, 2, 0], [-1, 0, 0, 1]]]
    s3 = [[[0, 2, 1], [0, -1, 0]], [[1, 0, 2], [0, 0, 0]], [[0, 0, 2], [-1, 0, -1]]]
    c3 = [[3, 1, 4], [4, -1, 0], [-1, 5, 2]]
    scs = [[0, 0, 0, 0], [0, 1, 0, 1], [2, 2, 0, 2], [0, 1, 1, 1]] if quick else \
        [list(p) for p in itertools.product((0, 2), repeat=4)]
    for st in itertools.product(range(3), repeat=4):
        for sc in scs:
            for k, store in enumerate((dict(data=d3, pos=POS[4][1], shanks=SHANKS[4][1], ncl=3, attr_thr=0.5, wmi=WMI[4][1]),
                                       dict(data=s3, cols=c3, pos=pos6, ncl=3, wmi=WMI[6][1]))):
                if quick and (sum(st) + k) % 2:
                    continue
                ctx.run('accessors', dict(store, st=list(st), sc=list(sc)))

    # ---- model loaded from disk ---------------------------------------------------------------
    ctx.scope('load_model on generated dataset directories: 3 / 14 channels (below / above the 12-channel '
              'neighbourhood), 1-2 shanks, dense / sparse templates, whitening file present / absent, every '
              'template, thresholds {default, .5}, whitened and unwhitened requests; float32 random values, tol 1e-4')
    for nc in (3, 14):
        for shanks in (False, True):
            for sparse in (False, True):
                for whit in (True, False):
                    for seed in ((0,) if quick else (0, 1, 2)):
                        if quick and sparse and not whit:
                            continue
                        kw = dict(seed=seed + ctx.seed, n_channels=nc, shanks=shanks, sparse_templates=sparse,
                                  whitening=whit, n_templates=3, nsw=4)
                        for tid in range(3):
                            for extra in ((dict(),) if quick else (dict(), dict(thr=0.5), dict(unwhiten=False))):
                                if sparse and 'thr' in extra:
                                    continue
                                ctx.run('loaded_model', dict(extra, dataset=kw, tid=tid))

    # ---- seeded random larger inputs (thorough) -------------------------------------------------
    if not quick:
        ctx.scope('seeded random: 600 dense + 400 sparse templates, 3-6 samples x 5-18 channels, random 2-D integer '
                  'positions (distinct), 1-3 shanks, n_closest_channels in {4, 12}, thresholds {0,.25,.5,1}, random '
                  'dyadic templates (k/8) and inverse whitening matrices (k/4): exact arithmetic')
        for i in range(600):
            nc = int(rs.randint(5, 19))
            ns = int(rs.randint(3, 7))
            cells = rs.permutation(nc * 3)[:nc]
            pos = [[int(c % 3) * 16, int(c // 3) * 20 + int(c % 3) * 3] for c in cells]
            sh = rs.randint(0, int(rs.randint(1, 4)), size=nc).tolist()
            tpl = (rs.randint(-16, 17, size=(2, ns, nc)) / 8.0)
            tpl[:, :, rs.randint(0, nc)] *= 2
            wmi = (np.eye(nc) + (rs.randint(-2, 3, size=(nc, nc)) / 4.0) * (rs.uniform(size=(nc, nc)) < 0.2)).tolist()
            inp = dict(pos=pos, shanks=sh, ncl=int(rs.choice([4, 12])), thr=[None, 0.25, 0.5, 1][i % 4],
                       data=tpl.tolist(), tid=i % 2)
            if i % 3:
                inp['wmi'] = wmi
            if i % 5 == 0:
                inp['unwhiten'] = False
            ctx.run('template_dense', inp)
            if i % 6 == 0:
                k = int(rs.randint(1, 5))
                ctx.run('template_dense', dict(inp, explicit=rs.permutation(nc)[:k].tolist()))
            ctx.run('find_best_channels', dict(pos=pos, shanks=sh, ncl=inp['ncl'], thr=inp['thr'], tpl=tpl[0].tolist()))
        for i in range(400):
            nc = int(rs.randint(6, 19))
            ns = int(rs.randint(3, 7))
            ncol = int(rs.randint(2, min(nc, 8) + 1))
            cols = []
            for t in range(2):
                r = rs.permutation(nc)[:ncol]
                r[rs.uniform(size=ncol) < 0.2] = -1
                cols.append([int(x) for x in r])
            tpl = (rs.randint(-16, 17, size=(2, ns, ncol)) / 8.0)
            tpl[:, :, rs.uniform(size=ncol) < 0.15] = 0
            wmi = (np.eye(nc) + (rs.randint(-2, 3, size=(nc, nc)) / 4.0) * (rs.uniform(size=(nc, nc)) < 0.2)).tolist()
            inp = dict(pos=[[0, j * j] for j in range(nc)], ncl=12, data=tpl.tolist(), cols=cols, tid=i % 2)
            if i % 3:
                inp['wmi'] = wmi
            if i % 5 == 0:
                inp['unwhiten'] = False
            ctx.run('template_sparse', inp)
