# C18 — JSON, TSV/CSV and parameter-file serialisation round-trips values and types.
# Bounded stand-in (tier B): the contracts of DESIGN 4/C18 evaluated on the real save/load pairs over an
# exhaustively enumerated small scope (plus seeded random larger inputs).  Oracles are plain Python/NumPy
# written from the property statement and never call phylib.
#
# Inputs are JSON-able *specs* (no numpy objects, no int dict keys) that `build()` turns into the real values:
#   value spec  ['none'] | ['bool', b] | ['int', i] | ['float', repr] | ['str', s] | ['list', [spec...]]
#               | ['dict', [[str_key, spec]...]] | ['np', dtype, repr] (NumPy scalar)
#               | ['nd', dtype, shape, layout, fill] (ndarray; layout in LAYOUTS, fill 0 = ramp, 1 = extremes)
#   top-level key spec ['i', int] | ['s', str] | ['n', dtype, int] (NumPy integer: an integer key, expected back as the equal Python int)
# Readings adopted (DESIGN 2.13 / Appendix G): nested dictionaries have string keys (only TOP-LEVEL integer keys
# are promised to stay integers); NaN is equal to NaN; NumPy scalars come back as the equal Python scalar
# (`x.item()`); table string cells are non-empty, single-line and not accepted by int()/float(); "written
# precision" of a float cell is the requested number of digits (decimal places, as the code writes, or
# significant figures, as the parameter is named: either is accepted); parameter files have lower-case identifier
# keys and plain values (finite numbers, booleans, lists, strings without quotes/backslashes/newlines).
import itertools, math, os, csv, keyword
import numpy as np
from concrete.common import tempdir

from phylib.utils import _misc as M

CONTRACTED = ['phylib/utils/_misc.py::save_json', 'phylib/utils/_misc.py::load_json',
              'phylib/utils/_misc.py::_CustomEncoder.default', 'phylib/utils/_misc.py::_json_custom_hook',
              'phylib/utils/_misc.py::_intify_keys', 'phylib/utils/_misc.py::_stringify_keys',
              'phylib/utils/_misc.py::write_tsv', 'phylib/utils/_misc.py::read_tsv',
              'phylib/utils/_misc.py::_pretty_floats', 'phylib/utils/_misc.py::_try_make_number',
              'phylib/utils/_misc.py::_write_tsv_simple', 'phylib/utils/_misc.py::_read_tsv_simple',
              'phylib/utils/_misc.py::write_python', 'phylib/utils/_misc.py::read_python']

LAYOUTS = ('C', 'F', 'strided', 'rev', 'view', 'bcast')
# dtypes whose items have no JSON number (tolist()/item() give complex or np.longdouble)
NO_JSON_NUMBER = ('complex64', 'complex128', 'clongdouble', 'longdouble', 'float128', 'complex256')
REAL_DTYPES = ['bool', 'int8', 'int16', 'int32', 'int64', 'uint8', 'uint16', 'uint32', 'uint64',
               'float16', 'float32', 'float64']
SWAPPED = ['>i2', '>u4', '>f8', '>f4', '>c8']
ALL_DTYPES = REAL_DTYPES + ['longdouble', 'complex64', 'complex128'] + SWAPPED


# ---------------------------------------------------------------------------------------------------------
# building real values from specs
# ---------------------------------------------------------------------------------------------------------
def _pattern(dt, n, fill):
    """n values of dtype dt: fill 0 = a ramp around zero, fill 1 = a cycle through the extremes of the dtype."""
    nat = dt.newbyteorder('=')
    k = np.arange(n)
    if nat.kind == 'b':
        v = (k + fill) % 3 == 0
    elif nat.kind in 'iu':
        info = np.iinfo(nat)
        if fill == 0:
            v = k % 100 if nat.kind == 'u' else (k % 100) - min(n // 2, 50)
        else:
            cyc = [info.max, info.min, 0, 1, info.max - 1, info.min + 1, (-1 if nat.kind == 'i' else 2), 77]
            v = np.array([cyc[i % len(cyc)] for i in range(n)], dtype=nat)
    elif nat.kind == 'f':
        if fill == 0:
            v = k * 0.5 - 1.25
        else:
            fi = np.finfo(nat)
            cyc = [np.nan, np.inf, -np.inf, -0.0, fi.tiny, fi.max, fi.min, 0.1, 1.0 / 3, fi.eps, 1e-5, -2.5]
            v = np.array([cyc[i % len(cyc)] for i in range(n)], dtype=nat)
    else:  # complex
        if fill == 0:
            v = (k * 0.5 - 1.25) + 1j * (k - 2)
        else:
            cyc = [complex(np.nan, 1), complex(np.inf, -np.inf), complex(-0.0, 0.1), 1j, complex(1.0 / 3, 2.5), 0]
            v = np.array([cyc[i % len(cyc)] for i in range(n)], dtype=nat)
    return np.asarray(v).astype(nat)


def make_array(dtype, shape, layout, fill):
    dt = np.dtype(dtype)
    shape = tuple(int(s) for s in shape)
    n = int(np.prod(shape, dtype=np.int64)) if shape else 1
    nd = len(shape)
    if layout == 'bcast' and nd >= 1:
        row = _pattern(dt, shape[-1], fill).astype(dt)
        return np.broadcast_to(row, shape)
    vals = _pattern(dt, n, fill).astype(dt)
    if layout == 'F':
        a = vals.reshape(shape).copy(order='F')
    elif layout == 'strided' and nd >= 1:
        big = np.full(tuple(2 * s + 1 for s in shape), 99 if dt.kind != 'b' else True, dtype=dt)
        a = big[tuple(slice(1, 2 * s + 1, 2) for s in shape)]
        a[...] = vals.reshape(shape)
    elif layout == 'rev' and nd >= 1:
        a = vals.reshape(shape).copy()[(slice(None, None, -1),) * nd]
    elif layout == 'view':
        big = np.concatenate([_pattern(dt, 3, 1), vals, _pattern(dt, 2, 0)]).astype(dt)
        a = big[3:3 + n].reshape(shape)
    else:
        a = vals.reshape(shape).copy(order='C')
    assert a.shape == shape and a.dtype == dt, (a.shape, a.dtype, shape, dt)
    return a


def build(spec):
    t = spec[0]
    if t == 'none':
        return None
    if t == 'bool':
        return bool(spec[1])
    if t == 'int':
        return int(spec[1])
    if t == 'float':
        return float(spec[1])
    if t == 'str':
        return str(spec[1])
    if t == 'list':
        return [build(s) for s in spec[1]]
    if t == 'dict':
        return {str(k): build(s) for k, s in spec[1]}
    if t == 'np':
        ty = np.dtype(spec[1]).type
        r = spec[2]
        if np.dtype(spec[1]).kind == 'b':
            return ty(r == 'True')
        if np.dtype(spec[1]).kind in 'iu':
            return ty(int(r))
        if np.dtype(spec[1]).kind == 'c':
            return ty(complex(r))
        return ty(float(r))
    if t == 'nd':
        return make_array(spec[1], spec[2], spec[3], spec[4])
    raise AssertionError('bad spec %r' % (spec,))


def walk(spec):
    """All value specs inside a value spec."""
    yield spec
    if spec[0] == 'list':
        for s in spec[1]:
            yield from walk(s)
    elif spec[0] == 'dict':
        for _, s in spec[1]:
            yield from walk(s)


def routed_as_plain_json(spec):
    """Spec of a value the statement sends through the plain-number path: NumPy scalar, or 1-D array <= 10 items."""
    if spec[0] == 'np':
        return True
    return spec[0] == 'nd' and len(spec[2]) == 1 and spec[2][0] <= 10


# ---------------------------------------------------------------------------------------------------------
# oracle: equality with dtype / shape / type checks
# ---------------------------------------------------------------------------------------------------------
def scalar_same(exp, out):
    """Python scalars / None / str: same type and equal value (NaN equals NaN)."""
    if type(exp) is not type(out):
        return False
    if isinstance(exp, float) and math.isnan(exp):
        return math.isnan(out)
    if isinstance(exp, complex) and (exp != exp):
        return repr(exp) == repr(out)
    return exp == out


def plain_same(exp, out):
    if isinstance(exp, list):
        return type(out) is list and len(out) == len(exp) and all(plain_same(e, o) for e, o in zip(exp, out))
    if isinstance(exp, dict):
        return type(out) is dict and set(out) == set(exp) and all(type(k) is str for k in out) and \
            all(plain_same(exp[k], out[k]) for k in exp)
    return scalar_same(exp, out)


def compare(orig, out, path, errs):
    """Walk the saved value; append (aspect, path, message) for every difference of the loaded value."""
    if isinstance(orig, np.ndarray):
        if orig.ndim == 1 and orig.shape[0] <= 10:
            exp = [x.item() if isinstance(x, np.generic) else x for x in orig]
            if not plain_same(exp, out):
                errs.append(('short-list', path, 'expected list %r got %r' % (exp, out)))
            return
        if not isinstance(out, np.ndarray):
            errs.append(('array', path, 'expected ndarray got %s' % type(out).__name__))
            return
        if out.dtype != orig.dtype:
            errs.append(('dtype', path, '%s -> %s' % (orig.dtype, out.dtype)))
        if tuple(out.shape) != tuple(orig.shape):
            errs.append(('shape', path, '%s -> %s' % (orig.shape, out.shape)))
        else:
            a, b = np.asarray(orig), np.asarray(out)
            with np.errstate(all='ignore'):
                if a.dtype.kind in 'fc' and b.dtype.kind in 'fc':
                    same = bool(np.all((a == b) | ((a != a) & (b != b))))
                else:
                    same = bool(np.all(a == b))
            if not same:
                errs.append(('values', path, '%r -> %r' % (a.tolist(), b.tolist())))
    elif isinstance(orig, np.generic):
        if not scalar_same(orig.item(), out):
            errs.append(('numpy-scalar', path, 'expected %r got %r' % (orig.item(), out)))
    elif isinstance(orig, list):
        if type(out) is not list or len(out) != len(orig):
            errs.append(('plain', path, 'expected list of %d got %r' % (len(orig), out)))
            return
        for i, (o, x) in enumerate(zip(orig, out)):
            compare(o, x, path + [i], errs)
    elif isinstance(orig, dict):
        if type(out) is not dict or set(out) != set(orig) or not all(type(k) is str for k in out):
            errs.append(('plain', path, 'expected dict with keys %r got %r' % (sorted(orig), out)))
            return
        for k in orig:
            compare(orig[k], out[k], path + [k], errs)
    else:
        if not scalar_same(orig, out):
            errs.append(('plain', path, 'expected %r got %r' % (orig, out)))


def build_key(k):
    if k[0] == 'i':
        return int(k[1])
    if k[0] == 'n':
        return np.dtype(k[1]).type(int(k[2]))
    return str(k[1])


def key_forms(k):
    """Written form and decoded form of a key spec; two keys of one dictionary must differ in both (else the file cannot hold both)."""
    w = str(k[2]) if k[0] == 'n' else str(k[1])
    try:
        return w, (int(w) if w.isdigit() else w)
    except ValueError:
        return w, w


def distinct_keys(ks):
    forms = [key_forms(k) for k in ks]
    return len({f[0] for f in forms}) == len(ks) and len({repr(f[1]) for f in forms}) == len(ks)


def find_key(d, k):
    """The key of d that is equal to k AND of the same type (True/1/'1' are different keys here)."""
    for kk in d:
        if type(kk) is type(k) and kk == k:
            return True
    return False


# ---------------------------------------------------------------------------------------------------------
# case: save_json / load_json
# ---------------------------------------------------------------------------------------------------------
JSON_ASPECTS = [('array', 'arrays-come-back-as-arrays'), ('dtype', 'arrays-keep-dtype'), ('shape', 'arrays-keep-shape'),
                ('values', 'arrays-keep-values'), ('short-list', '1d-arrays-of-at-most-ten-items-come-back-as-equal-lists'),
                ('numpy-scalar', 'numpy-scalars-come-back-as-equal-scalars'),
                ('plain', 'scalars-strings-lists-none-nested-dicts-preserved')]
KEY_CLAUSES = ('integer-top-level-keys-stay-integers', 'string-top-level-keys-stay-strings', 'no-additional-keys')


def case_json(inp):
    entries = [(build_key(k), build(v)) for k, v in inp['entries']]
    d = dict(entries)
    assert len(d) == len(entries)
    d_py = {(int(k) if isinstance(k, np.integer) else k): v for k, v in d.items()}   # what "equal contents" means for NumPy integer keys
    with tempdir() as tmp:
        path = os.path.join(tmp, *inp.get('sub', []), 'state.json')
        if inp.get('pre'):  # a longer file already at the path: the loaded contents are still those just saved
            with open(path, 'w') as f:
                f.write('{"old": [' + ', '.join(['0'] * 400) + ']}')
        M.save_json(path, d)
        out = M.load_json(path)
        yield 'load-returns-a-dict', type(out) is dict, type(out).__name__
        if type(out) is not dict:
            return
        ints = [k for k in d_py if type(k) is int]
        strs = [k for k in d_py if type(k) is str]
        yield KEY_CLAUSES[0], all(find_key(out, k) for k in ints), (ints, repr(list(out)))
        yield KEY_CLAUSES[1], all(find_key(out, k) for k in strs), (strs, repr(list(out)))
        yield KEY_CLAUSES[2], all(find_key(d_py, k) for k in out) and len(out) <= len(d), repr(list(out))
        errs = []
        for k, v in d_py.items():
            if find_key(out, k):
                compare(v, out[k], [k], errs)
        for aspect, clause in JSON_ASPECTS:
            mine = [e for e in errs if e[0] == aspect]
            yield clause, not mine, mine[:3]
    yield '__nontrivial__', len(d) > 0, ''


# ---------------------------------------------------------------------------------------------------------
# case: write_tsv / read_tsv
# ---------------------------------------------------------------------------------------------------------
def is_numeric_literal(s):
    for f in (int, float):
        try:
            f(s)
            return True
        except ValueError:
            pass
    return False


def plain_string_cell(s):
    """Non-empty, single-line, not a numeric literal (quantifier: 'string cells that are not numeric literals')."""
    return s != '' and '\n' not in s and '\r' not in s and not is_numeric_literal(s)


def float_readings(v, n):
    """The float written to n digits: n decimal places or n significant figures."""
    return [float(('%.' + str(n) + 'f') % v), float(('%.' + str(n) + 'g') % v)]


def build_cell(spec):
    v = build(spec)
    if isinstance(v, str):
        assert plain_string_cell(v), v
    return v


def cell_ok(v, got, n):
    """v: the written value (int, float, str; NumPy int/float allowed). got: the value read back."""
    if isinstance(v, (bool, np.bool_)):
        raise AssertionError('bool cells are not in the statement')
    if isinstance(v, (int, np.integer)):
        return type(got) is int and got == int(v)
    if isinstance(v, (float, np.floating)):
        return type(got) is float and any(scalar_same(r, got) for r in float_readings(float(v), n))
    return type(got) is str and got == v


def case_tsv(inp):
    ext = inp['ext']
    delim = '\t' if ext == 'tsv' else ','
    rows = [{str(f): build_cell(c) for f, c in r.items()} for r in inp['rows']]
    fields = set().union(*[set(r) for r in rows]) if rows else set()
    assert len(fields) >= 2, 'tables have two or more columns'
    kw = {}
    n = 4
    if inp.get('n') is not None:
        n = kw['n_significant_figures'] = int(inp['n'])
    if inp.get('first_field') is not None:
        kw['first_field'] = inp['first_field']
    with tempdir() as tmp:
        path = os.path.join(tmp, 'cluster_info.' + ext)
        if inp.get('pre'):  # a longer table already at the path
            with open(path, 'w') as f:
                f.write(delim.join(['old', 'cols']) + '\n' + (delim.join(['1', '2']) + '\n') * 200)
        M.write_tsv(path, rows, **kw)
        got = M.read_tsv(path)
        with open(path, newline='') as f:
            header = next(csv.reader(f, delimiter=delim))
    yield 'same-number-of-rows-in-order', type(got) is list and len(got) == len(rows), (len(rows), repr(got)[:300])
    if type(got) is not list or len(got) != len(rows):
        return
    present = [{f: v for f, v in r.items() if v is not None} for r in rows]
    yield 'absent-fields-omitted-present-fields-kept', all(type(g) is dict and set(g) == set(p) for g, p in zip(got, present)), \
        ([sorted(p) for p in present], [sorted(g) for g in got if isinstance(g, dict)])
    bad = {'int': [], 'float': [], 'str': []}
    for i, (g, p) in enumerate(zip(got, present)):
        for f, v in p.items():
            if isinstance(g, dict) and f in g and not cell_ok(v, g[f], n):
                kind = 'int' if isinstance(v, (int, np.integer)) else 'float' if isinstance(v, (float, np.floating)) else 'str'
                bad[kind].append((i, f, repr(v), repr(g[f])))
    yield 'integer-cells-read-back-as-equal-integers', not bad['int'], bad['int'][:3]
    yield 'float-cells-read-back-as-floats-to-the-written-precision', not bad['float'], bad['float'][:3]
    yield 'string-cells-read-back-unchanged-including-delimiters-and-quotes', not bad['str'], bad['str'][:3]
    ff = inp.get('first_field')
    if ff is not None and ff in fields:
        used = any(p.get(ff) is not None for p in present)
        yield 'requested-first-column-first', ((bool(header) and header[0] == ff) or not used) and \
            all(next(iter(g)) == ff for g in got if isinstance(g, dict) and ff in g), (header, [list(g) for g in got if isinstance(g, dict)][:4])


def case_tsv_simple(inp):
    ext = inp['ext']
    delim = '\t' if ext == 'tsv' else ','
    field = inp['field']
    data = {int(k): build_cell(c) for k, c in inp['data']}
    assert len(data) == len(inp['data']) and not any(v is None for v in data.values())
    with tempdir() as tmp:
        path = os.path.join(tmp, 'cluster_%s.%s' % (field, ext))
        if inp.get('pre'):  # a longer table already at the path
            with open(path, 'w') as f:
                f.write('cluster_id%sold\n' % delim + ''.join('%d%s%d\n' % (1000 + i, delim, i) for i in range(100)))
        M._write_tsv_simple(path, field, data)
        got = M._read_tsv_simple(path)
    yield 'returns-field-name-and-table', isinstance(got, tuple) and len(got) == 2 and type(got[1]) is dict, repr(got)[:300]
    if not (isinstance(got, tuple) and len(got) == 2 and type(got[1]) is dict):
        return
    name, tab = got
    yield 'field-name-read-back', name == field, (field, name)
    yield 'same-cluster-ids-as-integers', sorted(tab) == sorted(data) and all(type(k) is int for k in tab), (sorted(data), repr(list(tab)))
    bad = []
    for k, v in data.items():
        if k in tab:
            g = tab[k]
            ok = (type(g) is int and g == v) if isinstance(v, int) else \
                 (type(g) is float and scalar_same(v, g)) if isinstance(v, float) else (type(g) is str and g == v)
            if not ok:
                bad.append((k, repr(v), repr(g)))
    yield 'values-read-back-equal-with-int-float-str-typing', not bad, bad[:3]
    yield '__nontrivial__', len(data) > 0, ''


# ---------------------------------------------------------------------------------------------------------
# case: write_python / read_python
# ---------------------------------------------------------------------------------------------------------
def plain_param(v):
    if isinstance(v, bool) or isinstance(v, int):
        return True
    if isinstance(v, float):
        return math.isfinite(v)
    if isinstance(v, str):
        return not any(c in v for c in '"\'\\\n\r')
    if isinstance(v, list):
        return all(plain_param(x) for x in v)
    return False


def case_params(inp):
    items = [(str(k), build(s)) for k, s in inp['items']]
    d = dict(items)
    assert len(d) == len(items)
    assert all(k.isidentifier() and k == k.lower() and not keyword.iskeyword(k) for k in d), list(d)
    assert all(plain_param(v) for v in d.values())
    with tempdir() as tmp:
        path = os.path.join(tmp, 'params.py')
        if inp.get('pre'):  # an older, longer parameter file already at the path
            with open(path, 'w') as f:
                f.write(''.join('old_%d = %d\n' % (i, i) for i in range(50)))
        M.write_python(path, d)
        got = M.read_python(path)
    yield 'reads-back-a-dict-with-the-same-keys', type(got) is dict and set(got) == set(d), (sorted(d), repr(got)[:300])
    if type(got) is dict:
        bad = [(k, repr(d[k]), repr(got[k])) for k in d if k in got and not plain_same(d[k], got[k])]
        yield 'parameter-values-read-back-equal-with-types', not bad, bad[:3]
    yield '__nontrivial__', len(d) > 0, ''


CASES = {'json': case_json, 'tsv': case_tsv, 'tsv_simple': case_tsv_simple, 'params': case_params}


# ---------------------------------------------------------------------------------------------------------
# known classes (DESIGN section 6 row 14, plus the plain-number path for dtypes JSON has no number for)
# ---------------------------------------------------------------------------------------------------------
def _top_keys(inp):
    return [k for k, _ in inp.get('entries', [])]


def _negative_int_key(case, clause, inp):
    """A negative integer top-level key is written as '-5'; '-5'.isdigit() is False so it comes back a string."""
    return case == 'json' and clause in (KEY_CLAUSES[0], KEY_CLAUSES[2]) and \
        any((k[0] == 'i' and int(k[1]) < 0) or (k[0] == 'n' and int(k[2]) < 0) for k in _top_keys(inp))


def _digit_only_str_key(case, clause, inp):
    """A top-level string key made only of digit characters is turned into an int on load (int() raises on
    digit characters that are not decimal digits, e.g. superscript two)."""
    return case == 'json' and clause in (KEY_CLAUSES[1], KEY_CLAUSES[2], 'no-unexpected-exception') and \
        any(k[0] == 's' and str(k[1]).isdigit() for k in _top_keys(inp))


def _no_json_number(kinds):
    """A complex (kind 'c') or long-double (kind 'f', no Python float) NumPy scalar, or 1-D array of 1..10 such items, goes
    through the plain-number path (item()/tolist()), for which JSON has no representation: save_json raises
    (TypeError for complex; RecursionError for long double, whose item() is again a np.longdouble)."""
    def pred(case, clause, inp):
        if case != 'json' or clause != 'no-unexpected-exception':
            return False
        for _, v in inp.get('entries', []):
            for s in walk(v):
                if s[0] in ('np', 'nd') and routed_as_plain_json(s):
                    dt = np.dtype(s[1]).newbyteorder('=')
                    if dt.name in NO_JSON_NUMBER and dt.kind in kinds and (s[0] == 'np' or s[2][0] >= 1):
                        return True
        return False
    return pred


KNOWN_CLASSES = {
    'negative-int-key-comes-back-as-str': _negative_int_key,
    'digit-only-str-key-comes-back-as-int': _digit_only_str_key,
    'complex-scalar-or-short-1d-array-not-serialisable': _no_json_number('c'),
    'longdouble-scalar-or-short-1d-array-not-serialisable': _no_json_number('f'),
}


# ---------------------------------------------------------------------------------------------------------
# enumeration
# ---------------------------------------------------------------------------------------------------------
PLAIN_VALUES = [['none'], ['bool', True], ['bool', False], ['int', 0], ['int', 1], ['int', -1], ['int', 2 ** 31], ['int', -2 ** 63],
                ['int', 2 ** 64], ['int', 10 ** 30], ['float', '0.0'], ['float', '-0.0'], ['float', '1.0'], ['float', '0.1'], ['float', '-2.5'],
                ['float', '1e300'], ['float', '5e-324'], ['float', '1.7976931348623157e308'], ['float', '123456789.12345679'],
                ['float', 'nan'], ['float', 'inf'], ['float', '-inf'],
                ['str', ''], ['str', 'a'], ['str', 'good'], ['str', '12'], ['str', '1.5'], ['str', 'None'], ['str', 'true'], ['str', 'NaN'],
                ['str', 'with space'], ['str', 'q"uote'], ['str', "it's"], ['str', 'back\\slash'], ['str', 'new\nline\ttab\r'],
                ['str', '\u00e9\u4e2d\U0001f600'], ['str', '\x00\x1f'], ['str', '{"__ndarray__": 1}'], ['str', 'x' * 300],
                ['list', []], ['list', [['int', 1], ['int', 2], ['int', 3]]], ['list', [['float', '1.5'], ['none'], ['str', 'a'], ['bool', True]]],
                ['list', [['list', []], ['list', [['list', [['int', 1]]]]]]], ['list', [['int', i] for i in range(12)]],
                ['list', [['dict', [['a', ['int', 1]]]], ['dict', []]]],
                ['dict', []], ['dict', [['a', ['int', 1]], ['b', ['none']]]], ['dict', [['12', ['int', 1]], ['-3', ['int', 2]], ['', ['int', 3]]]],
                ['dict', [['dtype', ['str', 'int8']], ['shape', ['list', [['int', 2]]]]]],
                ['dict', [['x', ['dict', [['y', ['dict', [['z', ['list', [['float', 'nan']]]]]]]]]]]]]

KEY_ALPHABET = [['i', 0], ['i', 1], ['i', 7], ['i', 10], ['i', 2 ** 40], ['i', 10 ** 30], ['i', -1], ['i', -5], ['i', -2 ** 40],
                ['n', 'int64', 5], ['n', 'int32', 0], ['n', 'uint16', 65535], ['n', 'uint64', 2 ** 64 - 1], ['n', 'int8', -3],
                ['s', 'a'], ['s', 'abc'], ['s', 'a1'], ['s', '1a'], ['s', '-1'], ['s', '-x'], ['s', ''], ['s', ' '], ['s', ' 1'], ['s', '1.5'], ['s', '1e3'],
                ['s', 'True'], ['s', 'None'], ['s', 'key with space'], ['s', 'q"uote'], ['s', '\u00e9'], ['s', 'dtype'], ['s', 'A'], ['s', '+1'],
                ['s', '12'], ['s', '0'], ['s', '007'], ['s', '\u00b2'], ['s', '\u0661\u0662']]

NP_SCALAR_VALUES = {
    'b': ['True', 'False'],
    'i': ['0', '1', '-1', 'max', 'min'],
    'u': ['0', '1', 'max'],
    'f': ['0.0', '-0.0', '1.5', '0.1', '-2.5', 'nan', 'inf', '-inf', 'max', 'tiny'],
    'c': ['(1+2j)', '0j', '(0.1-0.5j)'],
}

SHAPES_QUICK = [[], [0], [1], [3], [9], [10], [11], [12], [0, 3], [3, 0], [1, 1], [2, 3], [1, 10], [10, 1], [1, 11], [4, 5], [2, 0, 2], [1, 1, 1],
                [2, 3, 2], [1, 10, 1], [2, 3, 4]]
SHAPES_MORE = [[2], [5], [8], [13], [40], [0, 0], [1, 9], [9, 1], [2, 5], [5, 2], [3, 4], [7, 3], [0, 0, 0], [1, 2, 5], [10, 1, 1], [3, 1, 4], [2, 2, 3], [4, 3, 2]]


def np_scalar_specs():
    for dt in REAL_DTYPES + ['longdouble', 'complex64', 'complex128']:
        d = np.dtype(dt)
        for r in NP_SCALAR_VALUES[d.kind]:
            if r in ('max', 'min', 'tiny'):
                info = np.iinfo(d) if d.kind in 'iu' else np.finfo(d if dt != 'longdouble' else np.float64)
                x = getattr(info, r)
                r = repr(x.item() if hasattr(x, 'item') else x)
            yield ['np', dt, r]


def non_numeric_strings(alphabet, maxlen):
    for L in range(1, maxlen + 1):
        for t in itertools.product(alphabet, repeat=L):
            s = ''.join(t)
            if plain_string_cell(s):
                yield s


CELL_INTS = [['int', 0], ['int', 1], ['int', -1], ['int', 7], ['int', 123456], ['int', -2 ** 63], ['int', 10 ** 25], ['np', 'int64', '5'], ['np', 'int32', '-9'],
             ['np', 'uint16', '65535'], ['np', 'uint64', repr(2 ** 64 - 1)]]
CELL_FLOATS = [['float', r] for r in ('0.0', '-0.0', '1.0', '3.0', '1.5', '-2.25', '0.12345', '0.00005', '0.00015', '2.5', '0.125', '1e-07', '123456.789', '99999.99995',
                                      '1e16', '1e20', '-1e-10', '0.1', '1.23456789', '1234.56789', '0.000123456', 'nan', 'inf', '-inf', '5e-324', '1.7976931348623157e308')] + \
              [['np', 'float64', '0.333333333'], ['np', 'float32', '0.1'], ['np', 'float32', '16777216.0'], ['np', 'float64', '-7.0'],
               ['np', 'float32', '0.33333334'], ['np', 'float32', '1234.5677'], ['np', 'float64', '2.718281828459045']]
CELL_STRS = [['str', s] for s in ('good', 'mua', 'noise', 'a b', ' a', 'a ', ' ', 'a,b', ',', ',,', 'a\tb', '\t', '"', '""', '"a"', 'a"b', '"a', 'a"', 'say "hi", ok\tthen', "it's", "'",
                                  '1a', 'a1', '1,5', '1\t5', '1.2.3', '--1', '+', '-', '.', 'e', 'e5', '1e', '0x1f', '0b1', 'None', 'True', 'NaN1', 'in f', '1 2', '#c', ';', 'a;b', '|', '\\', '\\t', '\\"',
                                  '=1+1', 'x' * 200)]
FIELDS = ['id', 'g', 'q']


def _tsv_structure(ctx, nrows_list, exts, ffs):
    cells = {'absent': None, 'none': ['none'], 'int': ['int', 3], 'str': ['str', 'x']}
    pats = list(itertools.product(['absent', 'none', 'int'], repeat=3))
    for nrows in nrows_list:
        for combo in itertools.product(pats, repeat=nrows):
            rows = []
            for ri, pat in enumerate(combo):
                row = {}
                for f, c in zip(FIELDS, pat):
                    if c == 'absent':
                        continue
                    row[f] = ['int', 10 * ri + FIELDS.index(f)] if c == 'int' else cells[c]
                rows.append(row)
            if len(set().union(*[set(r) for r in rows])) < 2:
                continue
            for ext in exts:
                for ff in ffs:
                    ctx.run('tsv', {'ext': ext, 'rows': rows, 'first_field': ff, 'n': None})


def rand_value(rng, depth, strings):
    kinds = ['plain', 'plain', 'np', 'nd', 'nd', 'nd'] + (['list', 'dict'] if depth > 0 else [])
    k = rng.choice(kinds)
    if k == 'plain':
        s = rng.choice(PLAIN_VALUES[:39])
        return s
    if k == 'np':
        dt = rng.choice(REAL_DTYPES)
        kind = np.dtype(dt).kind
        return ['np', dt, rng.choice({'b': ['True', 'False'], 'i': ['0', '1', '-1', '100'], 'u': ['0', '1', '100'],
                                      'f': ['0.0', '-0.0', '1.5', '0.1', '-2.5', 'nan', 'inf', '-inf']}[kind])]
    if k == 'nd':
        nd = rng.choice([0, 1, 1, 2, 2, 3])
        shape = [rng.choice([0, 1, 2, 3, 4, 5, 9, 10, 11, 12, 17]) for _ in range(nd)]
        if nd == 3:
            shape = [min(s, 5) for s in shape]
        plainpath = nd == 1 and shape[0] <= 10
        dt = rng.choice(REAL_DTYPES + ['>i2', '>u4', '>f8', '>f4'] if plainpath else ALL_DTYPES)
        return ['nd', dt, shape, rng.choice(LAYOUTS), rng.choice([0, 1])]
    if k == 'list':
        return ['list', [rand_value(rng, depth - 1, strings) for _ in range(rng.randint(0, 4))]]
    n = rng.randint(0, 4)
    keys = rng.sample(strings, n)
    return ['dict', [[kk, rand_value(rng, depth - 1, strings)] for kk in keys]]


def enumerate_cases(ctx):
    quick = ctx.tier == 'quick'
    rng = ctx.rng

    # ---- JSON: keys -----------------------------------------------------------------------------------
    ctx.scope('save_json/load_json keys: every top-level key set of size 0..2 over a %d-key alphabet (ints 0, 1, 7, 10, 2^40, 10^30, -1, -5, -2^40; NumPy int64/int32/uint16/uint64/int8 keys; '
              'strings incl. empty, spaces, signs, float-looking, digit-only, non-ASCII digits), excluding pairs whose written or decoded forms collide; '
              'plus all-int, all-str and mixed sets of 3..6 keys' % len(KEY_ALPHABET))
    ctx.run('json', {'entries': []})
    for k in KEY_ALPHABET:
        ctx.run('json', {'entries': [[k, ['int', 41]]], 'pre': True})
    for k1, k2 in itertools.combinations(KEY_ALPHABET, 2):
        if not distinct_keys([k1, k2]):
            continue
        ctx.run('json', {'entries': [[k1, ['int', 41]], [k2, ['str', 'v2']]]})
    good = [k for k in KEY_ALPHABET if not (k[0] == 'i' and k[1] < 0) and not (k[0] == 'n' and k[2] < 0) and not (k[0] == 's' and str(k[1]).isdigit())]
    for size in (3, 4, 6):
        for _ in range(20 if quick else 200):
            ks = rng.sample(good, size)
            if not distinct_keys(ks):
                continue
            ctx.run('json', {'entries': [[k, ['int', i]] for i, k in enumerate(ks)]})
    ctx.run('json', {'entries': [[['i', i], ['int', i * i]] for i in range(30)]})
    ctx.run('json', {'entries': [[['i', 3], ['int', 1]]], 'sub': ['new', 'dir']})

    # ---- JSON: plain values and NumPy scalars -----------------------------------------------------------
    ctx.scope('save_json/load_json values: each of %d plain values (None, bools, ints to 10^30, floats incl. nan/inf/-0.0/denormal/max, strings with quotes, '
              'backslashes, control and non-ASCII characters, nested lists and dicts) under a string key and under an int key; NumPy scalars of every '
              'dtype in %s + longdouble, complex64/128 at 0, 1, -1, min, max, nan, inf, tiny' % (len(PLAIN_VALUES), REAL_DTYPES))
    for v in PLAIN_VALUES:
        ctx.run('json', {'entries': [[['s', 'k'], v]]})
        ctx.run('json', {'entries': [[['i', 5], v], [['s', 'other'], ['int', 1]]]})
    for v in np_scalar_specs():
        ctx.run('json', {'entries': [[['s', 'k'], v]]})
        if np.dtype(v[1]).name not in NO_JSON_NUMBER:
            ctx.run('json', {'entries': [[['i', 2], ['list', [v, ['dict', [['in', v]]]]]]]})

    # ---- JSON: arrays -----------------------------------------------------------------------------------
    shapes = SHAPES_QUICK if quick else SHAPES_QUICK + SHAPES_MORE
    ctx.scope('save_json/load_json arrays: dtypes %s x shapes %s (rank 0..3, empty, the 9/10/11-item threshold in 1-D and 2-D) x layouts %s '
              'x fills {ramp, dtype extremes incl. nan/inf/-0.0/min/max}%s; each alone under a string key' % (ALL_DTYPES, shapes, list(LAYOUTS), ' (quick: ramp fill only for C/strided; rev/view/bcast for 7 of the dtypes)' if quick else ''))
    for dt in ALL_DTYPES:
        for shape in shapes:
            for layout in LAYOUTS:
                if layout in ('strided', 'rev', 'bcast') and len(shape) == 0:
                    continue
                for fill in (0, 1):
                    if quick and fill == 0 and layout not in ('C', 'strided'):
                        continue
                    if quick and layout in ('rev', 'view', 'bcast') and dt not in ('bool', 'int16', 'uint64', 'float32', 'complex128', '>f8', '>i2'):
                        continue
                    if dt == 'longdouble' and len(shape) == 1 and 1 <= shape[0] <= 10 and (layout not in ('C', 'strided') or fill == 0 or (quick and shape[0] not in (3, 10))):
                        continue  # known class (save_json recurses to the interpreter limit, ~0.1 s each): C and strided witnesses suffice
                    ctx.run('json', {'entries': [[['s', 'arr'], ['nd', dt, shape, layout, fill]]]})
    ctx.scope('save_json/load_json arrays in nested positions: array inside a list, inside a nested dict, inside a list inside a dict, two arrays side by side')
    for dt in ('int16', 'float32', 'uint64', 'bool', '>f8', 'complex128'):
        for shape in ([3], [10], [11], [2, 3], [], [0, 2]):
            if dt == 'complex128' and len(shape) == 1 and shape[0] <= 10:
                continue
            a = ['nd', dt, shape, 'strided' if shape else 'C', 1]
            b = ['nd', dt, shape, 'F', 0]
            ctx.run('json', {'entries': [[['i', 0], ['list', [a, ['int', 1], b]]], [['s', 'n'], ['dict', [['deep', ['dict', [['er', ['list', [['list', [a]]]]]]]], ['b', b]]]],
                                         [['i', 12], a], [['s', 'z'], b]]})

    # ---- JSON: random composite dictionaries ---------------------------------------------------------------
    nrand = 250 if quick else 5000
    ctx.scope('save_json/load_json composite: %d seeded random dictionaries (0..5 entries, non-negative int and non-digit string keys, values drawn '
              'recursively to depth 3 from the plain values, NumPy scalars and arrays above)' % nrand)
    skeys = [k[1] for k in good if k[0] == 's'] + ['n_spikes', 'cluster_id', 'GUIState', 'view.0']
    ikeys = [0, 1, 2, 3, 5, 8, 13, 100, 65535, 2 ** 40]
    for _ in range(nrand):
        n = rng.randint(0, 5)
        ks = [['s', s] for s in rng.sample(skeys, rng.randint(0, n))]
        ks += [['i', i] for i in rng.sample(ikeys, n - len(ks))]
        if not distinct_keys(ks):
            continue
        rng.shuffle(ks)
        ctx.run('json', {'entries': [[k, rand_value(rng, 3, skeys)] for k in ks]})

    # ---- TSV / CSV tables ------------------------------------------------------------------------------------
    exts = ('tsv', 'csv')
    ffs = (None, 'id', 'g', 'q', 'zz')
    ctx.scope('write_tsv/read_tsv structure: every row list of 1..2 rows over fields %s where each field is absent / None / an int, with >= 2 columns overall '
              '(includes fully empty rows), x {tsv, csv} x first_field in %s (quick: 2-row lists only as tsv with first_field None and as csv with first_field q)%s'
              % (FIELDS, list(ffs), '' if quick else '; every 3-row list as tsv with first_field None and as csv with first_field q'))
    _tsv_structure(ctx, [1], exts, ffs)
    if quick:
        _tsv_structure(ctx, [2], ('tsv',), (None,))
        _tsv_structure(ctx, [2], ('csv',), ('q',))
    else:
        _tsv_structure(ctx, [2], exts, ffs)
    if not quick:
        _tsv_structure(ctx, [3], ('tsv',), (None,))
        _tsv_structure(ctx, [3], ('csv',), ('q',))
    alpha, L = (['a', '1', ',', '\t', '"', ' '], 3) if quick else (['a', '1', ',', '\t', '"', ' ', "'", '.', '-', 'e'], 3)
    strs = list(non_numeric_strings(alpha, L))
    if not quick:
        strs += list(non_numeric_strings(['a', ',', '\t', '"'], 5))
        strs = sorted(set(strs))
    ctx.scope('write_tsv/read_tsv string cells: every non-numeric string of length 1..%d over %r (%d strings%s) in the first, middle or last of three columns x {tsv, csv}; '
              'plus %d hand-picked strings; every ordered pair of 14 delimiter/quote strings in adjacent cells'
              % (L, alpha, len(strs), '' if quick else ', plus length <= 5 over a , TAB "', len(CELL_STRS)))
    for i, s in enumerate(strs):
        for ext in exts:
            pos = FIELDS[i % 3]
            row = {f: ['int', 1] for f in FIELDS}
            row[pos] = ['str', s]
            inp = {'ext': ext, 'rows': [row, {FIELDS[(i + 1) % 3]: ['str', s]}], 'first_field': 'id', 'n': None}
            if i % 4 == 0:
                inp['pre'] = True
            ctx.run('tsv', inp)
    for c in CELL_STRS:
        for ext in exts:
            for pos in FIELDS:
                ctx.run('tsv', {'ext': ext, 'rows': [{pos: c, FIELDS[(FIELDS.index(pos) + 1) % 3]: ['int', 2]}], 'first_field': pos, 'n': None})
    tricky = [c for c in CELL_STRS if any(ch in c[1] for ch in ',\t"')][:14]
    for c1, c2 in itertools.product(tricky, repeat=2):
        for ext in exts:
            ctx.run('tsv', {'ext': ext, 'rows': [{'id': c1, 'g': c2}, {'g': c1, 'q': c2}], 'first_field': None, 'n': None})
    ns = (None, 1, 2, 4, 6)
    ctx.scope('write_tsv/read_tsv numeric cells: %d ints (incl. NumPy ints, -2^63, 10^25) and %d floats (incl. NumPy float32/64, nan, inf, -0.0, halves at the rounding digit, '
              '1e20, denormal, max) in each of three columns x {tsv, csv} x n_significant_figures in %s' % (len(CELL_INTS), len(CELL_FLOATS), list(ns)))
    for c in CELL_INTS + CELL_FLOATS:
        for ext in exts:
            for n in ns:
                for pos in (FIELDS if not quick else FIELDS[:1] + FIELDS[2:]):
                    other = FIELDS[(FIELDS.index(pos) + 1) % 3]
                    ctx.run('tsv', {'ext': ext, 'rows': [{pos: c, other: ['str', 'good']}, {pos: c}, {other: c}], 'first_field': 'q', 'n': n})
    nrt = 150 if quick else 4000
    ctx.scope('write_tsv/read_tsv random: %d seeded tables of 1..6 rows x 2..5 fields, cells absent/None/int/float/string drawn from the alphabets above, '
              'random first_field and precision' % nrt)
    allcells = CELL_INTS + CELL_FLOATS + CELL_STRS + [['str', s] for s in strs[:400]]
    names = ['cluster_id', 'id', 'group', 'KSLabel', 'amp', 'depth', 'n_spikes', 'sh', 'ch', 'q']
    for _ in range(nrt):
        flds = rng.sample(names, rng.randint(2, 5))
        rows = []
        for _r in range(rng.randint(1, 6)):
            row = {}
            for f in flds:
                u = rng.random()
                if u < 0.2:
                    continue
                row[f] = ['none'] if u < 0.3 else rng.choice(allcells)
            rows.append(row)
        if len(set().union(*[set(r) for r in rows])) < 2:
            continue
        ctx.run('tsv', {'ext': rng.choice(exts), 'rows': rows, 'first_field': rng.choice([None] + flds), 'n': rng.choice(ns)})

    # ---- two-column cluster tables ----------------------------------------------------------------------------
    ids = [0, 1, 2, 7, 10, 65535, 2 ** 40, 10 ** 25, -1, -3]
    ctx.scope('_write_tsv_simple/_read_tsv_simple: empty table; every id in %s with every int/float/string cell (%d values, Python scalars); every 2- and 3-id subset '
              'with mixed value kinds; x {tsv, csv} x field names {group, KSLabel, my_label, q1}' % (ids, len(CELL_STRS) + 40))
    simple_vals = [c for c in CELL_INTS + CELL_FLOATS if c[0] != 'np'] + CELL_STRS + [['str', s] for s in strs[:(60 if quick else 600)]]
    for ext in exts:
        for field in ('group', 'KSLabel', 'my_label', 'q1'):
            ctx.run('tsv_simple', {'ext': ext, 'field': field, 'data': []})
        for i, c in enumerate(simple_vals):
            ctx.run('tsv_simple', {'ext': ext, 'field': ('group', 'KSLabel', 'my_label', 'q1')[i % 4], 'data': [[ids[i % len(ids)], c]]})
        for cid in ids:
            for c in (['int', 4], ['float', '2.5'], ['str', 'good']):
                ctx.run('tsv_simple', {'ext': ext, 'field': 'group', 'data': [[cid, c]], 'pre': True})
        for r in (2, 3):
            for sub in itertools.combinations(ids, r):
                if quick and r == 3 and sum(abs(x) for x in sub) % 3:
                    continue
                data = [[cid, simple_vals[(j * 7 + abs(cid)) % len(simple_vals)]] for j, cid in enumerate(sub)]
                ctx.run('tsv_simple', {'ext': ext, 'field': 'group', 'data': data})
    for _ in range(50 if quick else 1500):
        sub = rng.sample(ids + list(range(20, 40)), rng.randint(1, 8))
        rng.shuffle(sub)
        ctx.run('tsv_simple', {'ext': rng.choice(exts), 'field': rng.choice(['group', 'amp', 'KSLabel']), 'data': [[cid, rng.choice(simple_vals)] for cid in sub]})

    # ---- parameter files --------------------------------------------------------------------------------------
    pvals = [['int', 0], ['int', 1], ['int', -7], ['int', 385], ['int', 10 ** 25], ['bool', True], ['bool', False],
             ['float', '0.0'], ['float', '-0.0'], ['float', '30000.0'], ['float', '0.1'], ['float', '-2.5'], ['float', '1e22'], ['float', '1e-07'], ['float', '5e-324'],
             ['float', '1.7976931348623157e308'], ['float', '2499.9999999999995'],
             ['str', ''], ['str', 'int16'], ['str', 'data.bin'], ['str', '/path/to my/file.dat'], ['str', 'C:/x/y.bin'], ['str', '100%s'], ['str', '%d %%'], ['str', '#no comment'],
             ['str', '1'], ['str', 'True'], ['str', ' lead and trail '], ['str', 'a = 1; b'], ['str', '{x}'], ['str', 'tab\there'],
             ['list', []], ['list', [['int', 1], ['int', 2]]], ['list', [['str', 'a.bin'], ['str', 'b c.bin']]], ['list', [['float', '1.5'], ['bool', True], ['list', [['int', 3], ['list', []]]], ['str', '']]]]
    pkeys = ['dat_path', 'n_channels_dat', 'dtype', 'offset', 'sample_rate', 'hp_filtered', 'x', '_a1', 'data', 'path', 'f', 'k', 'v', 'metadata', 'contents']
    ctx.scope('write_python/read_python: empty dict; each of %d plain values (ints, finite floats, booleans, strings without quotes/backslashes/newlines, nested lists) under each of '
              '%d lower-case identifier keys (quick: 3 keys); every ordered pair of values under two keys (quick: a third of them); seeded random dicts of 1..7 entries' % (len(pvals), len(pkeys)))
    ctx.run('params', {'items': []})
    ctx.run('params', {'items': [], 'pre': True})
    for i, v in enumerate(pvals):
        for k in (pkeys if not quick else [pkeys[i % len(pkeys)], 'f', 'dat_path']):
            ctx.run('params', {'items': [[k, v]], 'pre': True} if k == 'f' else {'items': [[k, v]]})
    for i, (v1, v2) in enumerate(itertools.product(pvals, repeat=2)):
        if quick and i % 3:
            continue
        ctx.run('params', {'items': [[pkeys[i % 7], v1], [pkeys[7 + i % 8], v2]]})
    for _ in range(100 if quick else 2000):
        ks = rng.sample(pkeys, rng.randint(1, 7))
        ctx.run('params', {'items': [[k, rng.choice(pvals)] for k in ks]})
