#!/venv/bin/python
"""Entry point of the concrete side (real code, /venv/bin/python).

  run.py bounded Cxx --tier quick --seed 0 --out FILE    tier-B enumeration (bounded stand-in)
  run.py cases   Cxx FILE_IN FILE_OUT                    evaluate listed (case, input) pairs (replay of
                                                         solver counter-models / recorded witnesses)
"""
import sys, os, json, importlib, argparse
sys.path.insert(0, os.path.dirname(os.path.dirname(os.path.abspath(__file__))))
from concrete import common  # noqa


def load(prop):
    common.setup_imports()
    return importlib.import_module('concrete.b%s' % prop[1:])


def _safe(pred, v):
    try:
        return bool(pred(v['case'], v['clause'], v['input']))
    except Exception:
        return False


def main():
    ap = argparse.ArgumentParser()
    ap.add_argument('mode')
    ap.add_argument('prop')
    ap.add_argument('rest', nargs='*')
    ap.add_argument('--tier', default='quick')
    ap.add_argument('--seed', type=int, default=0)
    ap.add_argument('--out')
    a = ap.parse_args()
    mod = load(a.prop)
    if a.mode == 'bounded':
        ctx = common.Ctx(a.prop, a.tier, a.seed, mod.CASES, known=getattr(mod, 'KNOWN_CLASSES', {}))
        mod.enumerate_cases(ctx)
        res = ctx.result()
        res['contracts'] = getattr(mod, 'CONTRACTED', [])
        with open(a.out, 'w') as f:
            json.dump(res, f, default=str)
    elif a.mode == 'cases':
        items = json.load(open(a.rest[0]))
        out = []
        for it in items:
            fails, _ = common.eval_case(mod.CASES, it['case'], it['input'])
            kc = getattr(mod, 'KNOWN_CLASSES', {})
            out.append({'case': it['case'], 'input': it['input'],
                        'fails': [{'clause': c, 'detail': d, 'classes': [n for n, pred in kc.items() if _safe(pred, {'case': it['case'], 'clause': c, 'input': it['input']})]} for c, d in fails]})
        with open(a.rest[1], 'w') as f:
            json.dump(out, f, default=str)
    else:
        raise SystemExit('unknown mode')


if __name__ == '__main__':
    main()
