# C20 — no download is reported successful with a file failing its published checksum.
# Bounded stand-in (tier B): the contract of DESIGN 4/C20 evaluated on the REAL download_file over all
# scripted fault sequences of a small scope, served by an in-process HTTP mock (a real HTTP server on
# 127.0.0.1 in a thread, and the `responses` adapter mock), against an oracle written from the
# statement with hashlib only.
#
# Readings (Appendix G): the checksum URL behaves the same for every request within one call; a data
# request beyond the end of the script gets the script's last response again.  "Valid" / "mismatch" are
# relative to the PUBLISHED checksum (whatever the .md5 URL serves); the statement makes no claim on the
# file when the checksum is unavailable, on the file after a raise, or on the return value.
import hashlib, io, os, threading, contextlib, itertools
from pathlib import Path
from http.server import BaseHTTPRequestHandler, ThreadingHTTPServer

from concrete.common import tempdir

from phylib.io import datasets as D
from phylib.utils import event as _E

CONTRACTED = ['phylib/io/datasets.py::download_file', 'phylib/io/datasets.py::_check_md5_of_url',
              'phylib/io/datasets.py::_check_md5', 'phylib/io/datasets.py::_md5', 'phylib/io/datasets.py::_download',
              'phylib/io/datasets.py::_save_stream', 'phylib/io/datasets.py::download_text_file']

HTTP_ERRORS = {'404': 404, '500': 500, '403': 403, '503': 503}


# ---------------------------------------------------------------------------------------------
# the scripted server behaviour (shared by both mock back ends)
# ---------------------------------------------------------------------------------------------

def good_body(size):
    return bytes((i * 7 + 3) % 251 for i in range(size)) if size < 4096 else \
        (bytes((i * 7 + 3) % 251 for i in range(4096)) * (size // 4096 + 1))[:size]


def corrupt_body(g, kind):
    if kind == 'flip':          # same length, last byte differs
        return g[:-1] + bytes([g[-1] ^ 0xFF]) if g else b'x'
    if kind == 'flip_first':
        return bytes([g[0] ^ 0x01]) + g[1:] if g else b'y'
    if kind == 'trunc':         # a complete but shorter body
        return g[:-1] if g else b'z'
    if kind == 'empty':
        return b'' if g else b'w'
    if kind == 'extra':
        return g + b'\0'
    raise ValueError('harness: corrupt kind %r' % (kind,))


def md5hex(b):
    return hashlib.md5(b).hexdigest()


class Script(object):
    def __init__(self, inp):
        self.inp = inp
        self.good = good_body(inp.get('size', 10))
        self.corrupt = corrupt_body(self.good, inp.get('corrupt_kind', 'flip'))
        self.script = list(inp['script'])
        kind = inp['md5']
        self.published = {'correct': md5hex(self.good), 'wrong': md5hex(b'some other file' + self.good),
                          'wrong_eq_corrupt': md5hex(self.corrupt)}.get(kind)     # None: unavailable
        self.md5_kind = kind
        self.log = []
        self.n_data = 0
        self.last_len = 0

    def body_of(self, i):
        """bytes of the i-th data response, or an int HTTP status."""
        r = self.script[min(i, len(self.script) - 1)]
        if r == 'good':
            return self.good
        if r == 'corrupt':
            return self.corrupt
        return HTTP_ERRORS[r]

    # -- behaviours: return (status, body bytes)
    def get_data(self):
        b = self.body_of(self.n_data)
        self.n_data += 1
        self.log.append('GET data')
        if isinstance(b, int):
            self.last_len = 0
            return b, b'<html>error %d</html>' % b
        self.last_len = len(b)
        return 200, b

    def get_md5(self):
        self.log.append('GET md5')
        k = self.md5_kind
        if k == 'missing':
            return 404, b'<html>not found</html>'
        if k == 'missing500':
            return 500, b'oops'
        if k == 'empty':
            return 200, b''
        if self.inp.get('md5_format', 'md5sum') == 'md5sum':
            return 200, (self.published + '  file.bin\n').encode()
        return 200, self.published.encode()

    def head(self):
        self.log.append('HEAD data')
        return 200, self.last_len


_SERVER = {'srv': None, 'scripts': {}, 'n': 0}


class _Handler(BaseHTTPRequestHandler):
    def _script(self):
        key = self.path.split('/')[1]
        return _SERVER['scripts'].get(key)

    def do_GET(self):
        s = self._script()
        if s is None:
            self.send_response(410); self.send_header('Content-Length', '0'); self.end_headers()
            return
        status, body = s.get_md5() if self.path.endswith('.md5') else s.get_data()
        self.send_response(status)
        self.send_header('Content-Type', 'text/plain' if self.path.endswith('.md5') else 'application/octet-stream')
        self.send_header('Content-Length', str(len(body)))
        self.end_headers()
        self.wfile.write(body)

    def do_HEAD(self):
        s = self._script()
        if s is None or s.inp.get('head', 'len') != 'len':
            self.send_response(404); self.send_header('Content-Length', '0'); self.end_headers()
            if s is not None:
                s.log.append('HEAD data')
            return
        status, n = s.head()
        self.send_response(status)
        self.send_header('Content-Length', str(n))
        self.end_headers()

    def log_message(self, *a):
        pass


def _server():
    if _SERVER['srv'] is None:
        srv = ThreadingHTTPServer(('127.0.0.1', 0), _Handler)
        srv.daemon_threads = True
        t = threading.Thread(target=srv.serve_forever, daemon=True)
        t.start()
        _SERVER['srv'] = srv
    return _SERVER['srv']


@contextlib.contextmanager
def _serve(script, backend):
    _SERVER['n'] += 1
    key = 'k%d' % _SERVER['n']
    if backend == 'http':
        srv = _server()
        _SERVER['scripts'][key] = script
        try:
            yield 'http://127.0.0.1:%d/%s/file.bin' % (srv.server_address[1], key)
        finally:
            _SERVER['scripts'].pop(key, None)
    elif backend == 'responses':
        import responses
        url = 'http://mock.invalid/%s/file.bin' % key
        with responses.RequestsMock(assert_all_requests_are_fired=False) as rsps:
            def cb_data(req):
                st, body = script.get_data()
                return st, {}, body

            def cb_md5(req):
                st, body = script.get_md5()
                return st, {}, body

            def cb_head(req):
                st, n = script.head()
                return st, {'Content-Length': str(n)}, b''
            rsps.add_callback(responses.GET, url, callback=cb_data, content_type='application/octet-stream')
            rsps.add_callback(responses.GET, url + '.md5', callback=cb_md5, content_type='text/plain')
            if script.inp.get('head', 'len') == 'len':
                rsps.add_callback(responses.HEAD, url, callback=cb_head)
            # otherwise HEAD is unregistered: requests.head raises ConnectionError inside _remote_file_size
            yield url
    else:
        raise ValueError('harness: backend %r' % (backend,))


# ---------------------------------------------------------------------------------------------
# oracle (from the statement; hashlib only)
# ---------------------------------------------------------------------------------------------

def oracle(script, prior):
    """-> dict(outcome 'return'|'raise', why, n_data (None = not fixed by the statement))."""
    P = script.published
    if prior is not None and P is not None and md5hex(prior) == P:
        return {'outcome': 'return', 'why': 'valid-existing', 'n_data': 0}
    b0 = script.body_of(0)
    if isinstance(b0, int):
        return {'outcome': 'raise', 'why': 'http-error', 'n_data': None}
    if P is None:
        return {'outcome': 'return', 'why': 'no-checksum', 'n_data': None}
    if md5hex(b0) == P:
        return {'outcome': 'return', 'why': 'first-transfer-matches', 'n_data': 1}
    b1 = script.body_of(1)
    if isinstance(b1, int):
        return {'outcome': 'raise', 'why': 'http-error', 'n_data': 2}
    if md5hex(b1) == P:
        return {'outcome': 'return', 'why': 'retry-matches', 'n_data': 2}
    return {'outcome': 'raise', 'why': 'persistent-mismatch', 'n_data': 2}


def prior_bytes(script, kind):
    g = script.good
    if kind == 'absent':
        return None
    if kind == 'valid':
        return g
    if kind == 'corrupt':           # longer than the body: a rewrite must truncate
        return (bytes([g[0] ^ 0x55]) + g[1:] if g else b'') + b'stale tail of an older, longer file'
    if kind == 'corrupt_short':
        return g[:-3] + b'!' if len(g) > 3 else b'!'
    if kind == 'corrupt_body':      # exactly the bytes the server's corrupt response has
        return script.corrupt
    raise ValueError('harness: prior kind %r' % (kind,))


def case_download(inp):
    script = Script(inp)
    prior = prior_bytes(script, inp['prior'])
    exp = oracle(script, prior)
    _E.reset()                      # hygiene: _save_stream registers print callbacks on the global emitter
    _E.set_silent(False)
    with tempdir() as d:
        p = os.path.join(d, 'file.bin')
        if prior is not None:
            with open(p, 'wb') as f:
                f.write(prior)
        out = Path(p) if inp.get('path_kind', 'str') == 'Path' else p
        exc = None
        with _serve(script, inp.get('backend', 'http')) as url:
            try:
                with contextlib.redirect_stdout(io.StringIO()):
                    D.download_file(url, out)
            except Exception as e:      # the oracle decides below whether raising was the contract
                exc = e
        exists = os.path.exists(p)
        data = open(p, 'rb').read() if exists else None
    _E.reset()
    n_data = script.log.count('GET data')
    P = script.published
    info = {'expected': exp, 'raised': repr(exc)[:120], 'requests': script.log, 'published': P,
            'file_md5': md5hex(data) if data is not None else None, 'file_len': len(data) if data is not None else None}
    if exc is None and P is not None:
        yield ('normal-return-with-checksum-available-leaves-file-with-published-md5',
               data is not None and md5hex(data) == P, info)
    if exp['why'] == 'valid-existing':
        yield 'valid-existing-file-is-not-downloaded-again', n_data == 0, info
    if exp['why'] in ('first-transfer-matches', 'retry-matches', 'persistent-mismatch') or \
            (exp['why'] == 'http-error' and exp['n_data'] == 2):
        yield 'mismatch-triggers-exactly-one-retry', n_data == exp['n_data'], info
    if exp['why'] == 'persistent-mismatch':
        yield 'persistent-mismatch-raises-instead-of-returning', exc is not None, info
    if exp['why'] == 'http-error':
        yield 'http-error-raises-instead-of-returning', exc is not None, info
    if exc is not None and exp['outcome'] == 'return':
        raise exc                       # recorded by the driver as 'no-unexpected-exception'


CASES = {'download': case_download}


# ---------------------------------------------------------------------------------------------
# enumeration
# ---------------------------------------------------------------------------------------------

def _scripts(maxlen, alphabet=('good', 'corrupt', '404')):
    for n in range(1, maxlen + 1):
        for s in itertools.product(alphabet, repeat=n):
            yield list(s)


def enumerate_cases(ctx):
    quick = ctx.tier == 'quick'
    rng = ctx.rng
    MD5 = ('correct', 'wrong', 'missing', 'wrong_eq_corrupt')
    PRIOR = ('absent', 'valid', 'corrupt', 'corrupt_body')
    KINDS = ('flip', 'trunc', 'empty', 'extra', 'flip_first')
    try:
        _server()
        backends = ('http', 'responses')
    except OSError as e:   # no loopback socket in this sandbox: adapter-level mock only
        ctx.notes.append('loopback HTTP server unavailable (%s): responses mock only' % e)
        backends = ('responses',)

    def variants(j):
        return {'md5_format': ('md5sum', 'bare')[j % 2], 'head': ('len', '404')[(j // 2) % 2],
                'path_kind': ('str', 'Path')[(j // 4) % 2]}

    sizes = (10,) if quick else (10, 1025)
    kinds_all = None if quick else KINDS
    ctx.scope('download_file: ALL data-URL scripts of length 1..3 over {good, corrupt, 404} x checksum URL {correct, wrong, missing(404), '
              'wrong-but-equal-to-the-corrupt-body} x prior file {absent, valid, corrupt(longer), equal-to-corrupt-body} x body size %s x corrupt kind '
              '%s, on %s; checksum-file format (md5sum line / bare hex), HEAD behaviour (content-length / 404) and path type (str / Path) rotate'
              % (list(sizes), 'rotating over %s' % (KINDS,) if quick else 'each of %s' % (KINDS,), ' and '.join(backends)))
    j = 0
    for backend in backends:
        for size in sizes:
            for script in _scripts(3):
                for md5 in MD5:
                    for prior in PRIOR:
                        for kind in ((KINDS[j % len(KINDS)],) if kinds_all is None else kinds_all):
                            j += 1
                            if quick and backend == 'responses' and (md5 == 'wrong_eq_corrupt' or prior == 'corrupt_body'):
                                continue
                            inp = {'backend': backend, 'script': script, 'md5': md5, 'prior': prior, 'size': size, 'corrupt_kind': kind}
                            inp.update(variants(j))
                            ctx.run('download', inp)
    # chunk / block boundaries of _save_stream (1024-byte chunks, progress every 100 chunks) and _md5 (1 MiB blocks)
    big = (1024, 1025, 2500) if quick else (0, 1, 1023, 1024, 1025, 2048, 2500, 102400, 103000, 150000)
    ctx.scope('download_file: body sizes %s (1024-byte stream chunks, progress update every 100 chunks) x scripts of length 1..2 x checksum '
              '{correct, missing, wrong_eq_corrupt} x prior {absent, corrupt, corrupt_short} x corrupt kind {flip, trunc}' % (list(big),))
    for size in big:
        for script in _scripts(2):
            for md5 in ('correct', 'missing', 'wrong_eq_corrupt'):
                for prior in ('absent', 'corrupt', 'corrupt_short'):
                    for kind in (('flip', 'trunc') if not quick else (('flip', 'trunc')[j % 2],)):
                        j += 1
                        inp = {'backend': backends[j % len(backends)] if size < 100000 else backends[0], 'script': script, 'md5': md5,
                               'prior': prior, 'size': size, 'corrupt_kind': kind}
                        inp.update(variants(j))
                        ctx.run('download', inp)
    mib = (2 ** 20 + 7,) if quick else (2 ** 20, 2 ** 20 + 7, 2 * 2 ** 20 + 1)
    ctx.scope('download_file: bodies of %s bytes (several 1 MiB checksum blocks; corrupt = last/first byte flipped or truncated) x scripts '
              '{good; corrupt,good; corrupt,corrupt; good,corrupt} x checksum {correct, wrong_eq_corrupt} x prior {absent, valid, corrupt}' % (list(mib),))
    for size in mib:
        for script in (['good'], ['corrupt', 'good'], ['corrupt', 'corrupt'], ['good', 'corrupt']):
            for md5 in ('correct', 'wrong_eq_corrupt'):
                for prior in ('absent', 'valid', 'corrupt'):
                    for kind in (('flip',) if quick else ('flip', 'flip_first', 'trunc')):
                        if quick and (prior == 'valid' and script != ['good']):
                            continue
                        j += 1
                        inp = {'backend': backends[0], 'script': script, 'md5': md5, 'prior': prior, 'size': size, 'corrupt_kind': kind}
                        inp.update(variants(j))
                        ctx.run('download', inp)
    # other HTTP errors and other ways for the checksum to be unavailable
    ctx.scope('download_file: scripts of length 1..%d over {good, corrupt, 404, 500, 403, 503} containing an error other than 404, and checksum URL '
              'unavailable as {500, empty text}: %s' % (2 if quick else 3, 'seeded sample' if quick else 'exhaustive'))
    extra = [s for s in _scripts(2 if quick else 3, ('good', 'corrupt', '404', '500', '403', '503')) if set(s) & {'500', '403', '503'}]
    if quick:
        extra = rng.sample(extra, 12)
    for script in extra:
        for md5 in ('correct', 'wrong', 'missing500', 'empty'):
            for prior in ('absent', 'valid', 'corrupt'):
                j += 1
                inp = {'backend': backends[j % len(backends)], 'script': script, 'md5': md5, 'prior': prior, 'size': 10,
                       'corrupt_kind': KINDS[j % len(KINDS)]}
                inp.update(variants(j))
                ctx.run('download', inp)
    for script in _scripts(2):
        for md5 in ('missing500', 'empty'):
            for prior in ('absent', 'valid', 'corrupt'):
                j += 1
                inp = {'backend': backends[j % len(backends)], 'script': script, 'md5': md5, 'prior': prior, 'size': 10,
                       'corrupt_kind': KINDS[j % len(KINDS)]}
                inp.update(variants(j))
                ctx.run('download', inp)
