# C06 — sparse feature storage is densified exactly.  Bounded stand-in (tier B): the contracts of DESIGN 4/C06
# evaluated on the real functions over an exhaustive small scope (+ seeded random larger inputs, thorough tier).
#
# Preconditions (quantifier / Appendix G): requested channels distinct and non-negative; each row of the column
# table names a requested channel at most once (-1 and non-requested ids may repeat); ids below 2^31; spike-id
# requests are increasing integer arrays (subsets); the row (spike-id) table is increasing; values are claimed for
# stored spikes only (rows of non-stored spikes are not inspected).  For the waveform route the principal components
# must be well defined: >= 6 stored spikes requested, >= 4 samples, generated with a separated spectrum; compared up
# to the sign of each component with a tolerance (float32 components).
import itertools, os
import numpy as np
from concrete.common import tempdir
from concrete import datagen

from phylib.io import model as M
from phylib.io.array import _index_of
from phylib.utils import Bunch

CONTRACTED = ['phylib/io/model.py::from_sparse', 'phylib/io/array.py::_index_of',
              'phylib/io/model.py::TemplateModel.get_features', 'phylib/io/model.py::TemplateModel.get_template_features',
              'phylib/io/model.py::compute_features', 'phylib/io/model.py::_compute_pcs', 'phylib/io/model.py::_project_pcs']


# ------------------------------------------------------------------------------------------------
# Oracle helpers (never call phylib)
# ------------------------------------------------------------------------------------------------

def _data(shape, dtype='float64'):
    """Distinct non-zero value at every index: 1000*(i0+1) + 100*(i1+1) + 10*(i2+1) ... (digits encode the index)."""
    a = np.zeros(shape, dtype=np.float64)
    for idx in itertools.product(*[range(s) for s in shape]):
        a[idx] = sum((i + 1) * 10 ** (len(shape) - 1 - k) for k, i in enumerate(idx))
    return a.astype(dtype)


def _dense_o(data, cols, ch):
    """out[s][j] = data[s][k] where cols[s][k] == ch[j], else 0 (explicit loops)."""
    ns = data.shape[0]
    out = np.zeros((ns, len(ch)) + data.shape[2:], dtype=np.float64)
    stored = np.zeros((ns, len(ch)), dtype=bool)
    for s in range(ns):
        for j, c in enumerate(ch):
            for k in range(data.shape[1]):
                if int(cols[s][k]) == int(c):
                    out[s, j] = data[s, k]
                    stored[s, j] = True
    return out, stored


def _cmp(out, exp, stored, rows_checked=None):
    """(values equal where stored, zero where not stored) over the checked rows."""
    out = np.asarray(out, dtype=np.float64)
    ok_v, ok_z = True, True
    for s in (range(exp.shape[0]) if rows_checked is None else rows_checked):
        for j in range(exp.shape[1]):
            if stored[s, j]:
                ok_v = ok_v and bool(np.array_equal(out[s, j], exp[s, j]))
            else:
                ok_z = ok_z and bool(np.all(out[s, j] == 0))
    return ok_v, ok_z


# ------------------------------------------------------------------------------------------------
# Cases
# ------------------------------------------------------------------------------------------------

def case_from_sparse(inp):
    cols = np.array(inp['cols'], dtype=inp.get('cols_dtype', 'int32')).reshape((len(inp['cols']), inp['nloc']))
    ns, nloc = cols.shape
    data = _data((ns, nloc) + tuple(inp.get('trail', ())), inp.get('dtype', 'float64'))
    ch = inp['ch']
    req = ch if inp.get('ch_kind', 'list') == 'list' else np.array(ch, dtype=inp['ch_kind'])
    d0, c0 = data.copy(), cols.copy()
    out = M.from_sparse(data, cols, req)
    exp, stored = _dense_o(d0, c0, ch)
    yield 'shape-is-(spikes,channels)+trailing', tuple(out.shape) == exp.shape, out.shape
    if tuple(out.shape) != exp.shape:
        return
    ok_v, ok_z = _cmp(out, exp, stored)
    yield 'stored-value-at-(spike,channel)', ok_v, (np.asarray(out).tolist(), exp.tolist())
    yield 'zero-where-channel-not-stored', ok_z, (np.asarray(out).tolist(), exp.tolist())
    srt = sorted(ch)
    if srt != list(ch):
        out2 = M.from_sparse(d0.copy(), c0.copy(), srt)
        yield ('independent-of-requested-order',
               all(np.array_equal(out[:, j], out2[:, srt.index(c)]) for j, c in enumerate(ch)),
               (np.asarray(out).tolist(), np.asarray(out2).tolist()))
    yield '__nontrivial__', ns > 0 and len(ch) > 0, ''


def case_index_of(inp):
    lookup, arr = inp['lookup'], inp['arr']
    res = _index_of(np.array(arr, dtype=inp.get('dtype', 'int64')), np.array(lookup))
    res = np.asarray(res)
    yield 'same-shape', res.shape == (len(arr),), res.shape
    yield ('lookup[result[k]]==arr[k]',
           res.shape == (len(arr),) and all(0 <= int(r) < len(lookup) and lookup[int(r)] == a for r, a in zip(res, arr)),
           res.tolist())


def _feature_model(inp):
    m = M.TemplateModel.__new__(M.TemplateModel)
    m.spike_templates = np.array(inp['st'], dtype=inp.get('st_dtype', 'int32'))
    m.n_spikes = len(inp['st'])
    m.spike_waveforms = None
    return m


def _store(inp, trail):
    """Bunch(data, cols, rows) of a feature store described by the input + the oracle's view."""
    rows = inp.get('rows')
    nstored = len(rows) if rows is not None else len(inp['st'])
    data = _data((nstored, inp['nloc']) + trail, inp.get('dtype', 'float64'))
    cols = np.array(inp['cols'], dtype=inp.get('cols_dtype', 'int32')) if inp.get('cols') is not None else None
    b = Bunch(data=data, cols=cols, rows=np.array(rows, dtype=inp.get('rows_dtype', 'int64')) if rows is not None else None)
    return b, data.copy()


def _expected(inp, data, spikes, ch):
    """Oracle: per requested spike (stored or not), expected dense row and stored mask; row_of = position of the
    spike in the store (row table when present, the spike id otherwise)."""
    rows, st = inp.get('rows'), inp['st']
    nloc = inp['nloc']
    exp = np.zeros((len(spikes), len(ch)) + data.shape[2:])
    stored = np.zeros((len(spikes), len(ch)), dtype=bool)
    have = []
    for i, s in enumerate(spikes):
        if rows is not None and s not in rows:
            continue
        have.append(i)
        r = rows.index(s) if rows is not None else s
        colrow = inp['cols'][st[s]] if inp.get('cols') is not None else list(range(nloc))
        for j, c in enumerate(ch):
            for k in range(nloc):
                if colrow[k] == c:
                    exp[i, j] = data[r, k]
                    stored[i, j] = True
    return exp, stored, have


def case_features(inp):
    m = _feature_model(inp)
    m.sparse_features, d0 = _store(inp, (inp['npcs'],))
    spikes, ch = inp['spikes'], inp['ch']
    out = m.get_features(np.array(spikes, dtype=np.int64), ch if inp.get('ch_kind', 'list') == 'list' else np.array(ch, dtype=inp['ch_kind']))
    exp, stored, have = _expected(inp, d0, spikes, ch)
    yield 'shape-is-(spikes,channels,pcs)', tuple(out.shape) == exp.shape, out.shape
    if tuple(out.shape) != exp.shape:
        return
    ok_v, ok_z = _cmp(out, exp, stored, have)
    yield 'stored-value-at-(spike,channel)', ok_v, (np.asarray(out).tolist(), exp.tolist())
    yield 'zero-where-channel-not-stored', ok_z, (np.asarray(out).tolist(), exp.tolist())
    srt = sorted(ch)
    if srt != list(ch):
        out2 = m.get_features(np.array(spikes, dtype=np.int64), srt)
        yield ('independent-of-requested-order',
               all(np.array_equal(out[have][:, j], out2[have][:, srt.index(c)]) for j, c in enumerate(ch)), '')
    yield '__nontrivial__', len(have) > 0 and len(ch) > 0, ''


def case_template_features(inp):
    m = _feature_model(inp)
    m.n_templates = inp['nt']
    m.sparse_template_features, d0 = _store(inp, ())
    spikes = inp['spikes']
    out = m.get_template_features(np.array(spikes, dtype=np.int64))
    exp, stored, have = _expected(inp, d0, spikes, list(range(inp['nt'])))
    yield 'shape-is-(spikes,templates)', tuple(out.shape) == exp.shape, out.shape
    if tuple(out.shape) != exp.shape:
        return
    ok_v, ok_z = _cmp(out, exp, stored, have)
    yield 'stored-value-at-(spike,template)', ok_v, (np.asarray(out).tolist(), exp.tolist())
    yield 'zero-where-template-not-stored', ok_z, (np.asarray(out).tolist(), exp.tolist())
    yield '__nontrivial__', len(have) > 0, ''


def case_loaded_features(inp):
    """get_features / get_template_features of a model loaded from a generated dataset directory; the oracle reads
    the written arrays (pc_features.npy is spikes x pcs x local channels on disk)."""
    kw = inp['dataset']
    spikes, ch = inp['spikes'], inp['ch']
    with tempdir() as d:
        T = datagen.make_dataset(d, **kw)
        m = M.load_model(os.path.join(d, 'params.py'))
        try:
            st = [int(x) for x in T['spike_templates']]
            f = np.array(m.get_features(np.array(spikes, dtype=np.int64), ch))
            pcf = T['pc_features'].astype(np.float64)
            o = {'st': st, 'nloc': pcf.shape[2], 'cols': T['pc_feature_ind'].astype(np.int64).tolist(),
                 'rows': [int(x) for x in T['pc_feature_spike_ids']] if 'pc_feature_spike_ids' in T else None}
            exp, stored, have = _expected(o, np.transpose(pcf, (0, 2, 1)), spikes, ch)
            yield 'features-shape', f.shape == exp.shape, f.shape
            if f.shape == exp.shape:
                ok_v, ok_z = _cmp(f, exp, stored, have)
                yield 'features-stored-value-at-(spike,channel)', ok_v, ''
                yield 'features-zero-where-channel-not-stored', ok_z, ''
            if 'template_features' in T:
                tfd = T['template_features'].astype(np.float64)
                nt = kw.get('n_templates', datagen.DEFAULT['n_templates'])
                o = {'st': st, 'nloc': tfd.shape[1], 'cols': T['template_feature_ind'].astype(np.int64).tolist(),
                     'rows': [int(x) for x in T['template_feature_spike_ids']] if 'template_feature_spike_ids' in T else None}
                exp, stored, have = _expected(o, tfd, spikes, list(range(nt)))
                tf = m.get_template_features(np.array(spikes, dtype=np.int64))
                tf = np.array(tf) if tf is not None else None
                yield 'template-features-shape', tf is not None and tf.shape == exp.shape, None if tf is None else tf.shape
                if tf is not None and tf.shape == exp.shape:
                    ok_v, ok_z = _cmp(tf, exp, stored, have)
                    yield 'template-features-stored-value-at-(spike,template)', ok_v, ''
                    yield 'template-features-zero-where-template-not-stored', ok_z, ''
        finally:
            m.close()


def _waveforms(seed, n, nsw, nc):
    """n waveforms (n, nsw, nc) whose per-channel covariance has a well separated spectrum (scales 8,4,2,1,.5,...)."""
    rs = np.random.RandomState(seed)
    w = np.zeros((n, nsw, nc))
    for c in range(nc):
        q, _ = np.linalg.qr(rs.normal(size=(nsw, nsw)))
        scales = 8.0 / 2.0 ** np.arange(nsw)
        w[:, :, c] = (rs.normal(size=(n, nsw)) * scales) @ q.T + rs.normal(size=nsw)
    return w


def _pca_o(w):
    """Projection of every (uncentred) waveform on the 3 leading principal components of each channel, via the SVD
    of the centred data matrix.  Returns (n, nc, 3)."""
    n, nsw, nc = w.shape
    out = np.zeros((n, nc, 3))
    for c in range(nc):
        x = w[:, :, c]
        _, _, vt = np.linalg.svd(x - x.mean(axis=0), full_matrices=True)
        out[:, c, :] = x @ vt[:3].T
    return out


def _same_up_to_sign(f, exp, rtol=2e-4):
    f = np.asarray(f, dtype=np.float64)
    if f.shape != exp.shape:
        return False
    scale = max(1.0, float(np.max(np.abs(exp)))) if exp.size else 1.0
    for c in range(exp.shape[1]):
        for i in range(exp.shape[2]):
            a, b = f[:, c, i], exp[:, c, i]
            if min(np.max(np.abs(a - b)), np.max(np.abs(a + b))) > rtol * scale:
                return False
    return True


def case_compute_features(inp):
    w = _waveforms(inp['seed'], inp['n'], inp['nsw'], inp['nc']).astype(inp.get('dtype', 'float64'))
    f = M.compute_features(w.copy())
    exp = _pca_o(w.astype(np.float64))
    yield 'shape-is-(spikes,channels,3)', tuple(f.shape) == exp.shape, f.shape
    yield 'projection-on-three-leading-pcs-of-each-channel', _same_up_to_sign(f, exp), ''


def case_features_from_waveforms(inp):
    """No feature file, extracted waveforms present: get_features = projections on the per-channel leading PCs."""
    n_sub, nsw, nchs = inp['n_sub'], inp['nsw'], inp['nchs']
    sub_ids = inp['sub_ids']                    # increasing spike ids that have a stored waveform
    sch = inp['spike_channels']                 # per stored spike: its nchs channel ids
    wf = _waveforms(inp['seed'], n_sub, nsw, nchs).astype(np.float32)
    m = _feature_model({'st': [0] * inp['n_spikes']})
    m.sparse_features = None
    m.traces = None
    m.n_samples_waveforms = nsw
    m.n_channels = inp['n_channels']
    m.spike_waveforms = Bunch(waveforms=wf.copy(), spike_channels=np.array(sch, dtype=np.int32),
                              spike_ids=np.array(sub_ids, dtype=np.int64))
    spikes, ch = inp['spikes'], inp['ch']
    f = m.get_features(np.array(spikes, dtype=np.int64), np.array(ch, dtype=np.int64))
    have = [i for i, s in enumerate(spikes) if s in sub_ids]
    # oracle: waveform of spike s on requested channel c = its stored column for c (zero when c is not stored)
    W = np.zeros((len(have), nsw, len(ch)))
    for a, i in enumerate(have):
        r = sub_ids.index(spikes[i])
        for j, c in enumerate(ch):
            if c in sch[r]:
                W[a, :, j] = wf[r][:, sch[r].index(c)]
    exp = _pca_o(W)
    yield 'shape-is-(spikes,channels,3)', tuple(f.shape) == (len(spikes), len(ch), 3), f.shape
    if tuple(f.shape) == (len(spikes), len(ch), 3):
        yield 'projection-on-three-leading-pcs-of-each-channel', _same_up_to_sign(np.asarray(f)[have], exp), ''


CASES = {'from_sparse': case_from_sparse, '_index_of': case_index_of, 'features': case_features,
         'template_features': case_template_features, 'loaded_features': case_loaded_features,
         'compute_features': case_compute_features, 'features_from_waveforms': case_features_from_waveforms}


# ------------------------------------------------------------------------------------------------
# Known classes, decided from the input only
# ------------------------------------------------------------------------------------------------

def _loaded_tf_rows(kw):
    with tempdir() as d:
        T = datagen.make_dataset(d, **kw)
    return [int(x) for x in T['template_feature_spike_ids']] if 'template_feature_spike_ids' in T else None


def known_template_features_unstored_spike(case, clause, inp):
    """get_template_features with a row (spike-id) table drops the requested spikes that are not stored and then
    asserts the output has one row per requested spike: AssertionError whenever a requested spike is not stored."""
    if clause != 'no-unexpected-exception':
        return False
    if case == 'template_features':
        rows = inp.get('rows')
    elif case == 'loaded_features':
        rows = _loaded_tf_rows(inp['dataset']) if inp['dataset'].get('template_features') else None
    else:
        return False
    return rows is not None and any(s not in rows for s in inp['spikes'])


def known_unsigned_request_array(case, clause, inp):
    """from_sparse builds np.r_[channel_ids, -1]: with the requested channels given as an unsigned integer ARRAY
    NumPy >= 2 (NEP 50) refuses to cast -1 and raises OverflowError (lists and signed arrays are fine)."""
    return (case in ('from_sparse', 'features') and clause == 'no-unexpected-exception' and
            str(inp.get('ch_kind', 'list')).startswith('uint'))


KNOWN_CLASSES = {'template_features_row_table_and_unstored_spike_requested': known_template_features_unstored_spike,
                 'requested_channels_given_as_unsigned_array': known_unsigned_request_array}


# ------------------------------------------------------------------------------------------------
# Scope
# ------------------------------------------------------------------------------------------------

def _colrows(nloc, alphabet):
    """Rows of a column table: non-negative entries distinct, -1 may repeat."""
    for r in itertools.product([-1] + list(alphabet), repeat=nloc):
        pos = [x for x in r if x >= 0]
        if len(set(pos)) == len(pos):
            yield list(r)


def _requests(alphabet, maxlen):
    for k in range(0, maxlen + 1):
        for p in itertools.permutations(alphabet, k):
            yield list(p)


def _subsets(n):
    for k in range(0, n + 1):
        for c in itertools.combinations(range(n), k):
            yield list(c)


def _spike_requests(n):
    """Every increasing subset, plus (seeded change C06d: a row mask instead of row positions is only wrong for a request
    that is not increasing) its reversal and one rotation: "any spikes" of the statement, distinct ids in any order."""
    for c in _subsets(n):
        yield c
        if len(c) >= 2:
            yield c[::-1]
        if len(c) >= 3:
            yield c[1:] + c[:1]


def enumerate_cases(ctx):
    quick = ctx.tier == 'quick'
    rs = np.random.RandomState(ctx.seed)

    # ---- from_sparse ----------------------------------------------------------------------------
    A = (0, 1, 2, 3) if quick else (0, 1, 2, 3, 4)
    ctx.scope('from_sparse: 0-2 spikes x 1-3 local columns, column ids over {-1}+%s (non-negative ids distinct per row, '
              '-1 repeated), requests = all ordered lists of <= 3 distinct channels of %s plus lists with the unknown '
              'channel 7 and the empty list, trailing dims () / (2,) / (2,1), tables int32/int64/uint32, requests as '
              'list / int32 / int64 array / (thin slice) uint32 array, data float64/float32 (exhaustive first row x 4 second rows)' % (A, A))
    reqs = list(_requests(A, 3)) + [[7], [7, 0], [2, 7, 1], list(A)[::-1], list(A) + [7]]
    combos = 0
    for nloc in (1, 2, 3):
        rows = list(_colrows(nloc, A))
        seconds = [rows[0], rows[-1], rows[len(rows) // 2], rows[len(rows) // 3]]
        tables = [[]] + [[r] for r in rows] + [[r, s] for r in rows for s in seconds]
        for tab in tables:
            for ri, ch in enumerate(reqs):
                combos += 1
                if quick and nloc == 3 and len(tab) == 2 and (combos % 3):
                    continue
                k = combos % 6
                inp = {'cols': tab, 'nloc': nloc, 'ch': ch, 'trail': [(), (2,), (2, 1)][combos % 3]}
                inp['trail'] = list(inp['trail'])
                if k in (1, 4):
                    inp['cols_dtype'] = 'int64'
                if k == 4:
                    inp['dtype'] = 'float32'
                if k == 2 and all(x >= 0 for r in tab for x in r):
                    inp['cols_dtype'] = 'uint32'
                if k == 3:
                    inp['ch_kind'] = 'int64'
                if k == 5:
                    # unsigned request arrays all fail the same way (known class): a thin slice witnesses it
                    inp['ch_kind'] = 'uint32' if combos % 30 == 5 else 'int32'
                if not ch and inp.get('ch_kind', 'list') != 'list':
                    inp.pop('ch_kind')
                ctx.run('from_sparse', inp)
    # a non-requested id repeated in a row (allowed by the precondition), large ids
    for tab, ch in (([[5, 5, 1]], [1, 0]), ([[9, 1, 9], [-1, 9, 9]], [1]), ([[70000, 3]], [3, 70000]),
                    ([[0, 1, 2]], [70000, 1])):
        ctx.run('from_sparse', {'cols': tab, 'nloc': len(tab[0]), 'ch': ch, 'trail': [2], 'cols_dtype': 'int64'})

    # wide, many-channel requests (probe-sized): NumPy's isin switches to its sort-based path there, and stored channels that are
    # NOT requested repeat across spikes
    ctx.scope('from_sparse on probe-sized requests: 16-48 requested channels spread over 0..383 (every 8th/16th/24th), 2-4 spikes x 6-8 '
              'stored columns sharing non-requested channels')
    for step, nreq in ((16, 24), (8, 48), (24, 16)):
        ch = [step * i for i in range(nreq)]
        for ns in (2, 3, 4):
            nloc = 8 if ns < 4 else 6
            tab = [[(7 + 3 * j) if j % 2 else ch[(s_ + j) % nreq] for j in range(nloc)] for s_ in range(ns)]   # odd columns: non-requested, repeated across spikes
            ctx.run('from_sparse', {'cols': tab, 'nloc': nloc, 'ch': ch, 'trail': [], 'cols_dtype': 'int32'})
            ctx.run('from_sparse', {'cols': tab, 'nloc': nloc, 'ch': ch[::-1], 'trail': [3], 'cols_dtype': 'int64'})

    # ---- _index_of ------------------------------------------------------------------------------
    ctx.scope('_index_of: lookups = all ordered lists of 1-3 distinct ids of {0..4} (optionally followed by -1 as in '
              'from_sparse), arr = the lookup reversed and with repeats')
    for lk in _requests((0, 1, 2, 3, 4), 3):
        if not lk:
            continue
        for tail in ([], [-1]):
            lookup = lk + tail
            arr = lookup[::-1] + lookup[:1] + lookup
            ctx.run('_index_of', {'lookup': lookup, 'arr': arr})
            ctx.run('_index_of', {'lookup': lookup, 'arr': [], 'dtype': 'int32'})

    # ---- get_features ---------------------------------------------------------------------------
    sts = [[0, 1, 1, 0], [1, 1, 0, 1], [0, 0, 0, 0], [2, 0, 1, 2]] if quick else \
        [list(p) for p in itertools.product(range(2), repeat=4)] + [[2, 0, 1, 2], [1, 2, 2, 0]]
    coltabs = [[[0, 2], [3, 1], [1, 4]], [[4, -1], [0, 4], [-1, -1]], None, [[1, 0], [0, 1], [2, 3]]]
    chs = [[1, 0, 2], [0, 1, 2], [4], [3, 7, 0, 1], [2, 1, 0, 4, 3], []] if quick else \
        [[1, 0, 2], [0, 1, 2], [4], [3, 7, 0, 1], [2, 1, 0, 4, 3], [], [0], [1, 0], [4, 3, 2, 1, 0], [0, 1, 2, 3, 4], [7, 6]]
    rowtabs = [None] + [r for r in _subsets(4) if r]
    ctx.scope('get_features: 4 spikes, 3 templates x 2 local columns, %d template assignments, column tables (3 sparse '
              'incl. -1 entries, 1 absent), row table absent or any non-empty subset of the spikes, requests = every '
              'increasing subset of the spikes (incl. empty, incl. non-stored spikes) and, for 2+ spikes, its reversal and a rotation x %d channel lists (permutations, '
              'unknown channel, empty), 1-2 components, int32/int64/uint32 tables' % (len(sts), len(chs)))
    n = 0
    for st in sts:
        for ti, tab in enumerate(coltabs):
            for rt in rowtabs:
                for spikes in _spike_requests(4):
                    for ci, ch in enumerate(chs):
                        n += 1
                        if quick and n % 4:
                            continue
                        inp = {'st': st, 'nloc': 2, 'npcs': 1 + n % 2, 'cols': tab, 'rows': rt, 'spikes': spikes, 'ch': ch}
                        if n % 3 == 1 and tab is not None:
                            inp['cols_dtype'] = 'int64'
                        if n % 3 == 2 and tab is not None and min(min(r) for r in tab) >= 0:
                            inp['cols_dtype'] = 'uint32'
                        if n % 5 == 0:
                            inp['st_dtype'] = 'uint32'
                            inp['dtype'] = 'float32'
                        if n % 7 == 0 and ch:
                            inp['ch_kind'] = 'uint32' if n % 91 == 0 else 'int64'
                        ctx.run('features', inp)

    # ---- get_template_features ------------------------------------------------------------------
    ttabs = [[[0, 1], [1, 2], [2, 0]], [[2, 0], [0, 1], [1, 2]], None]
    ctx.scope('get_template_features: 4 spikes, 3 templates x 2 stored template columns (2 column tables + absent -> '
              '2 templates), same template assignments / row tables / spike subsets as above')
    for st in sts:
        for tab in ttabs:
            if tab is None and max(st) > 1:
                continue
            for rt in rowtabs:
                for spikes in _subsets(4):
                    ctx.run('template_features', {'st': st, 'nloc': 2, 'nt': 3 if tab is not None else 2, 'cols': tab,
                                                  'rows': rt, 'spikes': spikes})

    # ---- loaded model -----------------------------------------------------------------------------
    ctx.scope('load_model on generated dataset directories (12 spikes, 3 templates, 4-5 channels) with pc_features / '
              'template_features, with and without spike-id tables: spike subsets (all, evens, empty, a random one) x '
              'channel lists (identity, reversed, partial, with unknown channel)')
    for seed in ((0,) if quick else (0, 1, 2)):
        for frows in (False, True):
            for tfrows in (False, True):
                kw = dict(seed=seed + ctx.seed, features=True, features_rows=frows, template_features=True,
                          template_features_rows=tfrows, n_channels=4 + seed % 2)
                nc = kw['n_channels']
                subs = [list(range(12)), list(range(0, 12, 2)), [], sorted(int(x) for x in rs.permutation(12)[:5])]
                for sp in subs:
                    for ch in ([list(range(nc))], [list(range(nc))[::-1]], [[2, 0]], [[1, nc + 3, 3]]):
                        ctx.run('loaded_features', {'dataset': kw, 'spikes': sp, 'ch': ch[0]})

    # ---- features computed from extracted waveforms ------------------------------------------------
    ctx.scope('compute_features / get_features without a feature file: seeded waveforms with a separated spectrum, '
              '6-40 spikes x 4-8 samples x 1-4 channels, float32/float64; get_features with a stored subset of spikes, '
              'per-spike channel lists, requested channel permutations, non-stored spikes requested (tolerance 2e-4, '
              'components compared up to sign)')
    for i in range(12 if quick else 120):
        ctx.run('compute_features', {'seed': ctx.seed * 1000 + i, 'n': [6, 9, 20, 40][i % 4], 'nsw': 4 + i % 5, 'nc': 1 + i % 4,
                                     'dtype': 'float32' if i % 2 else 'float64'})
    for i in range(12 if quick else 120):
        n_spikes = 16
        sub_ids = sorted(int(x) for x in rs.permutation(n_spikes)[:10])
        nchs = 2 + i % 2
        n_channels = 5
        base = [int(x) for x in rs.permutation(n_channels)[:nchs]]
        sch = [list(base) if (k % 4 or i % 3) else base[::-1] for k in range(len(sub_ids))]
        if i % 3 == 2:
            other = [c for c in range(n_channels) if c not in base][0]
            sch[1] = [other] + base[1:]          # one spike lacks the first channel (zero waveform there)
        spikes = sorted(set(sub_ids[: 7 + i % 4] + [int(x) for x in rs.permutation(n_spikes)[:3]]))
        ch = [int(x) for x in rs.permutation(base)]
        ctx.run('features_from_waveforms', {'seed': ctx.seed * 1000 + 500 + i, 'n_sub': len(sub_ids), 'nsw': 4 + i % 4,
                                            'nchs': nchs, 'sub_ids': sub_ids, 'spike_channels': sch, 'n_spikes': n_spikes,
                                            'n_channels': n_channels, 'spikes': spikes, 'ch': ch})

    # ---- seeded random larger inputs (thorough) -------------------------------------------------
    if not quick:
        ctx.scope('seeded random: 1500 from_sparse triples (<= 12 spikes, <= 6 local columns, ids < 40, trailing dims), '
                  '800 feature stores (<= 30 spikes, <= 6 templates, <= 5 local columns of <= 12 channels)')
        for i in range(1500):
            ns, nloc = int(rs.randint(0, 13)), int(rs.randint(1, 7))
            tab = []
            for s in range(ns):
                r = rs.permutation(40)[:nloc]
                r[rs.uniform(size=nloc) < 0.25] = -1
                tab.append([int(x) for x in r])
            ch = [int(x) for x in rs.permutation(40)[:int(rs.randint(0, 12))]]
            ctx.run('from_sparse', {'cols': tab, 'nloc': nloc, 'ch': ch, 'trail': [[], [3], [2, 2]][i % 3],
                                    'cols_dtype': ['int32', 'int64'][i % 2], 'ch_kind': ['list', 'int64'][(i // 2) % 2] if ch else 'list'})
        for i in range(800):
            nsp, nt, nloc, nch = int(rs.randint(1, 31)), int(rs.randint(1, 7)), int(rs.randint(1, 6)), 12
            st = [int(x) for x in rs.randint(0, nt, size=nsp)]
            tab = []
            for t in range(nt):
                r = rs.permutation(nch)[:nloc]
                r[rs.uniform(size=nloc) < 0.2] = -1
                tab.append([int(x) for x in r])
            rt = sorted(int(x) for x in rs.permutation(nsp)[:int(rs.randint(1, nsp + 1))]) if i % 2 else None
            spikes = sorted(int(x) for x in rs.permutation(nsp)[:int(rs.randint(0, nsp + 1))])
            ch = [int(x) for x in rs.permutation(nch + 2)[:int(rs.randint(0, nch + 1))]]
            ctx.run('features', {'st': st, 'nloc': nloc, 'npcs': 1 + i % 3, 'cols': tab if i % 7 else None, 'rows': rt,
                                 'spikes': spikes[::-1] if i % 3 == 0 else spikes, 'ch': ch})
            ntl = min(nloc, nt)
            ttab = [[int(x) for x in rs.permutation(nt)[:ntl]] for t in range(nt)]
            ctx.run('template_features', {'st': st, 'nloc': ntl, 'nt': nt, 'cols': ttab, 'rows': rt, 'spikes': spikes})
