# C10 — saved curation state survives any save/reload history.  Bounded stand-in (tier B).
#
# The history quantifier is enumerated: every word of bounded length over
#   {save_spike_clusters, save_metadata(field A), save_metadata(field B), write foreign valid TSV/CSV,
#    write foreign malformed TSV/CSV, save_spikes_subset_waveforms, close, reload}
# is executed on the REAL TemplateModel over a small generated dataset and, after every reload (and after a
# final reload), the freshly loaded model is compared with a dictionary reference model kept by the harness.
# The oracle never calls phylib: assignments / mappings are the last values handed to the save methods,
# waveforms are windows cut out of the raw array written by datagen (DESIGN 4/C03 spec function W).
#
# Readings (DESIGN App. G / 2.13): metadata values are Python ints, floats (finite) or non-empty single-line
# strings that neither int() nor float() parses; a field whose last saved mapping is empty (all None) may be
# absent from model.metadata; two files defining the same field are outside the statement (the enumerator never
# generates that, and never saves a field called 'info': cluster_info.tsv is the file the loader documents as
# excluded); what a malformed file contributes to model.metadata is unconstrained (it only must not prevent
# loading nor disturb the other fields); save_spikes_subset_waveforms is only called on a model that has not
# been closed (use of memmaps after close() is undefined); which spikes the export selects is C17's business,
# which channels it lists is C05's: here the three store files only have to be mutually consistent with the raw
# data.
import os
os.environ.setdefault('TQDM_DISABLE', '1')
import itertools, hashlib
import numpy as np
from concrete.common import tempdir
from concrete.datagen import make_dataset

from phylib.io import model as M

CONTRACTED = ['phylib/io/model.py::TemplateModel.save_spike_clusters', 'phylib/io/model.py::TemplateModel.save_metadata',
              'phylib/io/model.py::save_metadata', 'phylib/io/model.py::load_metadata',
              'phylib/io/model.py::TemplateModel._load_metadata', 'phylib/io/model.py::TemplateModel._load_spike_clusters',
              'phylib/io/model.py::TemplateModel.save_spikes_subset_waveforms',
              'phylib/io/model.py::TemplateModel._load_spike_waveforms', 'phylib/io/model.py::TemplateModel.close',
              'phylib/io/model.py::_close_memmap', 'phylib/io/model.py::load_model',
              'phylib/utils/_misc.py::_write_tsv_simple', 'phylib/utils/_misc.py::read_tsv',
              'phylib/utils/_misc.py::_try_make_number', 'phylib/io/traces.py::export_waveforms',
              'phylib/io/traces.py::get_spike_waveforms']

STORE = ('_phy_spikes_subset.waveforms.npy', '_phy_spikes_subset.spikes.npy', '_phy_spikes_subset.channels.npy')


# ----------------------------------------------------------------------------------------------------------
# helpers (plain Python / NumPy only)
# ----------------------------------------------------------------------------------------------------------

def is_numeric_string(s):
    for f in (int, float):
        try:
            f(s)
            return True
        except ValueError:
            pass
    return False


def value_ok(v):
    """Metadata values of the statement: ints, floats, non-numeric strings (App. G: non-empty, one line)."""
    if v is None or type(v) is int:
        return True
    if type(v) is float:
        return v == v and abs(v) != float('inf')
    return type(v) is str and v != '' and '\n' not in v and '\r' not in v and not is_numeric_string(v)


def digest(d):
    out = {}
    for root, _, files in os.walk(d):
        for f in files:
            p = os.path.join(root, f)
            with open(p, 'rb') as fh:
                out[os.path.relpath(p, d)] = hashlib.sha256(fh.read()).hexdigest()
    return out


def modified(before, after, allowed):
    """Pre-existing files that were changed or deleted, except the operation's own targets."""
    return sorted(n for n in before if n not in allowed and after.get(n) != before[n])


def same_mapping(got, exp):
    """Exact equality of {cluster_id: value} including the Python type of ids and values."""
    if not isinstance(got, dict) or set(got) != set(exp):
        return False
    for k in got:
        if type(k) is not int:
            return False
        g, e = got[k], exp[k]
        if type(g) is not type(e) or g != e:
            return False
    return True


def cell(v):
    return repr(v) if type(v) is float else str(v)


def W(T, spike_id, channels, nsw, factor):
    """DESIGN 4/C03 spec function on the raw array written by datagen, columns through the channel map."""
    raw, cm = T['raw'], T['channel_map']
    n = raw.shape[0]
    s = int(T['spike_samples'][spike_id])
    out = np.zeros((nsw, len(channels)), dtype=np.float64)
    for k in range(nsw):
        t = s - nsw // 2 + k
        if 0 <= t < n:
            for j, ch in enumerate(channels):
                if ch != -1:
                    out[k, j] = float(raw[t, int(cm[int(ch)])]) * factor
    return out


# ----------------------------------------------------------------------------------------------------------
# case 1: the metadata codec seen through the two public functions (save_metadata ; load_metadata)
# ----------------------------------------------------------------------------------------------------------

def case_metadata_codec(inp):
    field, pairs, suffix = inp['field'], inp['pairs'], inp['suffix']
    keyf = np.int64 if inp.get('np_keys') else int
    mapping = {keyf(c): v for c, v in pairs}
    exp = {int(c): v for c, v in pairs if v is not None}     # None entries dropped
    with tempdir() as d:
        p = os.path.join(d, 'cluster_%s%s' % (field, suffix))
        _real(M.save_metadata, p, field, mapping)
        got = _real(M.load_metadata, p)
    yield '__nontrivial__', len(exp) > 0, ''
    yield 'only-the-saved-field-is-read-back', set(got) <= {field}, sorted(got)
    yield 'field-mapping-round-trips-with-value-types', same_mapping(got.get(field, {}), exp), (got, exp)


# ----------------------------------------------------------------------------------------------------------
# case 2: whole histories against the dictionary reference model
# ----------------------------------------------------------------------------------------------------------

def _real(f, *a, **kw):
    """Call into phylib.  The case functions are generators, so a StopIteration escaping from phylib (e.g. next() on
    the csv reader of an empty file) would be turned by PEP 479 into a RuntimeError whose traceback has no /repo frame
    and the driver would take it for a checker crash.  It is re-raised here with the ORIGINAL traceback so that it is
    recorded, like every other exception from /repo, as a failure of 'no-unexpected-exception'."""
    try:
        return f(*a, **kw)
    except StopIteration as e:
        raise RuntimeError('StopIteration escaped from phylib').with_traceback(e.__traceback__) from None


def _write_foreign(d, name, body):
    p = os.path.join(d, name)
    if body.get('dir'):
        os.makedirs(p, exist_ok=True)
        return
    data = bytes.fromhex(body['hex']) if 'hex' in body else body['text'].encode('utf-8')
    with open(p, 'wb') as f:
        f.write(data)


def _check_loaded(m, T, ref, step):
    ns = len(T['spike_samples'])
    sr = float(T['params']['sample_rate'])
    # --- assignments
    sc = np.asarray(m.spike_clusters)
    yield ('reload-shows-exactly-the-last-saved-assignments',
           sc.shape == (ns,) and np.array_equal(sc, ref['sc']), (step, sc.tolist(), ref['sc'].tolist()))
    # --- metadata: last saved mapping of every field, next to the foreign files' fields
    md = m.metadata
    exp_fields = {}
    for f, mp in ref['meta'].items():
        exp_fields[f] = {c: v for c, v in mp.items() if v is not None}
    for fn, fields in ref['foreign'].items():
        if fields is not None:
            for f, mp in fields.items():
                exp_fields[f] = dict(mp)
    for f in ref['meta']:
        yield ('reload-shows-last-saved-mapping-of-every-saved-field',
               same_mapping(md.get(f, {}), exp_fields[f]), (step, f, md.get(f, None), exp_fields[f]))
    for fn, fields in ref['foreign'].items():
        for f in (fields or {}):
            yield ('metadata-of-other-tsv-csv-files-shown-next-to-saved-fields',
                   same_mapping(md.get(f, {}), exp_fields[f]), (step, fn, f, md.get(f, None), exp_fields[f]))
    if not any(v is None for v in ref['foreign'].values()):
        extra = sorted(f for f in md if f not in exp_fields and md[f])
        yield 'no-metadata-field-nobody-wrote', not extra, (step, extra)
    # --- templates and times
    yield ('spike-templates-unchanged', np.array_equal(np.asarray(m.spike_templates), T['spike_templates']) and
           np.asarray(m.spike_templates).shape == (ns,), (step, np.asarray(m.spike_templates).tolist()))
    yield ('spike-samples-unchanged', np.array_equal(np.asarray(m.spike_samples), T['spike_samples']),
           (step, np.asarray(m.spike_samples).tolist()))
    exp_times = T['spike_times_file'] if 'spike_times_file' in T else T['spike_samples'] / sr
    yield ('spike-times-unchanged', np.array_equal(np.asarray(m.spike_times), exp_times),
           (step, np.asarray(m.spike_times).tolist()))
    # --- subset store
    sw = m.spike_waveforms
    if ref['store'] is None:
        yield 'no-subset-store-before-any-export', sw is None, (step, None if sw is None else sorted(sw))
        return
    yield 'subset-store-loaded-after-export', sw is not None, (step, ref['store'])
    if sw is None:
        return
    nsw = int(T['params']['nsw'])
    factor = ref['store']['factor']
    ids = np.atleast_1d(np.asarray(sw.spike_ids))
    chans = np.asarray(sw.spike_channels)
    if chans.ndim < 2:     # squeeze() of a one-spike or one-channel store
        chans = chans.reshape((len(ids), -1))
    wf = np.asarray(sw.waveforms)
    wf = wf.reshape((len(ids), nsw, chans.shape[1])) if wf.size == len(ids) * nsw * chans.shape[1] else wf
    shape_ok = wf.shape == (len(ids), nsw, chans.shape[1]) and len(ids) > 0
    ids_ok = bool(np.all((0 <= ids) & (ids < ns)))
    nch = len(T['channel_map'])
    ch_ok = bool(np.all((chans >= -1) & (chans < nch)))
    yield 'subset-store-files-mutually-consistent', shape_ok and ids_ok and ch_ok, (step, wf.shape, ids.tolist(), chans.shape)
    if not (shape_ok and ids_ok and ch_ok):
        return
    exp = np.stack([W(T, int(sid), chans[i], nsw, factor) for i, sid in enumerate(ids)])
    bad = [int(ids[i]) for i in range(len(ids)) if not np.array_equal(wf[i], exp[i])]
    yield ('subset-store-waveforms-equal-raw-data-windows', not bad,
           (step, 'spike ids with a wrong window', bad, 'first got/expected',
            (wf[list(ids).index(bad[0])].tolist(), exp[list(ids).index(bad[0])].tolist()) if bad else None))
    # lookup through the public accessor of the freshly loaded model
    for i in sorted({0, len(ids) // 2, len(ids) - 1}):
        valid = sorted({int(c) for c in chans[i] if c != -1})
        if not valid:
            continue
        got = m.get_waveforms(np.array([ids[i]]), np.array(valid))
        e = W(T, int(ids[i]), valid, nsw, factor)
        yield ('model-get_waveforms-from-store-equals-raw-data-window',
               got is not None and got.shape == (1, nsw, len(valid)) and np.array_equal(got[0], e),
               (step, int(ids[i]), valid, None if got is None else got.tolist(), e.tolist()))


def case_history(inp):
    ds = {k: v for k, v in inp['ds'].items()}
    ops = inp['ops']
    with tempdir() as d:
        T = make_dataset(d, **ds)
        alf = T['params']['names'] == 'alf'
        sc_file = 'spikes.clusters.npy' if alf else 'spike_clusters.npy'
        params = os.path.join(d, 'params.py')
        ref = {'sc': np.asarray(T['spike_clusters'] if 'spike_clusters' in T else T['spike_templates']).astype(np.int64),
               'meta': {}, 'foreign': {}, 'store': None}
        frozen = digest(d)      # every file of the generated dataset
        mutable = {sc_file}
        snap = frozen
        m = _real(M.load_model, params)
        after = digest(d)
        yield 'load-leaves-existing-files-byte-identical', not modified(snap, after, ()), ('initial', modified(snap, after, ()))
        snap = after
        closed = False
        fresh = True
        for step, op in enumerate(list(ops) + [['reload', 'final']]):
            kind = op[0]
            allowed = ()
            if kind == 'sc':
                arr = np.asarray(op[1], dtype=op[2])
                _real(m.save_spike_clusters, arr)
                ref['sc'] = np.asarray(op[1], dtype=np.int64)
                allowed = (sc_file,)
                on_disk = np.load(os.path.join(d, sc_file))
                yield ('saved-assignments-are-on-disk', np.array_equal(on_disk.squeeze(), ref['sc']),
                       (step, on_disk.tolist()))
                fresh = False
            elif kind == 'md':
                field, pairs = op[1], op[2]
                keyf = np.int64 if (len(op) > 3 and op[3] == 'np') else int
                _real(m.save_metadata, field, {keyf(c): v for c, v in pairs})
                ref['meta'][field] = {int(c): v for c, v in pairs}
                allowed = ('cluster_%s.tsv' % field,)
                mutable.add(allowed[0])
                fresh = False
            elif kind == 'foreign':
                name, body, expected = op[1], op[2], op[3]
                _write_foreign(d, name, body)
                ref['foreign'][name] = None if expected is None else \
                    {f: {int(c): v for c, v in prs} for f, prs in expected.items()}
                mutable.add(name)
                snap = digest(d)
                fresh = False
                continue
            elif kind == 'sw':
                if closed:
                    raise ValueError('harness: export on a closed model is outside the scope')
                nst, mnc, s2u = op[1], op[2], op[3]
                kw = {}
                if mnc is not None:
                    kw['max_n_channels'] = mnc
                if s2u is not None:
                    kw['sample2unit'] = s2u
                _real(m.save_spikes_subset_waveforms, max_n_spikes_per_template=nst, **kw)
                if T['params']['raw']:
                    ref['store'] = {'factor': 1.0 if s2u is None else s2u, 'nst': nst, 'mnc': mnc}
                    exist = [os.path.exists(os.path.join(d, f)) for f in STORE]
                    yield 'export-writes-the-three-store-files-together', all(exist), (step, exist)
                allowed = STORE
                mutable.update(STORE)
                fresh = False
            elif kind == 'close':
                _real(m.close)
                closed = True
                fresh = False
            elif kind == 'reload':
                if fresh and len(op) > 1:
                    continue        # the final reload right after a checked reload adds nothing
                m = _real(M.load_model, params)
                closed = False
                yield from _check_loaded(m, T, ref, step)
                fresh = True
            else:
                raise ValueError('harness: unknown op %r' % (kind,))
            after = digest(d)
            mod = modified(snap, after, allowed)
            yield ('operation-leaves-all-other-existing-files-byte-identical', not mod, (step, kind, mod))
            snap = after
        # the generated dataset itself (times, templates, raw data, parameters ...) never changed
        final = digest(d)
        changed = sorted(n for n in frozen if n not in mutable and final.get(n) != frozen[n])
        yield 'dataset-files-never-touched-by-the-history', not changed, changed
        m.close()


CASES = {'metadata_codec': case_metadata_codec, 'history': case_history}


# ----------------------------------------------------------------------------------------------------------
# failures of the unchanged tree that are already recorded (DESIGN section 6, rows 2 and 3: both are C03 defects of
# phylib/io/traces.py reached here through save_spikes_subset_waveforms).  Decided from the INPUT only.
# ----------------------------------------------------------------------------------------------------------

def _exports(inp):
    return bool(inp['ds'].get('raw')) and any(op[0] == 'sw' for op in inp['ops'])


def _known_unsigned_near_start(case, clause, inp):
    # an unsigned spike sample s < nsw//2 wraps in `sample - a` inside _extract_waveform; the read at the
    # wrapped offset raises from the export
    ds = inp.get('ds', {})
    return (case == 'history' and clause == 'no-unexpected-exception' and _exports(inp) and
            str(ds.get('times_dtype', 'uint64')).startswith('uint') and
            ds.get('spike_samples') is not None and any(s < ds.get('nsw', 6) // 2 for s in ds['spike_samples']))


def _known_float32_export(case, clause, inp):
    # export_waveforms declares float64 but writes float32 bytes for float32 traces x Python scalar (NEP 50):
    # the store file cannot be loaded, so the freshly loaded model has no store
    ds = inp.get('ds', {})
    return (case == 'history' and clause == 'subset-store-loaded-after-export' and _exports(inp) and
            (ds.get('raw') or {}).get('dtype') == 'float32')


KNOWN_CLASSES = {
    'C03-unsigned-spike-sample-within-half-window-of-start': _known_unsigned_near_start,
    'C03-export-declares-float64-writes-float32': _known_float32_export,
}


# ----------------------------------------------------------------------------------------------------------
# scope
# ----------------------------------------------------------------------------------------------------------

INTS = [0, 1, -1, 7, 255, -40, 65536, 10 ** 12, 2 ** 70, -2 ** 63]
FLOATS = [0.5, -0.25, 1.0, 3.0, -2.0, 1e-07, 1e+22, 1e+16, 0.1, 123456.789, 1.7976931348623157e+308, 5e-324, -0.0,
          2.5e-05, 100.0]
STRINGS = ['good', 'mua', 'noise', 'unsorted', 'a b', 'x,y', 'x\ty', 'say "hi"', "it's", '"', '""', ',', 'é', '日本',
           ' lead', 'trail ', ' both ', '-', '+', '.', 'e', '1e', '0x1f', '1,5', '1 2', 'None', 'True', 'nan?', '#', 'a;b',
           'a=b', '12abc', 'abc12', '1.2.3', '--1', '1e+', 'Inf.', 'good\\n', "'", 'cluster_id', 'group', 'x' * 300]
assert all(value_ok(v) for v in INTS + FLOATS + STRINGS)
KEYS = [0, 1, 9, 10, 100, 65535, 2 ** 31]

ST = [0, 1, 2, 0, 1, 2, 2, 1, 0, 0]                 # spike templates of the base dataset (3 templates, all used)
SAMPLES_EDGE = [0, 2, 3, 10, 10, 25, 31, 40, 57, 59]    # spikes at 0, within nsw//2 of both ends, a tie
SAMPLES_IN = [3, 5, 8, 10, 10, 25, 31, 40, 57, 59]      # no spike within nsw//2 of the start


def base_ds(**kw):
    ds = dict(seed=1, n_spikes=10, n_templates=3, n_channels=4, nsw=6, sample_rate=100.0,
              spike_samples=list(SAMPLES_EDGE), spike_templates=list(ST), times_dtype='int64',
              raw=dict(n_samples=60, n_channels_dat=5, dtype='int16', offset=0, n_files=1), channel_map=[3, 0, 4, 1])
    ds.update(kw)
    return ds


def reassignments(st, nt, rng):
    st = list(st)
    r0 = [nt if t in (0, 1) else t for t in st]                                  # merge 0+1 -> new id (gaps at 0, 1)
    r1, k = [], 0
    for t in st:                                                                 # split the last template in two
        if t == nt - 1:
            r1.append(nt + 1 + (k % 2)); k += 1
        else:
            r1.append(t)
    r2 = [rng.randrange(0, nt + 3) for _ in st]                                  # arbitrary relabelling
    r3 = list(st)                                                                # back to the templates
    r4 = [1000] * len(st)                                                        # everything in one (high) cluster id
    return [r0, r1, r2, r3, r4]


GROUP = [
    [[0, 'good'], [1, 'mua'], [2, None], [5, 'noise']],
    [[1, 'good'], [3, 'x,y'], [4, 'say "hi"']],            # ids 0 and 5 gone: overwrite, not merge
    [[2, None], [0, None]],                                # everything dropped
    [[0, 'a b'], [7, 'é'], [12, ' lead '], [3, 'unsorted']],
]
QUALITY = [
    [[0, 3], [1, 2.5], [4, -1], [2, 1e-07], [3, 0]],
    [[3, 7.0], [0, 10 ** 12], [1, None], [6, -0.125], [2, 0.0]],     # 7.0 / 0.0 must stay floats, 0 is not None
    [[0, 'good'], [1, 3], [2, 1.5]],                       # mixed types in one field
]


def _table(delim, header, rows, eol='\n'):
    return eol.join([delim.join(header)] + [delim.join(r) for r in rows]) + eol


FOREIGN_VALID = [
    # (file name, text, expected {field: pairs})
    ('cluster_KSLabel.tsv', _table('\t', ['cluster_id', 'KSLabel'], [['0', 'good'], ['1', 'mua'], ['4', 'good']]),
     {'KSLabel': [[0, 'good'], [1, 'mua'], [4, 'good']]}),
    # two fields, comma separated, empty cells (dropped), CRLF line ends
    ('extra.csv', _table(',', ['cluster_id', 'Amplitude', 'ContamPct'],
                         [['0', '12.5', '3'], ['2', '', '100.0'], ['3', '7.25', ''], ['11', '13.5', '4']], eol='\r\n'),
     {'Amplitude': [[0, 12.5], [3, 7.25], [11, 13.5]], 'ContamPct': [[0, 3], [2, 100.0], [11, 4]]}),
    # the id column is not the first one, no trailing newline
    ('cluster_depth.tsv', _table('\t', ['depth', 'cluster_id'], [['10.0', '2'], ['-35.5', '0']]).rstrip('\n'),
     {'depth': [[2, 10.0], [0, -35.5]]}),
    # overwrite of the first foreign file by its producer
    ('cluster_KSLabel.tsv', _table('\t', ['cluster_id', 'KSLabel'], [['0', 'mua'], ['2', 'good']]),
     {'KSLabel': [[0, 'mua'], [2, 'good']]}),
    # a table without id column says nothing about clusters
    ('notes.csv', _table(',', ['what', 'who'], [['checked', 'me']]), {}),
]

MALFORMED = [
    ('bad_empty.tsv', {'text': ''}),
    ('bad_binary.csv', {'hex': 'fffe009f090a80c3280a'}),
    ('bad_ragged.tsv', {'text': 'cluster_id\tz1\n1\n2\ta\tb\tc\n\n3\tq\n'}),
    ('bad_header_only.csv', {'text': 'cluster_id,z2\n'}),
    ('bad_dir.tsv', {'dir': True}),
    ('bad_quote.tsv', {'text': 'cluster_id\tz3\n1\t"abc\n2\tdef\n'}),
    ('bad_nul.csv', {'hex': '636c75737465725f69642c7a340a312c000a'}),
    ('bad_blank.tsv', {'text': '\n\n\n'}),
    ('bad_ids.csv', {'text': 'cluster_id,z5\nabc,1\n,2\n1.5,3\n'}),
    ('bad_long.tsv', {'text': 'cluster_id\tz6\n1\t' + 'y' * 140000 + '\n'}),
    ('bad_dup.tsv', {'text': 'cluster_id\tcluster_id\tz7\n1\t2\t3\n'}),
    ('bad_nl.csv', {'text': '\r\r\ncluster_id\r'}),
]

EXPORTS = [[100, None, None], [2, 14, 2.5], [1, None, 0.5], [3, 13, 1.0]]

ALPHABET = ['sc', 'mdA', 'mdB', 'fv', 'fm', 'sw', 'close', 'reload']


def word_ok(word):
    closed = False
    for w in word:
        if w == 'sw' and closed:
            return False        # export needs an open model
        if w == 'close':
            closed = True
        if w == 'reload':
            closed = False
    return word[-1] != 'reload'  # a final reload is always appended


def concretise(word, ds, rng, shift=0):
    """Letters -> concrete operations; the k-th occurrence of a letter takes the k-th argument of its list."""
    cnt = {}
    R = reassignments(ds['spike_templates'], ds['n_templates'], rng)
    dts = ['int32', 'int64', 'uint32']
    ops = []
    for w in word:
        k = cnt.get(w, 0) + shift
        cnt[w] = cnt.get(w, 0) + 1
        if w == 'sc':
            ops.append(['sc', R[k % len(R)], dts[k % 3]])
        elif w == 'mdA':
            ops.append(['md', 'group', GROUP[k % len(GROUP)]] + (['np'] if k % 2 else []))
        elif w == 'mdB':
            ops.append(['md', 'quality', QUALITY[k % len(QUALITY)]])
        elif w == 'fv':
            n, t, e = FOREIGN_VALID[k % len(FOREIGN_VALID)]
            ops.append(['foreign', n, {'text': t}, e])
        elif w == 'fm':
            n, b = MALFORMED[k % len(MALFORMED)]
            ops.append(['foreign', n, b, None])
        elif w == 'sw':
            ops.append(['sw'] + EXPORTS[k % len(EXPORTS)])
        else:
            ops.append([w])
    return ops


def words(maxlen):
    for n in range(1, maxlen + 1):
        for word in itertools.product(ALPHABET, repeat=n):
            if word_ok(word):
                yield word


VARIANTS = [
    ('ALF file names', dict(names='alf', spike_clusters='same')),
    ('(n,1) column vectors, spike_clusters present', dict(colvec=True, spike_clusters='same')),
    ('sparse templates', dict(sparse_templates=True)),
    ('no raw data (export is a no-op)', dict(raw=None, channel_map=None)),
    ('raw data in 2 files with a header offset', dict(raw=dict(n_samples=60, n_channels_dat=6, dtype='int16', offset=8, n_files=2),
                                                       channel_map=[5, 0, 2, 1])),
    ('already curated spike_clusters', dict(spike_clusters=[4, 4, 2, 0, 4, 2, 3, 4, 0, 0])),
    ('unused top template, int32 ids', dict(n_templates=4, ids_dtype='int32')),
    ('uint64 spike times away from the start', dict(times_dtype='uint64', spike_samples=list(SAMPLES_IN))),
    ('uint32 spike times away from the start, float64 raw', dict(times_dtype='uint32', spike_samples=list(SAMPLES_IN),
                                                                raw=dict(n_samples=60, n_channels_dat=4, dtype='float64', offset=0, n_files=1),
                                                                channel_map=[0, 1, 2, 3])),
    ('uint64 spike times within nsw//2 of the start', dict(times_dtype='uint64')),
    ('chunk length 30 samples (2 chunks)', dict(sample_rate=0.05)),
    ('chunk length 2 samples (30 chunks, 20 kept)', dict(sample_rate=0.0025)),
    ('float32 raw data', dict(raw=dict(n_samples=60, n_channels_dat=5, dtype='float32', offset=0, n_files=1))),
]

VARIANT_WORDS = [('sw',), ('sc', 'sw'), ('sc', 'mdA', 'reload', 'sw', 'close'), ('sw', 'sc', 'close', 'reload', 'mdB', 'sw'),
                 ('fv', 'mdA', 'fm', 'sc', 'close', 'reload', 'sc', 'mdA'), ('mdA', 'mdB', 'mdA', 'reload', 'sc', 'sc')]


def enumerate_cases(ctx):
    quick = ctx.tier == 'quick'
    rng = ctx.rng

    # -- codec
    ctx.scope('metadata codec (save_metadata ; load_metadata), .tsv and .csv: every value of a fixed alphabet of %d ints, '
              '%d floats, %d non-numeric strings alone and next to two others, ids from %s, None entries, Python/NumPy int ids'
              % (len(INTS), len(FLOATS), len(STRINGS), KEYS))
    vals = INTS + FLOATS + STRINGS
    for suffix in ('.tsv', '.csv'):
        for i, v in enumerate(vals):
            ctx.run('metadata_codec', {'field': 'group', 'pairs': [[KEYS[i % len(KEYS)], v]], 'suffix': suffix})
            ctx.run('metadata_codec', {'field': 'q', 'pairs': [[3, vals[(i * 7 + 1) % len(vals)]], [0, v], [12, None],
                                                                 [2 ** 31, vals[(i * 5 + 2) % len(vals)]]],
                                       'suffix': suffix, 'np_keys': bool(i % 2)})
        ctx.run('metadata_codec', {'field': 'group', 'pairs': [], 'suffix': suffix})
        ctx.run('metadata_codec', {'field': 'group', 'pairs': [[1, None]], 'suffix': suffix})
    if not quick:
        for _ in range(1500):
            n = rng.randrange(1, 7)
            ids = rng.sample(range(0, 40), n)
            pairs = [[c, rng.choice(vals + [None])] for c in ids]
            ctx.run('metadata_codec', {'field': rng.choice(['group', 'quality', 'my label', 'x-y']), 'pairs': pairs,
                                       'suffix': rng.choice(['.tsv', '.csv']), 'np_keys': rng.random() < .3})

    # -- all interleavings
    L = 3 if quick else 4
    ds = base_ds()
    ctx.scope('histories: ALL words of length <= %d over %s (k-th occurrence of a letter uses its k-th argument: %d '
              'reassignments incl. merge/split/relabel/identity, %d+%d field mappings, %d foreign valid files, %d malformed '
              'files, %d export settings), export only on an open model, checked after every reload and after a final reload; '
              'KS dataset: 10 spikes (signed times, at 0, within nsw//2 of both ends, one tie), 3 dense templates, int16 raw '
              'with 5 columns behind a permuted 4-channel map, no spike_clusters file at the start'
              % (L, ALPHABET, 5, len(GROUP), len(QUALITY), len(FOREIGN_VALID), len(MALFORMED), len(EXPORTS)))
    for word in words(L):
        ctx.run('history', {'ds': ds, 'ops': concretise(word, ds, rng)})

    # -- every malformed kind and every foreign file, between two saves
    ctx.scope('every malformed / foreign file kind alone: [mdA, file, reload, mdB, sc] for %d malformed and %d valid files'
              % (len(MALFORMED), len(FOREIGN_VALID)))
    for n, b in MALFORMED:
        ctx.run('history', {'ds': ds, 'ops': [['md', 'group', GROUP[0]], ['foreign', n, b, None], ['reload'],
                                              ['md', 'quality', QUALITY[0]], ['sc', reassignments(ST, 3, rng)[0], 'int32']]})
    for n, t, e in FOREIGN_VALID:
        ctx.run('history', {'ds': ds, 'ops': [['md', 'group', GROUP[0]], ['foreign', n, {'text': t}, e], ['reload'],
                                              ['md', 'quality', QUALITY[0]], ['sc', reassignments(ST, 3, rng)[1], 'int64']]})
    allbad = [['foreign', n, b, None] for n, b in MALFORMED]
    ctx.run('history', {'ds': ds, 'ops': allbad + [['md', 'group', GROUP[1]], ['close'], ['reload'], ['sw'] + EXPORTS[0]]})

    # -- dataset layouts
    ctx.scope('dataset layouts x %d fixed histories (length 1..8): %s' % (len(VARIANT_WORDS), [v[0] for v in VARIANTS]))
    for name, kw in VARIANTS:
        dsv = base_ds(**kw)
        for i, word in enumerate(VARIANT_WORDS):
            if quick and i in (2, 5):
                continue
            ctx.run('history', {'ds': dsv, 'ops': concretise(word, dsv, rng, shift=i)})

    # -- longer random histories, random datasets
    n_rand = 60 if quick else 1200
    ctx.scope('%d seeded random histories of length 5..10 (same alphabet, random argument choice) on random datasets '
              '(8..14 spikes, 2..4 templates, 3..5 channels, nsw 4..7, signed spike times anywhere in a 50..90-sample '
              'int16/float64 recording of 1..3 files)' % n_rand)
    for _ in range(n_rand):
        ns, nt, nc = rng.randrange(8, 15), rng.randrange(2, 5), rng.randrange(3, 6)
        nrec = rng.randrange(50, 91)
        ncd = nc + rng.randrange(0, 3)
        st = [rng.randrange(0, nt) for _ in range(ns)]
        st[:nt] = range(nt)
        dsr = dict(seed=rng.randrange(0, 1000), n_spikes=ns, n_templates=nt, n_channels=nc, nsw=rng.randrange(4, 8),
                   sample_rate=rng.choice([100.0, 30000.0, 2500.0]), spike_templates=st,
                   spike_samples=sorted(rng.choice([0, 1, 2, nrec - 1, nrec - 2] + list(range(nrec))) for _ in range(ns)),
                   times_dtype=rng.choice(['int64', 'int32']), ids_dtype=rng.choice(['uint32', 'int32', 'int64']),
                   raw=dict(n_samples=nrec, n_channels_dat=ncd, dtype=rng.choice(['int16', 'float64']),
                            offset=rng.choice([0, 16]), n_files=rng.randrange(1, 4)),
                   channel_map=rng.sample(range(ncd), nc), colvec=rng.random() < .3,
                   spike_clusters=rng.choice([None, 'same']), sparse_templates=rng.random() < .2)
        while True:
            word = tuple(rng.choice(ALPHABET) for _ in range(rng.randrange(5, 11)))
            if word_ok(word):
                break
        ctx.run('history', {'ds': dsr, 'ops': concretise(word, dsr, rng, shift=rng.randrange(0, 12))})
