# C19 — event dispatch follows registration order, sender filters and silencing; a progress reporter
# announces completion exactly once per crossing.  Bounded stand-in (tier B): the per-operation
# contracts of DESIGN 4/C19 evaluated on the REAL EventEmitter / ProgressReporter over explored
# operation histories, against a reference model (the abstract view V = list of registrations,
# a silencing depth/flag, and the reporter ghost "armed") written from the property statement.
#
# Readings (DESIGN Appendix G): callbacks never call back into the emitter; sender equality is `==`;
# `reset()` of a reporter is not a value update; set_silent() is only used outside silent() contexts
# (what set_silent inside a context means afterwards is not fixed by the statement).  The value emit
# returns while silenced, and the value returned for single=True when no callback matches, are not
# fixed by the statement and are not checked.
import functools, re

from phylib.utils import event as E

CONTRACTED = ['phylib/utils/event.py::EventEmitter.__init__', 'phylib/utils/event.py::EventEmitter.reset',
              'phylib/utils/event.py::EventEmitter.set_silent', 'phylib/utils/event.py::EventEmitter.silent',
              'phylib/utils/event.py::EventEmitter.connect', 'phylib/utils/event.py::EventEmitter.unconnect',
              'phylib/utils/event.py::EventEmitter.emit', 'phylib/utils/event.py::EventEmitter._get_on_name',
              'phylib/utils/event.py::ProgressReporter.__init__', 'phylib/utils/event.py::ProgressReporter._set_value',
              'phylib/utils/event.py::ProgressReporter.increment', 'phylib/utils/event.py::ProgressReporter.reset',
              'phylib/utils/event.py::ProgressReporter.value', 'phylib/utils/event.py::ProgressReporter.value_max',
              'phylib/utils/event.py::ProgressReporter.set_complete']

EVENTS = ('e0', 'e0_x')     # one event name is a prefix of the other and contains an underscore
SENDER_NAME = {'s0': 'a', 's0b': 'a', 's1': 'b', 's2': 'c'}   # s0b: a distinct object that == s0
N_CALLBACKS = 5


def nat(k):
    """The event callback k is named after (`on_<event>`): needed by the connect-by-name styles."""
    return EVENTS[k % 2]


class Sender(object):
    def __init__(self, name, falsy=False):
        self.name, self.falsy = name, falsy

    def __eq__(self, other):
        return isinstance(other, Sender) and other.name == self.name

    def __ne__(self, other):
        return not self.__eq__(other)

    def __hash__(self):
        return hash(self.name)

    def __bool__(self):           # s1 is falsy: a sender filter that is falsy is still a filter
        return not self.falsy

    def __repr__(self):
        return '<S %s>' % self.name


class World(object):
    """The harness objects of one history: senders, callbacks (plain functions, bound methods of one
    owner object, a functools.partial) and the log of the calls they receive."""

    def __init__(self):
        self.senders = {'s0': Sender('a'), 's0b': Sender('a'), 's1': Sender('b', falsy=True), 's2': Sender('c')}
        self.log = []
        self.counts = {}
        world = self

        class Owner(object):
            def on_e0(self, sender, *args, **kwargs):
                return world.called(2, sender, args, kwargs)

            def on_e0_x(self, sender, *args, **kwargs):
                return world.called(3, sender, args, kwargs)
        self.owner = Owner()
        self._plain = {}

    def result(self, k, n):
        if k == 0:
            return None
        if k == 1:
            return n          # first result of c1 is 0 (falsy)
        return 'r%d.%d' % (k, n)

    def called(self, k, sender, args, kwargs):
        n = self.counts.get(k, 0)
        self.counts[k] = n + 1
        self.log.append((k, sender, args, kwargs))
        return self.result(k, n)

    def callback(self, k):
        if k in (2, 3):
            return getattr(self.owner, 'on_' + nat(k))     # a NEW bound-method object at each access
        if k not in self._plain:
            world = self
            if k == 4:
                def rec(kk, sender, *args, **kwargs):
                    return world.called(kk, sender, args, kwargs)
                self._plain[k] = functools.partial(rec, 4)
            else:
                def f(sender, *args, **kwargs):
                    return world.called(k, sender, args, kwargs)
                f.__name__ = 'on_' + nat(k)
                self._plain[k] = f
        return self._plain[k]

    def sender(self, tok):
        return None if tok is None else self.senders[tok]

    def target(self, tok):
        if tok == 'o':
            return self.owner
        if tok[0] == 'c':
            return self.callback(int(tok[1:]))
        return self.senders[tok]


class _Api(object):
    """Either a fresh EventEmitter or the module-level functions (bound to the global emitter)."""

    def __init__(self, use_global):
        if use_global:
            E.reset()
            E.set_silent(False)
            self.connect, self.unconnect, self.emit = E.connect, E.unconnect, E.emit
            self.silent, self.set_silent, self.reset = E.silent, E.set_silent, E.reset
        else:
            em = E.EventEmitter()
            self.connect, self.unconnect, self.emit = em.connect, em.unconnect, em.emit
            self.silent, self.set_silent, self.reset = em.silent, em.set_silent, em.reset


PROBE_ARGS = [((), {}), ((1,), {'key': 2}), (([1, 2], 'a'), {}), ((None,), {'key': [3], 'x': 'y'})]


def _build(v):
    """JSON value -> fresh python objects (lists stay lists: identity is checked on receipt)."""
    return v


def case_emitter(inp):
    ops = inp['ops']
    probe = inp.get('probe', True)
    probe_senders = inp.get('probe_senders', ['s0', 's1'])
    probe_events = inp.get('probe_events', list(EVENTS))
    w = World()
    api = _Api(bool(inp.get('global', False)))
    reg = []            # the view V: [event, filter token or None, callback index, last?]
    depth, flag = 0, False
    stack = []
    acc = {}
    state = {'i': 0}

    def note(name, ok, detail):
        cur = acc.get(name)
        if cur is None:
            acc[name] = [bool(ok), None if ok else detail]
        elif not ok and cur[0]:
            acc[name] = [False, detail]

    def do_emit(ev, stok, args, kwargs, single, where):
        sobj = w.sender(stok)
        args = tuple(args)
        kw = dict(kwargs)
        if single is not None:
            kw['single'] = single
        del w.log[:]
        counts0 = dict(w.counts)
        ret = api.emit(ev, sobj, *args, **kw)
        calls = list(w.log)
        got = [c[0] for c in calls]
        ctxt = (where, ev, stok, single)
        if depth > 0 or flag:
            note('calls-nothing-while-silenced[ctx=%d,set_silent=%d]' % (depth, int(flag)), got == [], (ctxt, got))
            return
        sname = SENDER_NAME.get(stok)
        match = [r for r in reg if r[0] == ev and (r[1] is None or SENDER_NAME[r[1]] == sname)]
        order = [r[2] for r in match if not r[3]] + [r[2] for r in match if r[3]]
        if single:
            exp_calls = order[:1]
        else:
            exp_calls = order
        if single:
            note('single-request-calls-only-the-first-callback', got == exp_calls, (ctxt, got, exp_calls))
        else:
            note('calls-exactly-the-registered-matching-callbacks', sorted(got) == sorted(exp_calls), (ctxt, got, exp_calls))
            if sorted(got) == sorted(exp_calls):
                note('registration-order-with-last-callbacks-after-all-others', got == exp_calls, (ctxt, got, exp_calls))
        okargs = all(c[1] is sobj and len(c[2]) == len(args) and all(x is y for x, y in zip(c[2], args)) and
                     set(c[3]) == set(kwargs) and all(c[3][n] is kwargs[n] for n in kwargs) for c in calls)
        note('passes-sender-and-arguments-through-unchanged', okargs, (ctxt, [(c[0], repr(c[1]), c[2], c[3]) for c in calls]))
        if got == exp_calls:
            # results the callbacks produced, in call order (per-callback call counters)
            cnt = dict(counts0)
            exp_res = []
            for k in exp_calls:
                n = cnt.get(k, 0)
                cnt[k] = n + 1
                exp_res.append(w.result(k, n))
            if single:
                if exp_calls:
                    r0 = exp_res[0]
                    note('single-request-returns-only-the-first-result', type(ret) is type(r0) and ret == r0, (ctxt, repr(ret), repr(r0)))
            else:
                note('returns-results-in-call-order', isinstance(ret, list) and len(ret) == len(exp_res) and
                     all(type(a) is type(b) and a == b for a, b in zip(ret, exp_res)), (ctxt, repr(ret), exp_res))

    def probes(where):
        if not probe:
            return
        for ev in probe_events:
            for stok in probe_senders:
                for single in (None, True):
                    a, k = PROBE_ARGS[state['i'] % len(PROBE_ARGS)]
                    state['i'] += 1
                    do_emit(ev, stok, [_build(x) for x in a], {n: _build(v) for n, v in k.items()}, single, where)

    probes(-1)
    for i, op in enumerate(ops):
        kind = op[0]
        if kind == 'connect':
            _, k, ev, filt, last, style = op
            f = w.callback(k)
            kw = {} if last is None else {'last': last}
            if style in ('name', 'deco_name'):
                if ev != nat(k) or k == 4:
                    raise ValueError('harness: by-name style needs the callback to be named after the event')
            if style == 'explicit':
                api.connect(f, event=ev, sender=w.sender(filt), **kw)
            elif style == 'name':
                if filt is None and not kw:
                    api.connect(f)
                else:
                    api.connect(f, sender=w.sender(filt), **kw)
            elif style == 'deco':
                api.connect(event=ev, sender=w.sender(filt), **kw)(f)
            elif style == 'deco_name':
                if filt is None and not kw:
                    api.connect()(f)
                else:
                    api.connect(sender=w.sender(filt), **kw)(f)
            else:
                raise ValueError('harness: unknown style %r' % (style,))
            reg.append([ev, filt, k, bool(last)])
        elif kind == 'unconnect':
            toks = op[1]
            api.unconnect(*[w.target(t) for t in toks])
            ks = set(int(t[1:]) for t in toks if t[0] == 'c')
            if 'o' in toks:
                ks |= {2, 3}
            names = set(SENDER_NAME[t] for t in toks if t[0] == 's')
            reg = [r for r in reg if r[2] not in ks and not (r[1] is not None and SENDER_NAME[r[1]] in names)]
        elif kind == 'reset':
            api.reset()
            reg = []
        elif kind == 'set_silent':
            if depth > 0:
                raise ValueError('harness: set_silent inside a silent() context is outside the adopted reading')
            api.set_silent(bool(op[1]))
            flag = bool(op[1])
        elif kind == 'enter':
            cm = api.silent()
            cm.__enter__()
            stack.append(cm)
            depth += 1
        elif kind == 'exit':
            stack.pop().__exit__(None, None, None)
            depth -= 1
        elif kind == 'emit':
            _, ev, stok, args, kwargs, single = op
            do_emit(ev, stok, [_build(x) for x in args], {n: _build(v) for n, v in kwargs.items()}, single, i)
            continue
        else:
            raise ValueError('harness: unknown op %r' % (op,))
        probes(i)
    # every context is left at the end of the history
    while stack:
        stack.pop().__exit__(None, None, None)
        depth -= 1
        probes(len(ops))
    if inp.get('global', False):
        E.reset()
        E.set_silent(False)
    for name in sorted(acc):
        yield name, acc[name][0], acc[name][1]
    yield '__nontrivial__', bool(ops), ''


# ----------------------------------------------------------------------------------------------
# progress reporter
# ----------------------------------------------------------------------------------------------

def _reporter_model(ops, n):
    """Reference model written from the statement.  Yields per op (reporter, expected, tag).
    Three ghosts "completion may be announced" are kept, one per reading of the statement:
      A  reset() is not a value update (Appendix G); reset(value_max=m) with m above the maximum raises the maximum;
      B  reset() sets the value (to 0), hence below any positive maximum;
      C  as A, but only the value_max setter counts as raising the maximum (what the code does).
    On an update that reaches the maximum: A == B decides `expected` (tag 'exact'); A != B means the
    statement does not decide (tag 'open': at most one announcement is demanded).  Where A == B == armed
    but C is not, the maximum was raised by reset(value_max=...) since the last announcement with no
    value below it set since: expected 1 under every reading of the statement (tag 'raised-by-reset')."""
    st = [{'v': 0, 'm': 0, 'A': True, 'B': True, 'C': True} for _ in range(n)]
    out = []
    for op in ops:
        s = st[op[0]]
        kind = op[1]
        exp, tag = 0, 'exact'
        if kind in ('inc', 'set', 'complete'):
            v = s['v'] + 1 if kind == 'inc' else (op[2] if kind == 'set' else s['m'])
            if v < s['m']:
                s['A'] = s['B'] = s['C'] = True              # value set below the maximum
            s['v'] = v
            if v >= s['m']:                                  # the update reaches the maximum
                if s['A'] != s['B']:
                    exp, tag = 1, 'open'
                else:
                    exp = 1 if s['A'] else 0
                    if s['A'] and not s['C']:
                        tag = 'raised-by-reset'
                s['A'] = s['B'] = s['C'] = False
        elif kind == 'max':
            if op[2] > s['m']:
                s['A'] = s['B'] = s['C'] = True              # the maximum was raised
            s['m'] = op[2]
        elif kind == 'reset':
            s['v'] = 0
            if len(op) > 2 and op[2] is not None:
                if op[2] > s['m']:
                    s['A'] = s['B'] = True                   # raised (C: not through the setter)
                s['m'] = op[2]
            if 0 < s['m']:
                s['B'] = True                                # reading B: the value is now below the maximum
        else:
            raise ValueError('harness: unknown reporter op %r' % (op,))
        out.append((op[0], exp, tag))
    return out


def case_reporter(inp):
    ops, n = inp['ops'], inp.get('n', 1)
    usekw = inp.get('kw', False)
    E.reset()
    E.set_silent(False)
    heard = []

    def listener(sender, **kwargs):
        heard.append((sender, kwargs))
    E.connect(listener, event='complete')
    prs = [E.ProgressReporter() for _ in range(n)]
    model = _reporter_model(ops, n)
    acc = {}

    def note(name, ok, detail):
        cur = acc.get(name)
        if cur is None:
            acc[name] = [bool(ok), None if ok else detail]
        elif not ok and cur[0]:
            acc[name] = [False, detail]

    for i, (op, (r, exp, tag)) in enumerate(zip(ops, model)):
        pr = prs[r]
        del heard[:]
        kind = op[1]
        kw = {'tag': i} if usekw else {}
        if kind == 'inc':
            pr.increment(**kw)
        elif kind == 'set':
            pr.value = op[2]
        elif kind == 'complete':
            pr.set_complete(**kw)
        elif kind == 'max':
            pr.value_max = op[2]
        elif kind == 'reset':
            if len(op) > 2 and op[2] is not None:
                pr.reset(value_max=op[2])
            else:
                pr.reset()
        mine = sum(1 for s, _ in heard if s is pr)
        others = len(heard) - mine
        if tag == 'raised-by-reset':
            note('announces-completion-when-maximum-was-raised-by-reset', mine == 1, (i, op, mine))
        elif tag == 'open':
            note('announces-at-most-once-per-crossing', mine <= 1, (i, op, mine, '<=1'))
        else:
            if exp:
                note('announces-completion-when-update-reaches-maximum-unannounced', mine >= 1, (i, op, mine))
            note('announces-at-most-once-per-crossing', mine <= exp, (i, op, mine, exp))
        note('no-announcement-from-a-reporter-not-updated', others == 0, (i, op, others))
    E.reset()
    for name in sorted(acc):
        yield name, acc[name][0], acc[name][1]
    yield '__nontrivial__', bool(ops), ''


CASES = {'emitter': case_emitter, 'reporter': case_reporter}


# ----------------------------------------------------------------------------------------------
# known classes (decided from the input)
# ----------------------------------------------------------------------------------------------

def _silence_states(inp):
    """(contexts, set_silent) at every point of the history where an emit/probe takes place."""
    depth, flag = 0, False
    pts = set()
    probe = inp.get('probe', True)
    if probe:
        pts.add((depth, flag))
    for op in inp['ops']:
        if op[0] == 'enter':
            depth += 1
        elif op[0] == 'exit':
            depth -= 1
        elif op[0] == 'set_silent':
            flag = bool(op[1])
        if op[0] == 'emit' or probe:
            pts.add((depth, flag))
    while depth > 0:
        depth -= 1
        if probe:
            pts.add((depth, flag))
    return pts


def _known_silent_reentered(case, clause, inp):
    """silent() entered while the emitter is already silenced (nested contexts, or after
    set_silent(True)): the real context manager toggles instead of saving/restoring, so with an even
    number (>= 2) of silencing layers the emitter is audible."""
    if case != 'emitter':
        return False
    m = re.match(r'^calls-nothing-while-silenced\[ctx=(\d+),set_silent=(\d)\]$', clause)
    if not m:
        return False
    d, f = int(m.group(1)), int(m.group(2))
    layers = d + f
    return d >= 1 and layers >= 2 and layers % 2 == 0 and (d, bool(f)) in _silence_states(inp)


def _known_reset_raises_max(case, clause, inp):
    """The maximum is raised through reset(value_max=m) after an announcement, and the next value
    update goes straight to >= the new maximum: reset() writes _value_max without re-arming."""
    if case != 'reporter' or clause != 'announces-completion-when-maximum-was-raised-by-reset':
        return False
    return any(tag == 'raised-by-reset' for _, _, tag in _reporter_model(inp['ops'], inp.get('n', 1)))


KNOWN_CLASSES = {
    'silent-context-entered-while-already-silenced': _known_silent_reentered,
    'maximum-raised-by-reset-does-not-rearm-completion': _known_reset_raises_max,
}


# ----------------------------------------------------------------------------------------------
# enumeration
# ----------------------------------------------------------------------------------------------

def _styles(k, ev):
    return ('explicit', 'name', 'deco', 'deco_name') if (ev == nat(k) and k != 4) else ('explicit', 'deco')


def _registry_histories(D, K, filts, lasts, unc_senders):
    """All histories of exactly D state-changing registry operations (prefixes are checked by the
    probes after every operation), callbacks introduced in index order (symmetry reduction)."""
    cnt = [0]

    def rec(prefix, m):
        if len(prefix) == D:
            yield list(prefix)
            return
        opts = []
        for k in range(min(m + 1, K)):
            for ev in EVENTS:
                for filt in filts:
                    for last in lasts:
                        st = _styles(k, ev)
                        cnt[0] += 1
                        opts.append((['connect', k, ev, filt, last, st[cnt[0] % len(st)]], max(m, k + 1)))
        for k in range(m):
            opts.append((['unconnect', ['c%d' % k]], m))
        for s in unc_senders:
            opts.append((['unconnect', [s]], m))
        opts.append((['reset'], m))
        for op, m2 in opts:
            prefix.append(op)
            yield from rec(prefix, m2)
            prefix.pop()
    yield from rec([], 0)


def _silence_histories(L):
    """All well-nested sequences of <= L operations over {enter, exit, set_silent (outside contexts),
    connect, unconnect} (maximal ones only; every prefix state is probed)."""
    def rec(prefix, depth, c2):
        if len(prefix) == L:
            yield list(prefix)
            return
        opts = [(['enter'], depth + 1, c2)]
        if depth > 0:
            opts.append((['exit'], depth - 1, c2))
        else:
            opts.append((['set_silent', True], depth, c2))
            opts.append((['set_silent', False], depth, c2))
        if not c2:
            opts.append((['connect', 2, 'e0', None, None, 'name'], depth, True))
        else:
            opts.append((['unconnect', ['c0']], depth, c2))
        for op, d2, c22 in opts:
            prefix.append(op)
            yield from rec(prefix, d2, c22)
            prefix.pop()
    yield from rec([], 0, False)


def _random_history(rng, length, nest_p):
    ops = []
    depth, flag = 0, False
    filts = [None, None, 's0', 's1', 's0b', 's2']
    emit_senders = ['s0', 's1', 's0b', 's2', None]
    for _ in range(length):
        x = rng.random()
        if x < 0.34:
            k = rng.randrange(N_CALLBACKS)
            ev = rng.choice(EVENTS)
            ops.append(['connect', k, ev, rng.choice(filts), rng.choice([None, None, True, True, False]),
                        rng.choice(_styles(k, ev))])
        elif x < 0.46:
            pool = ['c%d' % k for k in range(N_CALLBACKS)] + ['s0', 's1', 's0b', 's2', 'o']
            ops.append(['unconnect', rng.sample(pool, rng.choice([1, 1, 1, 2, 3]))])
        elif x < 0.49:
            ops.append(['reset'])
        elif x < 0.60:
            silenced = depth > 0 or flag
            y = rng.random()
            if depth > 0 and y < 0.5:
                ops.append(['exit']); depth -= 1
            elif depth == 0 and y < 0.3:
                flag = not flag if rng.random() < 0.8 else flag
                ops.append(['set_silent', flag])
            elif (not silenced) or rng.random() < nest_p:
                ops.append(['enter']); depth += 1
            else:
                ops.append(['reset'] if rng.random() < 0.1 else ['emit', rng.choice(EVENTS), 's0', [], {}, None])
        else:
            a, k = rng.choice(PROBE_ARGS)
            ops.append(['emit', rng.choice(EVENTS), rng.choice(emit_senders), list(a), dict(k),
                        rng.choice([None, None, True, True, False])])
    return ops


def _reporter_alphabet(V, r=0):
    ops = [[r, 'inc'], [r, 'complete'], [r, 'reset']]
    ops += [[r, 'set', v] for v in range(V + 1)]
    ops += [[r, 'max', m] for m in range(V + 1)]
    ops += [[r, 'reset', m] for m in range(1, V + 1)]
    return ops


def enumerate_cases(ctx):
    import itertools
    quick = ctx.tier == 'quick'
    rng = ctx.rng

    # A. registry histories, exhaustive
    D = 3
    ctx.scope('emitter/registry: ALL histories of %d operations over {connect(callback c0..c2 [c2 a bound method], event e0/e0_x, '
              'sender filter none/s0/s1, plain/last; connect style rotating over by-name/explicit/decorator), unconnect(callback | sender s0 | s1), '
              'reset}, callbacks introduced in index order; after EVERY operation all emits (2 events x senders s0,s1 x with/without single, '
              'rotating argument lists) are compared with the view' % D)
    for h in _registry_histories(D, 3, (None, 's0', 's1'), (None, True), ('s0', 's1')):
        ctx.run('emitter', {'ops': h})
    if not quick:
        ctx.scope('emitter/registry: ALL histories of 4 operations over the same alphabet restricted to sender filter none/s0 and '
                  'unconnect(callback | s0), probes e0/e0_x x s0,s1')
        for h in _registry_histories(4, 3, (None, 's0'), (None, True), ('s0',)):
            ctx.run('emitter', {'ops': h})
    # all connect styles x last values x filters, single registration then a second one, on both the fresh and the global emitter
    ctx.scope('emitter/styles: every connect style x last in {absent, True, False} x filter in {none, s0, s1(falsy), s0b(== s0)} x callback kind '
              '(function, bound method, partial), one or two registrations, fresh and module-level emitter, probes from s0,s1,s0b,s2,None')
    singles = []
    for k in range(N_CALLBACKS):
        for ev in EVENTS:
            for st in _styles(k, ev):
                for last in (None, True, False):
                    for filt in (None, 's0', 's1', 's0b'):
                        singles.append(['connect', k, ev, filt, last, st])
    for j, op in enumerate(singles):
        other = singles[(j * 7 + 3) % len(singles)]
        for g in (False, True):
            ctx.run('emitter', {'ops': [op, other, ['unconnect', ['s0b']]], 'global': g,
                                'probe_senders': ['s0', 's1', 's0b', 's2', None]})
    # unconnect targets
    ctx.scope('emitter/unconnect: 5 registrations (function, bound methods of one owner, partial; filters none/s0/s1) then every '
              'unconnect target set of size 1..2 over {c0..c4, s0, s1, s0b, s2, owner}')
    base = [['connect', 0, 'e0', None, None, 'name'], ['connect', 2, 'e0', 's0', True, 'deco_name'], ['connect', 3, 'e0', None, None, 'explicit'],
            ['connect', 4, 'e0', 's1', None, 'deco'], ['connect', 1, 'e0', 's0', None, 'explicit'], ['connect', 0, 'e0_x', 's1', True, 'explicit']]
    pool = ['c%d' % k for k in range(N_CALLBACKS)] + ['s0', 's1', 's0b', 's2', 'o']
    for n in (1, 2):
        for tg in itertools.combinations(pool, n):
            ctx.run('emitter', {'ops': base + [['unconnect', list(tg)]], 'probe_senders': ['s0', 's1', 's2']})

    # S. silencing
    L = 6 if quick else 8
    ctx.scope('emitter/silencing: two registrations (c0 plain, c1 last with filter s0) then ALL well-nested sequences of %d operations over '
              '{enter silent(), leave silent(), set_silent(True/False) outside contexts, connect c2, unconnect c0}; open contexts are left at the '
              'end; emits (e0 x s0,s1 x with/without single) after every operation' % L)
    pre = [['connect', 0, 'e0', None, None, 'name'], ['connect', 1, 'e0', 's0', True, 'explicit']]
    for h in _silence_histories(L):
        ctx.run('emitter', {'ops': pre + h, 'probe_events': ['e0']})

    # R. random long histories over the full alphabet with explicit emits
    NR, LEN = (1500, 14) if quick else (20000, 30)
    ctx.scope('emitter/random: %d seeded histories of %d operations over the full alphabet (5 callbacks, 2 events, filters none/s0/s1/s0b/s2, '
              'last absent/True/False, 4 connect styles, unconnect of 1..3 targets, reset, silent contexts, set_silent, emits from s0/s1/s0b/s2/None '
              'with 4 argument lists and single absent/True/False), fresh or module-level emitter' % (NR, LEN))
    for j in range(NR):
        ctx.run('emitter', {'ops': _random_history(rng, LEN if j % 3 else LEN // 2, 0.15), 'probe': False, 'global': j % 4 == 0})

    # P. progress reporter
    V, DP = (2, 4) if quick else (2, 5)
    alpha = _reporter_alphabet(V)
    ctx.scope('reporter: ALL histories of %d operations over {increment, value=0..%d, value_max=0..%d, set_complete, reset(), reset(value_max=1..%d)} '
              'on one reporter; announcements counted after every operation' % (DP, V, V, V))
    for h in itertools.product(alpha, repeat=DP):
        ctx.run('reporter', {'ops': [list(o) for o in h]})
    if not quick:
        alpha3 = _reporter_alphabet(3)
        ctx.scope('reporter: ALL histories of 4 operations with values/maxima 0..3')
        for h in itertools.product(alpha3, repeat=4):
            ctx.run('reporter', {'ops': [list(o) for o in h]})
    NP, LP = (600, 10) if quick else (8000, 16)
    ctx.scope('reporter/random: %d seeded histories of %d operations interleaved over TWO reporters (values 0..4), keyword arguments passed '
              'to increment/set_complete in half of them' % (NP, LP))
    alpha2 = _reporter_alphabet(4, 0) + _reporter_alphabet(4, 1)
    for j in range(NP):
        ctx.run('reporter', {'ops': [list(rng.choice(alpha2)) for _ in range(LP)], 'n': 2, 'kw': j % 2 == 0})
