# C08 — curated clusters get the right template provenance and waveforms.  Bounded stand-in (tier B):
# the contracts of DESIGN 4/C08 evaluated on the REAL TemplateModel (loaded from a dataset directory
# written by concrete/datagen.py) over an exhaustively enumerated small scope of (spike_templates,
# spike_clusters) pairs, plus seeded random curation histories (merges / splits / reassignments).
#
# Only the public surface named in the property's `observe_at` is read from the model:
#   merge_map, nan_idx, sparse_clusters.data, n_clusters, n_templates, get_cluster_mean_waveforms(...).
# The oracle below is plain NumPy written from the statement; it never calls phylib.
import os, itertools, math
import numpy as np
from concrete.common import tempdir
from concrete.datagen import make_dataset

from phylib.io import model as M

CONTRACTED = ['phylib/io/model.py::TemplateModel.get_merge_map',
              'phylib/io/model.py::TemplateModel.cluster_waveforms',
              'phylib/io/model.py::TemplateModel.get_cluster_mean_waveforms',
              'phylib/io/model.py::TemplateModel.get_template_counts',
              'phylib/io/model.py::TemplateModel._load_data']

N_CLOSEST = 12   # documented class default TemplateModel.n_closest_channels (amplitude_threshold = 0)


# ----------------------------------------------------------------------------------------------
# Oracle (statement-level, NumPy only)
# ----------------------------------------------------------------------------------------------

def positions_for(nc, geom):
    """Channel geometries with pairwise distinct inter-channel distances (no tie among the closest
    channels of any channel, so 'the n closest channels' is a well defined set)."""
    i = np.arange(nc, dtype=np.float64)
    if geom == 'two-column':
        pos = np.c_[(i % 2) * 7.0, 10.0 * i + 0.013 * i * i]
    elif geom == 'line':
        pos = np.c_[np.zeros(nc), 20.0 * i + 0.11 * i * i]
    elif geom == 'scrambled':   # channel index order unrelated to position order
        a = next(k for k in (5, 3, 7, 11, 13) if math.gcd(k, nc) == 1)
        perm = (i * a + 3) % nc
        pos = np.c_[(perm % 3) * 11.0, 10.0 * perm + 0.017 * perm * perm]
    else:
        raise ValueError(geom)
    for c in range(nc):
        d = np.sum((pos - pos[c]) ** 2, axis=1)
        assert len(set(np.round(d, 9).tolist())) == nc, 'harness: tie in channel distances'
    return pos


def template_channels(w, pos, shanks):
    """Channel set of a template waveform w (n_samples, n_channels): the N_CLOSEST channels nearest
    to its peak (largest peak-to-peak) channel, restricted to that channel's shank."""
    amp = w.max(axis=0) - w.min(axis=0)
    best = int(np.argmax(amp))
    d = np.sum((pos - pos[best]) ** 2, axis=1)
    close = set(np.argsort(d, kind='stable')[:N_CLOSEST].tolist())
    return sorted(c for c in close if shanks[c] == shanks[best])


def restricted(w, chans):
    out = np.zeros(w.shape, dtype=np.float64)
    out[:, chans] = w[:, chans]
    return out


def count_matrix(st, sc, nt):
    n = np.zeros((int(max(sc)) + 1, nt), dtype=np.int64)
    for t, c in zip(st, sc):
        n[c, t] += 1
    return n


def expected_means(waves, counts_row, pos, shanks):
    """Spike-count-weighted mean of the contributing templates' channel-restricted waveforms, on the
    channels of the dominant template.  Returns a list of (dominant channel list, (n_samples, n_channels)
    array that is the mean on those channels and zero elsewhere), one entry per template attaining the
    largest spike count: the statement leaves the choice among tied dominant templates open (Appendix G;
    the code takes the lowest id, listed first)."""
    tids = [t for t in range(len(counts_row)) if counts_row[t] > 0]
    acc = np.zeros(waves[0].shape, dtype=np.float64)
    for t in tids:
        acc += counts_row[t] * restricted(waves[t], template_channels(waves[t], pos, shanks))
    acc /= float(sum(counts_row[t] for t in tids))
    out = []
    for dom in tids:
        if counts_row[dom] == max(counts_row):
            chd = template_channels(waves[dom], pos, shanks)
            out.append((chd, restricted(acc, chd)))
    return out


def close(a, b, rtol=1e-6, atol=1e-6):
    # numeric clauses are compared at single-precision level: the stored templates are float32 and the
    # statement does not fix the precision in which the mean is accumulated
    a = np.asarray(a, dtype=np.float64)
    b = np.asarray(b, dtype=np.float64)
    return a.shape == b.shape and bool(np.allclose(a, b, rtol=rtol, atol=atol, equal_nan=True))


# ----------------------------------------------------------------------------------------------
# Dataset + model
# ----------------------------------------------------------------------------------------------

def build(d, inp):
    nt, nc, nsw = inp['nt'], inp['nc'], inp.get('nsw', 5)
    st = list(inp['st'])
    sc = inp['sc']
    pos = positions_for(nc, inp.get('geom', 'two-column'))
    T = make_dataset(d, seed=inp.get('seed', 0), n_spikes=len(st), n_templates=nt, n_channels=nc, nsw=nsw,
                     spike_templates=st, spike_clusters=(sc if sc is None or isinstance(sc, str) else list(sc)),
                     shanks=bool(inp.get('shanks', False)), whitening=bool(inp.get('whitening', True)),
                     whitening_inv=bool(inp.get('wmi_file', False)), positions=pos.tolist(),
                     similar=bool(inp.get('similar', False)), colvec=bool(inp.get('colvec', False)),
                     templates_dtype=inp.get('templates_dtype', 'float32'))
    if inp.get('whitening', True) and inp.get('random_wm', False):
        # random well conditioned whitening matrix instead of datagen's fixed one
        rs = np.random.RandomState(1000 + inp.get('seed', 0))
        wm = np.eye(nc) * 2.0 + rs.uniform(-0.4, 0.4, size=(nc, nc))
        np.save(os.path.join(d, 'whitening_mat.npy'), wm)
        T['whitening_mat'] = wm
        if inp.get('wmi_file', False):
            np.save(os.path.join(d, 'whitening_mat_inv.npy'), np.linalg.inv(wm))
    T['positions'] = pos
    T['shanks'] = T['channel_shanks'] if 'channel_shanks' in T else np.zeros(nc, dtype=np.int32)
    T['wmi'] = np.linalg.inv(T['whitening_mat']) if 'whitening_mat' in T else np.eye(nc)
    return T


def _as_int_list(x):
    return [int(v) for v in x]


def case_curated(inp):
    """Load a dataset whose spike_clusters differ from spike_templates somewhere (merged path)."""
    nt = inp['nt']
    st = _as_int_list(inp['st'])
    sc = _as_int_list(inp['sc'])
    assert len(st) == len(sc) >= 2 and st != sc and max(st) < nt, 'harness: input outside the case'
    with tempdir() as d:
        T = build(d, inp)
        m = M.load_model(os.path.join(d, 'params.py'))
        try:
            yield from check_curated(m, T, st, sc, nt)
        finally:
            m.close()


def check_curated(m, T, st, sc, nt):
    tpl = T['templates']                      # (nt, nsw, nc) as written to templates.npy
    pos, shanks, wmi = T['positions'], T['shanks'], T['wmi']
    nmax = max(sc)
    N = count_matrix(st, sc, nt)
    prov = {c: sorted(t for t in range(nt) if N[c, t] > 0) for c in range(nmax + 1)}
    empty = [c for c in range(nmax + 1) if not prov[c]]

    mm = m.merge_map
    keys = sorted(int(k) for k in mm.keys())
    yield 'every-id-0..max-is-a-key-of-the-map', keys == list(range(nmax + 1)), keys
    got = {int(k): [int(t) for t in v] for k, v in mm.items()}
    yield ('each-id-maps-to-exactly-the-set-of-templates-its-spikes-came-from',
           all(sorted(got.get(c, [-1])) == prov[c] for c in range(nmax + 1)), (got, prov))
    nan_idx = sorted(int(x) for x in np.asarray(m.nan_idx).ravel())
    yield 'ids-without-spikes-reported-as-empty', nan_idx == empty and all(got.get(c) == [] for c in empty), (nan_idx, empty)

    data = np.asarray(m.sparse_clusters.data)
    yield ('cluster-waveforms-cover-ids-0..max',
           data.shape == (nmax + 1,) + tpl.shape[1:] and m.sparse_clusters.cols is None, data.shape)
    if data.shape != (nmax + 1,) + tpl.shape[1:]:
        return

    raw = [tpl[t] for t in range(nt)]
    unw = [np.dot(tpl[t].astype(np.float64), wmi).astype(np.float32) for t in range(nt)]
    ok_single, ok_multi_on, ok_multi_off, ok_empty = True, True, True, True
    det_single = det_multi = det_off = det_empty = ''
    for c in range(nmax + 1):
        if len(prov[c]) == 1:
            if not np.array_equal(data[c], tpl[prov[c][0]]):
                ok_single, det_single = False, (c, prov[c], data[c].tolist())
        elif len(prov[c]) > 1:
            cands = expected_means(raw, N[c], pos, shanks)
            if not any(close(data[c][:, chd], exp[:, chd]) for chd, exp in cands):
                ok_multi_on, det_multi = False, (c, N[c].tolist(), cands[0][0], data[c].tolist(), cands[0][1].tolist())
            if not any(np.all(np.delete(data[c], chd, axis=1) == 0) for chd, exp in cands):
                ok_multi_off, det_off = False, (c, N[c].tolist(), cands[0][0], data[c].tolist())
        else:
            z = data[c]
            if not (np.all(z == 0) or np.all(np.isnan(z))):
                ok_empty, det_empty = False, (c, z.tolist())
    yield 'single-template-cluster-carries-that-template-unchanged', ok_single, det_single
    yield 'multi-template-cluster-is-count-weighted-mean-on-dominant-channels', ok_multi_on, det_multi
    yield 'multi-template-cluster-zero-off-dominant-channels', ok_multi_off, det_off
    yield 'id-without-spikes-carries-no-waveform', ok_empty, det_empty

    # get_cluster_mean_waveforms on the loaded model, whitened and unwhitened templates
    for unwhiten, waves, tol in ((False, raw, 1e-6), (True, unw, 4e-6)):
        ok_set, ok_val, det = True, True, ''
        for c in range(nmax + 1):
            if not prov[c]:
                continue
            r = m.get_cluster_mean_waveforms(c, unwhiten=unwhiten)
            ch = [int(x) for x in r.channel_ids]
            mw = np.asarray(r.mean_waveforms)
            cands = [(chd, exp) for chd, exp in expected_means(waves, N[c], pos, shanks) if sorted(ch) == chd]
            if not cands or len(set(ch)) != len(ch):
                ok_set, det = False, (c, N[c].tolist(), ch, [x[0] for x in expected_means(waves, N[c], pos, shanks)])
                continue
            exp = cands[0][1]
            scale = max(1.0, float(np.abs(exp).max()))
            if mw.shape != (tpl.shape[1], len(ch)) or not close(mw, exp[:, ch], rtol=tol, atol=tol * scale):
                ok_val, det = False, (c, N[c].tolist(), ch, mw.tolist(), exp[:, ch].tolist())
        yield 'mean-waveforms-on-the-channels-of-the-dominant-template[unwhiten=%s]' % unwhiten, ok_set, det
        yield 'mean-waveforms-are-count-weighted-mean-of-channel-restricted-templates[unwhiten=%s]' % unwhiten, ok_val, det
    yield '__nontrivial__', any(len(p) > 1 for p in prov.values()) or bool(empty), ''


def case_identical(inp):
    """spike_clusters absent or equal to spike_templates: cluster waveforms are the template waveforms
    and there are as many clusters as templates."""
    nt = inp['nt']
    st = _as_int_list(inp['st'])
    assert inp['sc'] is None or inp['sc'] == 'same' or _as_int_list(inp['sc']) == st, 'harness: input outside the case'
    with tempdir() as d:
        T = build(d, inp)
        m = M.load_model(os.path.join(d, 'params.py'))
        try:
            tpl = T['templates']
            data = np.asarray(m.sparse_clusters.data)
            yield ('cluster-waveforms-are-the-template-waveforms',
                   data.shape == tpl.shape and np.array_equal(data, tpl) and m.sparse_clusters.cols is None, data.shape)
            yield 'as-many-clusters-as-templates', int(m.n_clusters) == int(m.n_templates) == nt, (int(m.n_clusters), int(m.n_templates), nt)
            yield 'same-assignments', np.array_equal(m.spike_clusters, m.spike_templates) and np.array_equal(m.spike_templates, st), ''
            # every cluster stems from its single template: the mean waveform is that template on its channels
            pos, shanks, wmi = T['positions'], T['shanks'], T['wmi']
            ok, det = True, ''
            for unwhiten in (False, True):
                for t in sorted(set(st)):
                    w = tpl[t] if not unwhiten else np.dot(tpl[t].astype(np.float64), wmi).astype(np.float32)
                    chd = template_channels(w, pos, shanks)
                    r = m.get_cluster_mean_waveforms(t, unwhiten=unwhiten)
                    ch = [int(x) for x in r.channel_ids]
                    tol = 4e-6 if unwhiten else 1e-6
                    if sorted(ch) != chd or not close(r.mean_waveforms, w[:, ch], rtol=tol, atol=tol * max(1.0, float(np.abs(w).max()))):
                        ok, det = False, (unwhiten, t, ch, chd)
            yield 'single-template-cluster-mean-waveform-is-that-template', ok, det
        finally:
            m.close()


CASES = {'curated': case_curated, 'identical': case_identical}


# ----------------------------------------------------------------------------------------------
# Known findings on the unchanged tree (DESIGN section 6, row 8)
# ----------------------------------------------------------------------------------------------

def _top_template_unused_identical(case, clause, inp):
    return (case == 'identical' and clause == 'as-many-clusters-as-templates'
            and max(inp['st']) + 1 < inp['nt'])


KNOWN_CLASSES = {'identical-assignments-highest-template-without-spikes': _top_template_unused_identical}


# ----------------------------------------------------------------------------------------------
# Scope
# ----------------------------------------------------------------------------------------------

def matrices(n_cells, total):
    """All vectors of n_cells non-negative ints summing to total."""
    if n_cells == 1:
        yield (total,)
        return
    for first in range(total + 1):
        for rest in matrices(n_cells - 1, total - first):
            yield (first,) + rest


def spikes_of(mat, ncl, nt, rng):
    """(st, sc) lists realising the count matrix mat[c*nt + t], in a seeded random spike order."""
    pairs = []
    for c in range(ncl):
        for t in range(nt):
            pairs += [(t, c)] * mat[c * nt + t]
    rng.shuffle(pairs)
    return [p[0] for p in pairs], [p[1] for p in pairs]


CONFIGS = [
    dict(nc=4, shanks=False, whitening=True, geom='two-column'),
    dict(nc=4, shanks=True, whitening=True, geom='two-column', random_wm=True),
    dict(nc=5, shanks=True, whitening=False, geom='scrambled'),
    dict(nc=14, shanks=False, whitening=True, geom='two-column', random_wm=True, wmi_file=True),
    dict(nc=6, shanks=True, whitening=True, geom='line', colvec=True),
    dict(nc=15, shanks=True, whitening=True, geom='scrambled', random_wm=True),
]


def curate(rng, nt, ns, n_ops):
    """A random curation history: start from clusters == templates, then merges (new id = max+1),
    splits (a subset of one cluster's spikes gets a new id) and reassignments (some spikes moved to an
    existing or to a fresh id)."""
    st = [rng.randrange(nt) for _ in range(ns)]
    if rng.random() < 0.3 and nt > 1:          # leave some template unused
        dead = rng.randrange(nt)
        st = [t if t != dead else (t + 1) % nt for t in st]
    sc = list(st)
    nxt = nt
    for _ in range(n_ops):
        ids = sorted(set(sc))
        op = rng.choice(['merge', 'split', 'reassign'])
        if op == 'merge' and len(ids) >= 2:
            k = rng.randint(2, min(3, len(ids)))
            grp = set(rng.sample(ids, k))
            sc = [nxt if c in grp else c for c in sc]
            nxt += 1
        elif op == 'split':
            c = rng.choice(ids)
            members = [i for i, x in enumerate(sc) if x == c]
            if len(members) >= 2:
                sub = rng.sample(members, rng.randint(1, len(members) - 1))
                for i in sub:
                    sc[i] = nxt
                nxt += 1
        else:
            i = rng.randrange(ns)
            sc[i] = rng.choice(ids + [nxt])
            nxt = max(nxt, sc[i] + 1)
    return st, sc


def enumerate_cases(ctx):
    quick = ctx.tier == 'quick'
    rng = ctx.rng
    nt = 3
    # ---- exhaustive: all count matrices (cluster id x template) -----------------------------
    if quick:
        fam = [(4, (2, 3)), (3, (4,))]
    else:
        fam = [(4, (2, 3, 4, 5)), (3, (6,))]
    ctx.scope('curated (merged path): ALL spike-count matrices N[cluster id][template] over %s with the stated '
              'numbers of spikes (every pair (spike_templates, spike_clusters) up to spike order; spike order seeded), '
              '3 random dense templates of 5 samples, configurations (channels/shanks/whitening/geometry) cycled: %s'
              % (['%d cluster ids x 3 templates, %s spikes' % (k, list(ns)) for k, ns in fam], CONFIGS))
    idx = 0
    seen = set()
    for ncl, totals in fam:
        for total in totals:
            for mat in matrices(ncl * nt, total):
                st, sc = spikes_of(mat, ncl, nt, rng)
                key = (tuple(sorted(zip(st, sc))))
                if key in seen:
                    continue
                seen.add(key)
                cfg = CONFIGS[idx % (4 if quick else len(CONFIGS))]
                idx += 1
                inp = dict(cfg, nt=nt, st=st, sc=sc, seed=idx % 7)
                if st == sc:
                    ctx.run('identical', inp)
                else:
                    ctx.run('curated', inp)
    # ---- identical assignments ---------------------------------------------------------------
    ctx.scope('identical assignments: spike_clusters.npy absent / equal to spike_templates; 2..4 templates, every '
              'subset of templates left without spikes (incl. the highest), all configurations')
    for nt2 in (2, 3, 4):
        for used in itertools.product((0, 1), repeat=nt2):
            ids = [t for t in range(nt2) if used[t]]
            if not ids:
                continue
            st = [ids[i % len(ids)] for i in range(max(2, len(ids) + 2))]
            for k, cfg in enumerate(CONFIGS if not quick else CONFIGS[:2]):
                for scv in (None, 'same'):
                    ctx.run('identical', dict(cfg, nt=nt2, st=st, sc=scv, seed=k))
    # ---- every configuration on a fixed set of instructive histories ---------------------------
    hist = [
        ([0, 1, 2, 0, 1, 2], [3, 3, 2, 3, 3, 2]),              # merge 0+1 -> 3 (tie 2:2), ids 0,1 empty
        ([0, 0, 0, 1, 2, 2], [0, 3, 3, 1, 2, 4]),              # splits of 0 and 2: single-template new ids, one-spike cluster
        ([0, 0, 1, 1, 1, 2, 2], [5, 5, 5, 5, 5, 5, 5]),        # everything merged, ids 0..4 empty
        ([0, 1, 1, 2, 2, 2], [1, 0, 0, 0, 0, 1]),              # reassignment onto existing ids, dominant != own id
        ([2, 2, 2, 0], [0, 0, 1, 1]),                          # template 1 unused, cluster ids below templates
        ([0, 1, 0, 1], [1, 0, 1, 0]),                          # pure relabelling
    ]
    ctx.scope('curated: %d hand-written histories (merge with tie, splits, total merge, reassignment, unused template, '
              'relabelling) x all %d configurations x template seeds' % (len(hist), len(CONFIGS)))
    for st, sc in hist:
        for cfg in CONFIGS:
            for seed in ((1,) if quick else (1, 2, 3)):
                ctx.run('curated', dict(cfg, nt=3 if max(st) < 3 else max(st) + 1, st=st, sc=sc, seed=seed))
    # ---- random curation histories ---------------------------------------------------------------
    n_rand = 40 if quick else 2500
    ctx.scope('curated: %d seeded random curation histories (start clusters == templates; 1..6 merges / splits / '
              'reassignments; 2..6 templates, 4..40 spikes, 4..8 waveform samples), all configurations' % n_rand)
    for i in range(n_rand):
        nt2 = rng.randint(2, 6)
        ns = rng.randint(4, 40)
        st, sc = curate(rng, nt2, ns, rng.randint(1, 6))
        cfg = CONFIGS[i % len(CONFIGS)]
        inp = dict(cfg, nt=nt2, st=st, sc=sc, seed=rng.randrange(1000), nsw=rng.randint(4, 8))
        ctx.run('identical' if st == sc else 'curated', inp)
