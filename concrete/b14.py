# C14 — exported ALF values equal the physical quantities they name.
# Bounded stand-in (tier B): the contracts of DESIGN 4/C14 evaluated on the real phylib.io.alf / phylib.io.model
# (and, to build merged inputs, the real phylib.io.merge.Merger) over a stated finite scope.  The oracle reads the
# source directory with plain NumPy (concrete.b13.read_source) and recomputes every exported quantity from the
# sentences of the statement; it never calls phylib.
#
# Readings (DESIGN 2.13, Appendix G) — all in the code's favour, none loosens a sentence of the statement:
# * "peak channel": a channel attaining the largest peak-to-peak amplitude of the waveform, stored or unwhitened
#   (the statement does not say which; the code uses the stored one); ties: any attaining channel;
# * "nearest": non-decreasing distance from the peak channel, L1 or Euclidean (the code uses L1), ties in any order;
#   the number of listed channels is not prescribed;
# * cluster waveform before unwhitening = C08's sentence: the template itself for a single-template cluster, the
#   spike-count weighted mean of the channel-restricted templates on the dominant template's channels otherwise
#   (a cluster whose restriction depends on a distance tie at the cut-off is not compared);
# * amplitudes / waveforms of ids without spikes: amplitude NaN (C09), waveform not constrained;
# * "NaN for ids without spikes" (cluster depths): demanded for the ids a curation emptied; for a spikeless template
#   of an uncurated dataset (clusters = templates) NaN and the depth of its peak channel are both accepted;
# * durations: signed (index of maximum - index of minimum) on the peak channel, in ms; ties: any attaining samples;
# * raw indices: single-probe datasets export their channel map; datasets merged by phylib's Merger export, for every
#   probe, the channel map that probe had before merging.  (Probe tables not produced by the merger: not constrained.)
import os, itertools, warnings
import numpy as np
from pathlib import Path

from concrete.common import tempdir
from concrete import b13 as B

from phylib.io import alf as ALF
from phylib.io import model as MODEL
from phylib.io import merge as MERGE

CONTRACTED = ['phylib/io/alf.py::EphysAlfCreator.make_template_and_spikes_objects', 'phylib/io/alf.py::EphysAlfCreator.make_cluster_objects',
              'phylib/io/alf.py::EphysAlfCreator.make_depths', 'phylib/io/alf.py::EphysAlfCreator.make_channel_objects',
              'phylib/io/alf.py::EphysAlfCreator.convert',
              'phylib/io/model.py::TemplateModel.get_amplitudes_true', 'phylib/io/model.py::TemplateModel.get_depths',
              'phylib/io/model.py::TemplateModel._waveform_durations', 'phylib/io/model.py::TemplateModel._channels',
              'phylib/io/model.py::TemplateModel.cluster_waveforms', 'phylib/io/model.py::TemplateModel.get_merge_map']

DEFAULT_NCC = 12


# ----------------------------------------------------------------------------------------------------------
# Oracle (plain NumPy, from the statement)
# ----------------------------------------------------------------------------------------------------------
def ptp(w):
    """peak-to-peak amplitude per channel of waveforms (..., n_samples, n_channels)"""
    return w.max(axis=-2) - w.min(axis=-2)


def argmax_set(v, rel=1e-9):
    m = np.max(v)
    return set(np.nonzero(v >= m - rel * max(abs(m), 1e-300))[0].tolist())


def restricted_channels(S, t, ncc):
    """channels a template is restricted to (C08): the ncc channels nearest to its peak channel, on the peak's shank.
    Returns (sorted channel list, ambiguous) — ambiguous when a distance tie straddles the cut-off."""
    a = ptp(S['templates'][t])
    best = int(np.argmax(a))
    pos = S['positions']
    d2 = ((pos - pos[best]) ** 2).sum(axis=1)
    order = sorted(range(S['nc']), key=lambda c: (d2[c], c))
    k = min(ncc, S['nc'])
    amb = k < S['nc'] and d2[order[k - 1]] == d2[order[k]]
    near = set(order[:k])
    ch = [c for c in range(S['nc']) if c in near and S['shanks'][c] == S['shanks'][best]]
    return ch, amb or len(argmax_set(a)) > 1


def cluster_stored_waveforms(S, ncc):
    """(n_clusters, nsw, nc) waveforms in stored (whitened) space + set of clusters whose value is ambiguous."""
    tpl = S['templates']
    if not S['curated']:
        return tpl.copy(), set()
    ncl = S['n_clusters']
    W = np.zeros((ncl,) + tpl.shape[1:])
    amb = set()
    for c in range(ncl):
        ts, counts = np.unique(S['st'][S['sc'] == c], return_counts=True)
        if len(ts) == 1:
            W[c] = tpl[ts[0]]
        elif len(ts) > 1:
            dom = int(ts[np.argmax(counts)])
            if np.sum(counts == counts.max()) > 1:
                pass   # Appendix G/C08: ties in spike counts resolve to the lowest template id
            chd, a = restricted_channels(S, dom, ncc)
            acc = np.zeros(tpl.shape[1:])
            for t, k in zip(ts, counts):
                ch, a2 = restricted_channels(S, int(t), ncc)
                a = a or a2
                r = np.zeros(tpl.shape[1:])
                r[:, ch] = tpl[t][:, ch]
                acc += k * r
            W[c][:, chd] = (acc / counts.sum())[:, chd]
            if a:
                amb.add(c)
    return W, amb


def physical(W, ids, amplitudes, wmi, factor, n):
    """unwhitened waveforms rescaled to the mean spike amplitude, spike amplitudes, per-id mean amplitudes, x factor."""
    U = np.matmul(W, wmi)
    au = ptp(U).max(axis=1)
    spike = au[ids] * amplitudes
    with np.errstate(divide='ignore', invalid='ignore'):
        mean = np.bincount(ids, weights=spike, minlength=n)[:n] / np.bincount(ids, minlength=n)[:n]
        R = U * (mean / au)[:, None, None]
    return spike * factor, R * factor, mean * factor, U


def close(a, b, rtol=2e-4):
    a, b = np.asarray(a, dtype=np.float64), np.asarray(b, dtype=np.float64)
    if a.shape != b.shape:
        return False
    fin = np.isfinite(b)
    scale = np.max(np.abs(b[fin])) if fin.any() else 1.0
    return bool(np.allclose(a, b, rtol=rtol, atol=1e-5 * scale, equal_nan=True))


def nearest_ok(L, S, metric):
    """first min(len(L), probe size) listed channels = that many nearest same-probe channels, nearest first."""
    p = L[0]
    pos = S['positions']
    if metric == 'l1':
        d = np.abs(pos - pos[p]).sum(axis=1)
    else:
        d = np.sqrt(((pos - pos[p]) ** 2).sum(axis=1))
    same = [c for c in range(S['nc']) if S['probes'][c] == S['probes'][p]]
    k = min(len(L), len(same))
    head = list(L[:k])
    if len(set(head)) != k or any(c not in same for c in head):
        return False
    tol = 1e-9 * max(1.0, float(d.max()))
    if any(d[head[i]] > d[head[i + 1]] + tol for i in range(k - 1)):
        return False
    rest = [c for c in same if c not in head]
    return not rest or max(d[c] for c in head) <= min(d[c] for c in rest) + tol


def load_out(out, attr, label):
    p = B.find_out(out, attr, 'npy', label)
    return None if p is None else np.load(p)


def check_waveform_object(prefix, chans, wf, amps, W, U, R, mean, has_spikes, S, skip=()):
    n = W.shape[0]
    ok_shape = chans is not None and wf is not None and chans.ndim == 2 and wf.ndim == 3 and chans.shape[0] == n and wf.shape[0] == n \
        and wf.shape[2] == chans.shape[1] and wf.shape[1] == W.shape[1] and chans.shape[1] >= 1
    yield prefix + '-waveform-tables-present-and-aligned', ok_shape, (None if chans is None else chans.shape, None if wf is None else wf.shape)
    if not ok_shape:
        return
    # -1 = "no channel" padding (phylib's convention for unused columns) is not a listed channel
    inrange = bool(np.all(((chans >= 0) & (chans < S['nc'])) | (chans == -1))) and bool(np.all(chans[:, 0] >= 0))
    yield prefix + '-listed-channels-are-channels', inrange, chans.tolist()
    if not inrange:
        return
    bad_peak, bad_probe, bad_near, bad_dist, bad_wf = [], [], [], [], []
    for i in range(n):
        cols = [j for j in range(chans.shape[1]) if chans[i, j] >= 0]
        L = [int(chans[i, j]) for j in cols]
        peakset = argmax_set(ptp(W[i])) | argmax_set(ptp(U[i]))
        if L[0] not in peakset:
            bad_peak.append((i, L, sorted(peakset)))
        if any(S['probes'][c] != S['probes'][L[0]] for c in L):
            bad_probe.append((i, L))
        if len(set(L)) != len(L):
            bad_dist.append((i, L))
        if not (nearest_ok(L, S, 'l1') or nearest_ok(L, S, 'l2')):
            bad_near.append((i, L))
        if has_spikes[i] and i not in skip and not close(wf[i][:, cols], R[i][:, L]):
            bad_wf.append((i, L, np.round(wf[i][:2], 4).tolist(), np.round(R[i][:, L][:2], 4).tolist()))
    yield prefix + '-peak-channel-listed-first', not bad_peak, bad_peak[:3]
    yield prefix + '-listed-channels-on-peak-channel-probe', not bad_probe, bad_probe[:3]
    yield prefix + '-listed-channels-distinct', not bad_dist, bad_dist[:3]
    yield prefix + '-listed-channels-are-nearest-on-probe-nearest-first', not bad_near, bad_near[:3]
    yield prefix + '-waveforms-unwhitened-rescaled-on-listed-channels', not bad_wf, bad_wf[:2]
    keep = [i for i in range(n) if i not in skip]
    yield prefix + '-amplitudes-carry-unit-factor', amps is not None and np.shape(amps) == (n,) and close(np.asarray(amps)[keep], mean[keep]), \
        (None if amps is None else np.asarray(amps).tolist()[:6], mean.tolist()[:6])


def duration_ok(value, W, U, peaks, sr):
    """value [ms] == (index of a maximum - index of a minimum) / sr * 1e3 on a peak channel (stored or unwhitened)."""
    if not np.isfinite(value):
        return False
    k = value * sr / 1e3
    if abs(k - round(k)) > 1e-6 * max(1.0, abs(k)):
        return False
    k = int(round(k))
    for V in (W, U):
        for p in peaks:
            w = V[:, p]
            imax = np.nonzero(w == w.max())[0]
            imin = np.nonzero(w == w.min())[0]
            if any(int(i) - int(j) == k for i in imax for j in imin):
                return True
    return False


def check_values(out, S, label, factor, ncc, known_original_maps=None):
    ns, nt, ncl, sr = S['ns'], S['nt'], S['n_clusters'], S['sr']
    y = S['positions'][:, 1]
    # templates
    sp_amp, Rt, t_mean, Ut = physical(S['templates'], S['st'], S['amplitudes'], S['wmi'], factor, nt)
    t_has = np.bincount(S['st'], minlength=nt)[:nt] > 0
    yield from check_waveform_object('template', load_out(out, 'templates.waveformsChannels', label), load_out(out, 'templates.waveforms', label),
                                     load_out(out, 'templates.amps', label), S['templates'], Ut, Rt, t_mean, t_has, S)
    a = load_out(out, 'spikes.amps', label)
    yield 'spike-amplitudes-are-stored-amplitude-x-template-peak-x-unit-factor', a is not None and close(a, sp_amp), (None if a is None else a.tolist()[:5], sp_amp.tolist()[:5])
    # clusters
    Wc, amb = cluster_stored_waveforms(S, ncc)
    _, Rc, c_mean, Uc = physical(Wc, S['sc'], S['amplitudes'], S['wmi'], factor, ncl)
    c_has = np.bincount(S['sc'], minlength=ncl)[:ncl] > 0
    yield from check_waveform_object('cluster', load_out(out, 'clusters.waveformsChannels', label), load_out(out, 'clusters.waveforms', label),
                                     load_out(out, 'clusters.amps', label), Wc, Uc, Rc, c_mean, c_has, S, skip=amb)
    peaks = [sorted(argmax_set(ptp(Wc[c])) | argmax_set(ptp(Uc[c]))) for c in range(ncl)]
    cc = load_out(out, 'clusters.channels', label)
    if cc is not None:
        bad = [c for c in range(min(ncl, len(cc))) if c not in amb and int(cc[c]) not in peaks[c]]
        yield 'clusters-channels-is-the-peak-channel', cc.shape == (ncl,) and not bad, (cc.tolist(), bad)
    # depths
    cd = load_out(out, 'clusters.depths', label)
    ok_cd = cd is not None and cd.shape == (ncl,)
    bad = []
    if ok_cd:
        for c in range(ncl):
            if c in amb:
                continue
            at_peak = any(abs(cd[c] - y[p]) <= 1e-6 * max(1.0, abs(y[p])) for p in peaks[c])
            if c_has[c]:
                good = at_peak
            elif S['curated']:
                good = bool(np.isnan(cd[c]))
            else:
                good = bool(np.isnan(cd[c])) or at_peak
            if not good:
                bad.append((c, float(cd[c]), [float(y[p]) for p in peaks[c]]))
    yield 'cluster-depth-is-depth-of-peak-channel-nan-without-spikes', ok_cd and not bad, bad[:4]
    sd = load_out(out, 'spikes.depths', label)
    ok_sd = sd is not None and sd.shape == (ns,)
    if ok_sd and S['pc_features'] is not None and S['pc_feature_rows'] is None and S['pc_features'].shape[0] == ns:
        f = np.maximum(S['pc_features'][:, 0, :].astype(np.float64), 0) ** 2
        ch = S['pc_feature_ind'][S['st']].astype(np.int64)
        with np.errstate(divide='ignore', invalid='ignore'):
            exp = (y[ch] * f).sum(axis=1) / f.sum(axis=1)
        yield 'spike-depth-is-feature-weighted-channel-depth', close(sd, exp), (sd.tolist()[:6], exp.tolist()[:6])
    elif ok_sd and S['pc_features'] is None:
        bad = []
        for s in range(ns):
            c = int(S['sc'][s])
            if c in amb:
                continue
            if not any(abs(sd[s] - y[p]) <= 1e-5 * max(1.0, abs(y[p])) for p in peaks[c]):
                bad.append((s, c, float(sd[s])))
        yield 'spike-depth-is-cluster-depth-without-features', not bad, bad[:4]
    else:
        yield 'spike-depths-present', ok_sd, ''
    # durations
    du = load_out(out, 'clusters.peakToTrough', label)
    ok_du = du is not None and du.shape == (ncl,)
    bad = []
    if ok_du:
        for c in range(ncl):
            if c in amb or not c_has[c]:
                if not S['curated'] and not c_has[c] and not (np.isnan(du[c]) or duration_ok(du[c], Wc[c], Uc[c], peaks[c], sr)):
                    bad.append((c, float(du[c])))
                continue
            if not duration_ok(du[c], Wc[c], Uc[c], peaks[c], sr):
                bad.append((c, float(du[c])))
    yield 'duration-is-peak-to-trough-time-in-ms', ok_du and not bad, bad[:4]
    # raw channel indices
    ri = load_out(out, 'channels.rawInd', label)
    if known_original_maps is not None:
        exp = np.concatenate([np.asarray(m, dtype=np.int64) for m in known_original_maps])
        yield 'raw-indices-are-each-probe-original-channel-map', ri is not None and np.array_equal(ri.astype(np.int64).reshape(-1), exp), (None if ri is None else ri.tolist(), exp.tolist())
    elif len(set(S['probes'].tolist())) == 1:
        yield 'raw-indices-are-the-channel-map', ri is not None and np.array_equal(ri.astype(np.int64).reshape(-1), S['channel_map'].astype(np.int64)), None if ri is None else ri.tolist()


# ----------------------------------------------------------------------------------------------------------
# Cases
# ----------------------------------------------------------------------------------------------------------
def case_values(inp):
    label, factor = inp.get('label', ''), inp.get('ampfactor', 1)
    ncc = inp.get('ncc') or DEFAULT_NCC
    with tempdir() as d, B.closest_channels_setting(inp.get('ncc')), warnings.catch_warnings():
        warnings.simplefilter('ignore')
        src = os.path.join(d, 'src')
        B.build_source(src, inp)
        S = B.read_source(src)
        m = MODEL.load_model(Path(src) / 'params.py')
        ret = None
        try:
            out = B.out_dir_for(d, src, inp)
            ret = ALF.EphysAlfCreator(m).convert(Path(out), label=label, ampfactor=factor)
            yield from check_values(out, S, label, factor, ncc)
        finally:
            B.close_model(m); B.close_model(ret)


def probe_ds(p, spec):
    nc, nt = len(spec['map']), spec['nt']
    ns = spec.get('ns', nt * (nt + 1) // 2 + 2)
    pos = spec.get('pos') or [[5.0 + 7.0 * (c % 2), 10.0 * c + 3.0 * p] for c in range(nc)]
    ds = B.base_ds(seed=spec.get('seed', p), ns=ns, nt=nt, nc=nc, channel_map=list(spec['map']), positions=pos,
                   spike_clusters=spec.get('sc', 'same'), n_channels_dat=max(spec['map']) + 1, peaks=spec.get('peaks', [(2 * t + p) % nc for t in range(nt)]),
                   whitening_inv=True)
    return ds


def case_merged(inp):
    """k probe directories -> phylib's Merger (real code, builds the input) -> ALF export of the merged dataset."""
    label, factor = inp.get('label', ''), inp.get('ampfactor', 1)
    ncc = inp.get('ncc') or DEFAULT_NCC
    with tempdir() as d, B.closest_channels_setting(inp.get('ncc')), warnings.catch_warnings():
        warnings.simplefilter('ignore')
        subdirs = []
        for p, spec in enumerate(inp['probes']):
            sd = os.path.join(d, 'probe%d' % p)
            ds = probe_ds(p, spec)
            B.build_source(sd, {'ds': ds})
            nt, nc = ds['n_templates'], ds['n_channels']
            # per-template index tables the merger insists on (signed: C12's uint32 cast defect is not this property's business)
            np.save(os.path.join(sd, 'pc_feature_ind.npy'), np.stack([np.roll(np.arange(nc), -t)[:min(2, nc)] for t in range(nt)]).astype(np.int32))
            np.save(os.path.join(sd, 'template_feature_ind.npy'), np.stack([np.roll(np.arange(nt), -t)[:min(2, nt)] for t in range(nt)]).astype(np.int32))
            subdirs.append(sd)
        merged = os.path.join(d, 'merged')
        mm = MERGE.Merger(subdirs, merged).merge()
        B.close_model(mm)
        S = B.read_source(merged)
        sizes = [len(s['map']) for s in inp['probes']]
        blocks = np.concatenate([[p] * n for p, n in enumerate(sizes)])
        yield '__nontrivial__', True, ''
        if not (S['nc'] == sum(sizes) and np.array_equal(S['probes'], blocks)):
            # the merger did not produce the block structure C12 promises: nothing to say about C14 on this input
            yield 'merged-input-has-one-block-per-probe', False, (S['probes'].tolist(), sizes)
            return
        m = MODEL.load_model(Path(merged) / 'params.py')
        ret = None
        try:
            out = os.path.join(d, 'out')
            ret = ALF.EphysAlfCreator(m).convert(Path(out), label=label, ampfactor=factor)
            yield from check_values(out, S, label, factor, ncc, known_original_maps=[s['map'] for s in inp['probes']])
        finally:
            B.close_model(m); B.close_model(ret)


CASES = {'values': case_values, 'merged': case_merged}


# ----------------------------------------------------------------------------------------------------------
# Known classes (decided from the input)
# ----------------------------------------------------------------------------------------------------------
def probe_sizes(case, inp):
    if case == 'merged':
        return [len(s['map']) for s in inp['probes']]
    pr = inp.get('ds', {}).get('probes')
    if pr is None:
        return [inp.get('ds', {}).get('n_channels', 4)]
    return [pr.count(v) for v in sorted(set(pr))]


def small_probe(case, inp):
    sizes = probe_sizes(case, inp)
    return len(sizes) > 1 and min(sizes) < min(inp.get('ncc') or DEFAULT_NCC, sum(sizes))


def third_probe_offset(case, inp):
    if case != 'merged':
        return False
    maps = [s['map'] for s in inp['probes']]
    return any(max(m) > 0 for m in maps[:max(0, len(maps) - 2)])


_B13 = B.KNOWN_CLASSES
KNOWN_CLASSES = {
    # DESIGN 6 row 18: +inf distances still sort, so a probe with fewer channels than the list length gets other probes' channels
    'peak_probe_has_fewer_channels_than_the_list': lambda case, clause, inp: small_probe(case, inp) and clause in (
        'template-listed-channels-on-peak-channel-probe', 'cluster-listed-channels-on-peak-channel-probe'),
    # DESIGN 6 row 11: make_channel_objects accumulates maxima of already shifted maps: wrong from the third probe on
    'raw_index_offset_accumulation_from_third_probe': lambda case, clause, inp: third_probe_offset(case, inp) and
        clause == 'raw-indices-are-each-probe-original-channel-map',
    # classes shared with C13 (conversion raises before anything can be compared)
    'highest_template_has_no_spike': lambda case, clause, inp: case == 'values' and _B13['highest_template_has_no_spike']('convert', clause, inp),
    'curated_with_no_empty_cluster_id': lambda case, clause, inp: case == 'values' and _B13['curated_with_no_empty_cluster_id']('convert', clause, inp),
    'feature_store_covers_subset_of_spikes': lambda case, clause, inp: case == 'values' and _B13['feature_store_covers_subset_of_spikes']('convert', clause, inp),
    'unsigned_spike_sample_near_recording_start': lambda case, clause, inp: case == 'values' and _B13['unsigned_spike_sample_near_recording_start']('convert', clause, inp),
}


# ----------------------------------------------------------------------------------------------------------
# Scope
# ----------------------------------------------------------------------------------------------------------
GRID = [[0.0, 0.0], [10.0, 0.0], [0.0, 10.0], [10.0, 10.0], [0.0, 20.0], [10.0, 20.0]]


def geometry_input(pos, ncc, probes=None, seed=0, label='', factor=1, sc='same', ns=None):
    nc = len(pos)
    nt = nc                                    # one template peaking on every channel
    ns = ns or nt * (nt + 1) // 2 + 1
    ds = B.base_ds(seed=seed, ns=ns, nt=nt, nc=nc, positions=[list(p) for p in pos], peaks=list(range(nc)), probes=probes, spike_clusters=sc)
    return {'ds': ds, 'ncc': ncc, 'label': label, 'ampfactor': factor, 'out': 'sibling'}


def enumerate_cases(ctx):
    quick = ctx.tier == 'quick'
    # ---- geometries with ties: every placement of 3..5 channels on a 2 x 3 grid, every channel a peak channel
    ctx.scope('values / geometry: all subsets of %s channels of a 2x3 grid with pitch 10 (distance ties, L1 != L2 orders), listed in two orders (quick: one), '
              'one template peaking on each channel, list length n_closest_channels in {2, 3, default 12}; single probe, and two-probe tables '
              'split 2+rest (class: probe smaller than the list) ' % ('3..5' if quick else '2..6'))
    i = 0
    for n in ((3, 4, 5) if quick else (2, 3, 4, 5, 6)):
        for sub in itertools.combinations(range(6), n):
            for order in ((i % 2,) if quick else (0, 1)):
                idx = list(sub)[::-1] if order else list(sub)
                pos = [GRID[k] for k in idx]
                for ncc in (2, 3, None):
                    if quick and i % 3 and ncc == 3:
                        continue
                    ctx.run('values', geometry_input(pos, ncc, seed=i % 7, factor=[1, 2.5][i % 2], label=['', 'x'][(i // 2) % 2]))
                if n >= 4 and (not quick or i % 3 == 0):
                    probes = [0, 0] + [1] * (n - 2)
                    for ncc in (2, None):
                        ctx.run('values', geometry_input(pos, ncc, probes=probes, seed=i % 7))
                i += 1
    # ---- datasets: raw / features / curation / whitening / unit factor
    st = B.spike_templates_for(12, 3)
    cur = B.curations(st, 3)
    ctx.scope('values / datasets: 12 spikes, 3 templates, 4..5 channels; curation {no file, identical, merge, merge leaving empty ids, split}; '
              'features {absent, present}; raw {absent, present}; whitening {absent, matrix, matrix+stored inverse}; shanks; unit factor '
              '{1, 2, 2.5, 2.34e-6}; labels; n_closest_channels {default, 2, 3}; sampling rates {100, 2500, 30000}; integer-valued templates (ties); '
              'spikeless template in the middle')
    k = 0
    for cname in ('absent', 'same', 'merge01', 'gapped', 'split_top'):
        for feat in (False, True):
            for raw in (None, B.RAW):
                for wh in ({'whitening': False}, {}, {'whitening_inv': True}):
                    if quick and (k % 2) and wh:
                        k += 1
                        continue
                    for ncc in (((None, 2) if k % 3 == 0 else (None, 2)[k % 2:][:1]) if quick else (None, 2, 3)):
                        ds = B.base_ds(seed=k % 6, nc=4 + (k % 2), spike_clusters=cur[cname], features=feat, raw=raw,
                                       sample_rate=[100.0, 2500.0, 30000.0][k % 3], **wh)
                        ctx.run('values', {'ds': ds, 'ncc': ncc, 'label': ['', 'probe00'][k % 2], 'ampfactor': [1, 2, 2.5, 2.34e-6][k % 4],
                                           'out': ['sibling', 'inside'][k % 2]})
                    k += 1
    for v in (dict(shanks=True), dict(int_valued=True), dict(templates_dtype='float64'), dict(template_scale=1e-3), dict(colvec=True),
              dict(shanks=True, n_channels=6), dict(int_valued=True, features=True)):
        for cname in ('absent', 'merge01', 'split_top'):
            for ncc in (None, 2):
                v2 = dict(v)
                nc = v2.pop('n_channels', 4)
                ctx.run('values', {'ds': B.base_ds(seed=3, nc=nc, spike_clusters=cur[cname], **v2), 'ncc': ncc, 'label': '', 'ampfactor': 2.0, 'out': 'sibling'})
    # curations that leave no id empty (reassignment of one spike, permuted ids): today the known class of C13
    for cname in ('reassign', 'permuted'):
        for ncc in (None, 2):
            ctx.run('values', {'ds': B.base_ds(seed=2, spike_clusters=cur[cname], features=(ncc is None)), 'ncc': ncc, 'label': '', 'ampfactor': 2.0, 'out': 'sibling'})
    st_mid = [0 if t == 1 else t for t in st]
    for sc in (None, 'same', [3 if t == 0 else t for t in st_mid]):
        for feat in (False, True):
            ctx.run('values', {'ds': B.base_ds(seed=4, spike_templates=st_mid, spike_clusters=sc, features=feat), 'label': '', 'ampfactor': 2.0, 'out': 'sibling'})
    # more than 12 channels on one probe: the default list is shorter than the probe
    for nc in (13, 16):
        for cname in ('absent', 'merge01'):
            ctx.run('values', {'ds': B.base_ds(seed=nc, nc=nc, nt=4, ns=14, spike_clusters=B.curations(B.spike_templates_for(14, 4), 4)[cname],
                                               peaks=[0, nc - 1, nc // 2, 5], features=(cname == 'absent')), 'label': '', 'ampfactor': 1.5, 'out': 'sibling'})
    # ---- merged datasets of 1..4 probes
    maps_pool = {2: [[0, 1], [1, 0], [3, 1]], 3: [[0, 1, 2], [2, 0, 1], [4, 0, 2]], 4: [[0, 1, 2, 3], [3, 1, 0, 2], [5, 0, 2, 7]]}
    ctx.scope('merged: 1..%d probes merged by phylib.io.merge.Merger, channel counts 2..4 (a one-channel probe is squeezed to 0-d by the merger itself: C12) with identity / permuted / gapped channel maps, 2 templates per '
              'probe peaking on different channels, list length n_closest_channels = 2 (every probe at least as large as the list) and default 12 '
              '(class: probe smaller than the list); plus two probes of 12 channels with the default list' % (3 if quick else 4))
    j = 0
    for kp in ((1, 2, 3) if quick else (1, 2, 3, 4)):
        for sizes in itertools.product((2, 3, 4), repeat=kp):
            if kp == 3 and quick and (sum(sizes) % 2 == 0):
                continue
            if kp == 4 and sum(sizes) % 3:
                continue
            for variant in range(2 if quick else 3):
                probes = []
                for p, n in enumerate(sizes):
                    pool = maps_pool[n]
                    probes.append({'map': pool[(p + variant + j) % len(pool)], 'nt': 2, 'seed': (j + p) % 5})
                for ncc in (2, None):
                    if quick and ncc is None and j % 3:
                        continue
                    ctx.run('merged', {'probes': probes, 'ncc': ncc, 'label': ['', 'probe00'][j % 2], 'ampfactor': [1, 2.5][j % 2]})
                j += 1
    big = [{'map': list(range(12)), 'nt': 3, 'seed': 1, 'peaks': [0, 11, 6]},
           {'map': [11 - c for c in range(12)], 'nt': 2, 'seed': 2, 'peaks': [3, 8]},
           {'map': list(range(2, 14)), 'nt': 2, 'seed': 3, 'peaks': [1, 10]}]
    for kp in (1, 2, 3):
        ctx.run('merged', {'probes': big[:kp], 'ncc': None, 'label': '', 'ampfactor': 2.0})
    ctx.run('merged', {'probes': [dict(big[0], sc=[5 if t == 0 else t for t in B.spike_templates_for(8, 3)]), big[1]], 'ncc': None, 'label': 'x', 'ampfactor': 1})
    # two probes whose first map is all zero offsets: [0] then anything, three probes (offset arithmetic degenerates to the right answer)
    ctx.run('merged', {'probes': [{'map': [0, 0], 'nt': 2}, {'map': [1, 0], 'nt': 2}, {'map': [2, 0, 1], 'nt': 2}], 'ncc': 2, 'label': '', 'ampfactor': 1})
    if not quick:
        ctx.scope('thorough: seeded random datasets (2..6 templates, 2..16 channels on random distinct grid positions, random probe tables of 1..2 probes, '
                  'random curation, features, whitening, unit factors, list length 1..4 or default) and random merges of 1..4 probes with 2..5 channels')
        rs = np.random.RandomState(ctx.seed + 14)
        for r in range(300):
            nc, nt = int(rs.randint(2, 17)), int(rs.randint(2, 7))
            ns = int(rs.randint(nt * (nt + 1) // 2, nt * (nt + 1) // 2 + 20))
            pts = [(int(a) * 10.0, int(b) * 10.0) for a in range(4) for b in range(8)]
            pos = [list(pts[q]) for q in rs.permutation(len(pts))[:nc]]
            stx = B.spike_templates_for(ns, nt)
            mode = int(rs.randint(0, 4))
            if mode == 0:
                sc = None
            elif mode == 1:
                sc = 'same'
            else:
                sc = list(stx)
                new = nt
                for t in rs.permutation(nt)[:int(rs.randint(1, nt))]:      # merge / split whole templates into new ids
                    if rs.rand() < 0.5:
                        sc = [new if x == t else x for x in sc]
                    else:
                        idx = [q for q, x in enumerate(stx) if x == t]
                        for q_, q in enumerate(idx):
                            sc[q] = new + (q_ % 2)
                        new += 1
                    if rs.rand() < 0.6:
                        new += 1
            probes = None
            if rs.rand() < 0.4:
                cut = int(rs.randint(1, nc))
                probes = [0] * cut + [1] * (nc - cut)
            ncc = [None, 1, 2, 3, 4][int(rs.randint(0, 5))]
            ds = B.base_ds(seed=int(rs.randint(0, 1000)), ns=ns, nt=nt, nc=nc, positions=pos, spike_clusters=sc, probes=probes,
                           peaks=[int(x) for x in rs.randint(0, nc, size=nt)], features=bool(rs.rand() < 0.4), whitening=bool(rs.rand() < 0.8),
                           raw=(B.RAW if rs.rand() < 0.3 else None), shanks=bool(rs.rand() < 0.2),
                           sample_rate=[100.0, 2500.0, 30000.0][int(rs.randint(0, 3))])
            ctx.run('values', {'ds': ds, 'ncc': ncc, 'label': ['', 'x'][int(rs.randint(0, 2))], 'ampfactor': [1, 2, 2.5, 2.34e-6][int(rs.randint(0, 4))], 'out': 'sibling'})
        for r in range(150):
            kp = int(rs.randint(1, 5))
            probes = []
            for p in range(kp):
                n = int(rs.randint(2, 6))
                top = n + int(rs.randint(0, 3))
                probes.append({'map': [int(x) for x in rs.permutation(top)[:n]], 'nt': int(rs.randint(2, 4)), 'seed': int(rs.randint(0, 50))})
            ncc = [None, 1, 2, 2][int(rs.randint(0, 4))]
            ctx.run('merged', {'probes': probes, 'ncc': ncc, 'label': ['', 'x'][int(rs.randint(0, 2))], 'ampfactor': [1, 2.5][int(rs.randint(0, 2))]})
