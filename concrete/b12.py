# C12 — merged channel and template arrays are block-structured by probe.  Bounded stand-in (tier B):
# the contracts of DESIGN 4/C12 evaluated on the real phylib.io.merge.Merger writers over an exhaustive small scope.
#
# Ghost quantities of the contracts: C_k = sum of the channel counts of the probes before k, T_k = the same for
# template counts.  Readings (DESIGN Appendix G / 2.13): raw channel indices of different probes are NOT required to
# be disjoint (only: block k of channel_map.npy = probe k's map in input order plus ONE per-probe constant); "keeps
# different probes apart" = the x-extents of different probes' blocks do not meet; a matrix that some probe lacks
# is either not written (the code's choice) or still has the full size and the existing per-probe matrices as diagonal blocks.
# Index tables hold non-negative local indices; all probes use the same dtype for the same file and the same
# number of waveform samples and of table columns (the merger's own stated assumption).
import os, io, json, atexit, shutil, tempfile, itertools, contextlib, runpy
import numpy as np
from concrete.common import dir_digest
from concrete.b11 import write_probe, probe_defaults

from phylib.io import merge as M

CONTRACTED = ['phylib/io/merge.py::Merger.write_channel_data', 'phylib/io/merge.py::Merger.write_channel_positions',
              'phylib/io/merge.py::Merger.write_templates', 'phylib/io/merge.py::Merger.write_template_data',
              'phylib/io/merge.py::Merger.write_misc', 'phylib/io/merge.py::Merger.write_params',
              'phylib/io/merge.py::Merger.merge']

MATRICES = {'whitening_mat.npy': 'whitening', 'whitening_mat_inv.npy': 'whitening_inv', 'similar_templates.npy': 'similar'}


def cum(xs):
    out = [0]
    for x in xs:
        out.append(out[-1] + x)
    return out


def block_diagonal(mats):
    n = sum(m.shape[0] for m in mats)
    out = np.zeros((n, n), dtype=np.float64)
    o = 0
    for m in mats:
        out[o:o + m.shape[0], o:o + m.shape[0]] = m
        o += m.shape[0]
    return out


# ----------------------------------------------------------------------------------------------------------
# Clauses, one group per output file (oracles: per-probe arithmetic on the inputs)
# ----------------------------------------------------------------------------------------------------------
def check_channels(out, S):
    C = cum(s['nc'] for s in S)
    cm = np.load(os.path.join(out, 'channel_map.npy'))
    cp = np.load(os.path.join(out, 'channel_probe.npy'))
    yield 'channel-arrays-have-one-entry-per-input-channel', cm.shape == (C[-1],) and cp.shape == (C[-1],), (cm.shape, cp.shape)
    if cm.shape != (C[-1],) or cp.shape != (C[-1],):
        return
    for k, s in enumerate(S):
        blk = cm[C[k]:C[k + 1]].astype(np.int64) - np.asarray(s['chanmap'], dtype=np.int64)
        yield 'channels-of-probe-form-one-block-in-input-order[probe=%d]' % k, bool(np.all(blk == blk[0])), (cm.tolist(), s['chanmap'])
        yield 'block-labelled-with-probe-index[probe=%d]' % k, cp[C[k]:C[k + 1]].tolist() == [k] * s['nc'], cp.tolist()
    yield 'raw-channel-indices-non-negative-integers', cm.dtype.kind in 'iu' and int(cm.min()) >= 0, cm.tolist()


def check_positions(out, S):
    C = cum(s['nc'] for s in S)
    pos = np.load(os.path.join(out, 'channel_positions.npy'))
    yield 'positions-have-one-row-per-input-channel', pos.shape == (C[-1], 2), pos.shape
    if pos.shape != (C[-1], 2):
        return
    ext = []
    for k, s in enumerate(S):
        src = np.asarray(s['pos'], dtype=np.float64).reshape((-1, 2))
        blk = pos[C[k]:C[k + 1]].astype(np.float64)
        dx = blk[:, 0] - src[:, 0]
        scale = 1.0 + float(np.abs(blk[:, 0]).max())
        yield 'geometry-kept-up-to-x-translation[probe=%d]' % k, \
            bool(np.array_equal(blk[:, 1], src[:, 1]) and np.all(np.abs(dx - dx[0]) <= 1e-9 * scale)), (blk.tolist(), src.tolist())
        ext.append((float(blk[:, 0].min()), float(blk[:, 0].max())))
    apart = all(ext[a][1] < ext[b][0] or ext[b][1] < ext[a][0] for a in range(len(ext)) for b in range(a + 1, len(ext)))
    yield 'x-translation-keeps-different-probes-apart', apart, ext


def check_templates(out, S):
    C = cum(s['nc'] for s in S)
    T = cum(s['nt'] for s in S)
    tp = np.load(os.path.join(out, 'templates.npy'))
    shape = (T[-1], S[0]['nsw'], C[-1])
    yield 'templates-shape-is-(sum-templates,samples,sum-channels)', tp.shape == shape, (tp.shape, shape)
    if tp.shape != shape:
        return
    for k, s in enumerate(S):
        exp = np.zeros((s['nt'],) + shape[1:], dtype=np.float64)
        exp[:, :, C[k]:C[k + 1]] = s['truth']['templates']
        got = tp[T[k]:T[k + 1]].astype(np.float64)
        own = np.array_equal(got[:, :, C[k]:C[k + 1]], exp[:, :, C[k]:C[k + 1]])
        yield 'template-at-offset-index-with-waveform-on-own-channel-block[probe=%d]' % k, own, got.tolist()
        rest = got.copy()
        rest[:, :, C[k]:C[k + 1]] = 0
        yield 'template-zero-on-all-other-channels[probe=%d]' % k, not rest.any(), got.tolist()


def check_template_data(out, S):
    C = cum(s['nc'] for s in S)
    T = cum(s['nt'] for s in S)
    for fn, key, base, what in (('pc_feature_ind.npy', 'pc_ind', C, 'channel'), ('template_feature_ind.npy', 'tf_ind', T, 'template')):
        a = np.load(os.path.join(out, fn))
        ncol = len(S[0][key][0])
        yield '%s-table-has-one-row-per-template' % what, a.shape == (T[-1], ncol) and a.dtype.kind in 'iu', (a.shape, str(a.dtype))
        if a.shape != (T[-1], ncol):
            continue
        for k, s in enumerate(S):
            exp = np.asarray(s[key], dtype=np.int64) + base[k]
            yield '%s-index-table-shifted-into-merged-%s-numbering[probe=%d]' % (what, what, k), \
                np.array_equal(a[T[k]:T[k + 1]].astype(np.int64), exp), (a.tolist(), exp.tolist())


def check_misc(out, S, loaded=False):
    for fn, flag in MATRICES.items():
        have = [s[flag] for s in S]
        path = os.path.join(out, fn)
        if loaded and fn == 'whitening_mat_inv.npy' and not all(have):
            continue        # load_model() itself computes and stores a missing inverse: not the merger's file any more
        if all(have):
            if not os.path.exists(path):
                yield 'matrix-is-block-diagonal-of-per-probe-matrices[%s]' % fn, False, 'not written'
                continue
            a = np.load(path)
            exp = block_diagonal([s['truth'][fn] for s in S])
            yield 'matrix-is-block-diagonal-of-per-probe-matrices[%s]' % fn, a.shape == exp.shape and np.array_equal(a, exp), (a.tolist(), exp.tolist())
        elif os.path.exists(path):
            # some probe lacks the matrix: either nothing is written (what the code does) or a full-size block-diagonal matrix
            # carrying the matrices of the probes that have one
            a = np.load(path)
            sizes = cum(s['nt' if flag == 'similar' else 'nc'] for s in S)
            ok = a.shape == (sizes[-1], sizes[-1])
            if ok:
                off = a.astype(np.float64).copy()
                for k, s in enumerate(S):
                    blk = a[sizes[k]:sizes[k + 1], sizes[k]:sizes[k + 1]]
                    ok = ok and (not s[flag] or np.array_equal(blk, s['truth'][fn]))
                    off[sizes[k]:sizes[k + 1], sizes[k]:sizes[k + 1]] = 0
                ok = ok and not off.any()
            yield 'matrix-missing-in-some-probe-not-written-or-still-block-structured[%s]' % fn, ok, a.tolist()


def check_params(out, S):
    prm = runpy.run_path(os.path.join(out, 'params.py'))      # a params file is plain Python assignments
    yield 'params-keep-sampling-rate', prm.get('sample_rate') == float(S[0]['sr']), prm.get('sample_rate')
    yield 'params-declare-summed-raw-channel-count', prm.get('n_channels_dat') == sum(s['ncd'] for s in S), prm.get('n_channels_dat')


def check_spike_template_numbering(out, S):
    """The merged template numbering is the one the merged spikes use: a spike of probe k with template t points at the row
    of templates.npy that holds probe k's template t (C11's per-probe template offset == C12's offset index)."""
    from concrete.b11 import merged_order
    T = cum(s['nt'] for s in S)
    st = np.load(os.path.join(out, 'spike_templates.npy'))
    order = merged_order([s['times'] for s in S])
    ok = len(st) == len(order) and all(int(m) == T[p] + S[p]['st'][i] for m, (p, i) in zip(st, order))
    yield 'spike-template-ids-point-at-the-offset-index-of-their-template', ok, (st.tolist(), T)


# The writers run in the driver's own order up to the one under test (they hand state to each other through the Merger
# object: spike_order, cluster/template/channel offsets); write_misc and write_params only read files.
ORDER = ['write_params', 'write_probe_desc', 'write_spike_times', 'write_spike_data', 'write_spike_clusters', 'write_cluster_data',
         'write_channel_data', 'write_channel_positions', 'write_templates', 'write_template_data', 'write_misc']


def upto(name):
    return tuple(ORDER[:ORDER.index(name) + 1])


# part -> (Merger methods called, clause groups)
PARTS = {
    'channels': (upto('write_channel_positions'), (check_channels, check_positions)),
    'templates': (upto('write_templates'), (check_templates,)),
    'template_data': (upto('write_template_data'), (check_template_data,)),
    'misc': (('write_misc',), (check_misc,)),
    'params': (('write_params',), (check_params,)),
    'merge_e2e': (('merge',), (check_params, check_channels, check_positions, check_templates, check_template_data, check_misc,
                               check_spike_template_numbering)),
}

# The (complete) input directories of one input are written once and shared by the parts evaluated on it in a row: the
# writers must leave them byte-identical (checked around every call; a violation discards the shared copy).
_SHARED = {}


def _drop_shared():
    if _SHARED:
        shutil.rmtree(_SHARED['root'], ignore_errors=True)
        _SHARED.clear()


atexit.register(_drop_shared)


def shared_inputs(specs):
    key = json.dumps(specs, sort_keys=True)
    if _SHARED.get('key') != key:
        _drop_shared()
        root = tempfile.mkdtemp(prefix='pvc_')
        dirs = [os.path.join(root, 'probe%d' % p) for p in range(len(specs))]
        S = [write_probe(d, p, s) for p, (d, s) in enumerate(zip(dirs, specs))]
        _SHARED.update(key=key, root=root, dirs=dirs, S=S, digest=[dir_digest(d) for d in dirs], n=0)
    _SHARED['n'] += 1
    return _SHARED


def make_case(part):
    calls, checks = PARTS[part]

    def case(inp):
        sh = shared_inputs(inp['probes'])
        dirs, S = sh['dirs'], sh['S']
        out = os.path.join(sh['root'], 'merged%d' % sh['n'])
        try:
            m = M.Merger(dirs, out)
            model = None
            for c in calls:
                if c == 'merge':
                    with contextlib.redirect_stderr(io.StringIO()):     # tqdm bar
                        model = m.merge()
                else:
                    getattr(m, c)()
            same = sh['digest'] == [dir_digest(d) for d in dirs]
            if not same:
                _SHARED['key'] = None
            yield 'input-directories-byte-identical', same, ''
            for chk in checks:
                yield from (chk(out, S, True) if chk is check_misc and model is not None else chk(out, S))
            if model is not None:
                yield 'model-declares-summed-counts', (model.n_channels, model.n_templates, model.n_channels_dat) == \
                    (sum(s['nc'] for s in S), sum(s['nt'] for s in S), sum(s['ncd'] for s in S)), (model.n_channels, model.n_templates, model.n_channels_dat)
                yield 'model-keeps-sampling-rate', float(model.sample_rate) == float(S[0]['sr']), model.sample_rate
                yield 'model-channel-probes', np.asarray(model.channel_probes).tolist() == [k for k, s in enumerate(S) for _ in range(s['nc'])], ''
                model.close()
        except BaseException:
            if sh['digest'] != [dir_digest(d) for d in dirs]:
                _SHARED['key'] = None
            raise
        finally:
            shutil.rmtree(out, ignore_errors=True)
    return case


CASES = {part: make_case(part) for part in PARTS}


# ----------------------------------------------------------------------------------------------------------
# Known classes on the unchanged tree (DESIGN section 6 rows 10, 12, 13 + the squeeze degeneracy); decided from the input
# ----------------------------------------------------------------------------------------------------------
def _specs(inp):
    return [probe_defaults(p, s) for p, s in enumerate(inp['probes'])]


def _probe_of(clause):
    return int(clause.split('[probe=')[1].rstrip(']')) if '[probe=' in clause else None


def _degenerate(case, S):
    """A probe whose channel_map / templates / tables lose a dimension under np.load(...).squeeze()."""
    one_c = any(s['nc'] == 1 for s in S)
    one_t = any(s['nt'] == 1 for s in S)
    return {'channels': one_c, 'templates': one_c or one_t, 'template_data': one_c or one_t, 'misc': False, 'params': False,
            'merge_e2e': one_c or one_t}[case]


def _code_channel_offsets(S):
    """Offsets the channel-map convention implies: block k is shifted by the largest raw index used so far."""
    offs, o = [], 0
    for s in S:
        offs.append(o)
        o = max(s['chanmap']) + o
    return offs


def k_single_channel_or_template(case, clause, inp):
    return clause == 'no-unexpected-exception' and _degenerate(case, _specs(inp))


def k_templates_third_probe(case, clause, inp):
    k = _probe_of(clause)
    return case in ('templates', 'merge_e2e') and k is not None and k >= 2 and (clause.startswith('template-at-offset-index') or clause.startswith('template-zero-on-all-other'))


def k_unsigned_table_cast(case, clause, inp):
    S = _specs(inp)
    return case in ('template_data', 'merge_e2e') and clause == 'no-unexpected-exception' and len(S) >= 2 and not _degenerate(case, S) \
        and np.dtype(S[0]['ind_dtype']).kind == 'u' and np.dtype(S[0]['chanmap_dtype']).kind == 'i'


def k_pc_ind_shift(case, clause, inp):
    S = _specs(inp)
    k = _probe_of(clause)
    if not clause.startswith('channel-index-table-shifted') or k is None or k == 0:
        return False
    return _code_channel_offsets(S)[k] != cum(s['nc'] for s in S)[k]


def k_tf_ind_shift(case, clause, inp):
    S = _specs(inp)
    k = _probe_of(clause)
    if not clause.startswith('template-index-table-shifted') or k is None or k == 0:
        return False
    return _code_channel_offsets(S)[k] != cum(s['nt'] for s in S)[k]


def k_no_x_gap(case, clause, inp):
    S = _specs(inp)
    if clause != 'x-translation-keeps-different-probes-apart':
        return False
    xs = [[float(r[0]) for r in s['pos']] for s in S]
    return any(max(xs[k]) == min(xs[k]) and min(xs[k + 1]) == 0 for k in range(len(S) - 1))


def k_unused_top_template(case, clause, inp):
    S = _specs(inp)
    return clause == 'spike-template-ids-point-at-the-offset-index-of-their-template' and \
        any(max(s['st']) + 1 < s['nt'] for s in S[:-1])


KNOWN_CLASSES = {
    'probe-with-a-single-channel-or-single-template(squeeze)': k_single_channel_or_template,
    'write_templates-column-offset-not-cumulative(third-probe-on)': k_templates_third_probe,
    'write_template_data-unsigned-table-with-signed-channel-map-cast-error': k_unsigned_table_cast,
    'write_template_data-channel-table-shifted-by-channel-map-maximum-not-channel-count': k_pc_ind_shift,
    'write_template_data-template-table-shifted-by-channel-offset-not-template-count': k_tf_ind_shift,
    'no-x-translation-after-a-zero-width-probe-when-next-probe-starts-at-x=0': k_no_x_gap,
    'top-template-of-a-non-last-probe-has-no-spike(template-offset-max+1-vs-count)': k_unused_top_template,
}


# ----------------------------------------------------------------------------------------------------------
# Scope
# ----------------------------------------------------------------------------------------------------------
def chan_map(kind, nc):
    base = {'identity': list(range(nc)), 'reversed': list(range(nc))[::-1], 'one-based': list(range(1, nc + 1)),
            'rotated-one-based': [1 + (c + 1) % nc for c in range(nc)], 'gapped': [2 * ((nc - c) % nc) + 1 for c in range(nc)]}
    return base[kind]


MAPS = ['identity', 'reversed', 'one-based', 'rotated-one-based', 'gapped']


def positions(kind, nc):
    if kind == 'two-columns':
        return [[7.0 * (c % 2), 10.0 * c] for c in range(nc)]
    if kind == 'column-at-0':
        return [[0.0, 10.0 * c] for c in range(nc)]
    if kind == 'column-at-5':
        return [[5.0, 20.0 * c + 1] for c in range(nc)]
    if kind == 'wide':
        return [[43.5 * c + 2, 3.0 * (c % 2)] for c in range(nc)]
    raise ValueError(kind)


POS = ['two-columns', 'column-at-0', 'column-at-5', 'wide']


def spikes_for(p, nt, use_top=True):
    """>= 2 spikes; every template has a spike (or every one but the top one)."""
    ids = list(range(nt if use_top or nt == 1 else nt - 1))
    st = ids + [ids[0]]
    times = sorted((3 * i + p) % 5 for i in range(len(st)))
    return {'times': times, 'st': st, 'sc': list(st), 'amps': [0.5 + 16 * p + i for i in range(len(st))]}


def build(p, nc, nt, R, **fix):
    s = {'nc': nc, 'nt': nt, 'nsw': fix.get('nsw', 2)}
    mk = fix.get('map', MAPS[R.randrange(len(MAPS))])
    s['chanmap'] = chan_map(mk, nc)
    s['ncd'] = max(s['chanmap']) + 1 + fix.get('extra_raw', R.randrange(3))      # raw file may be wider than the map
    s['pos'] = positions(fix.get('pos', POS[R.randrange(len(POS))]), nc)
    s['sr'] = fix.get('sr', 100.0)
    for key in ('chanmap_dtype', 'ind_dtype', 'tpl_dtype', 'whitening', 'whitening_inv', 'similar', 'colvec'):
        if key in fix:
            s[key] = fix[key]
    s.update(spikes_for(p, nt, fix.get('use_top', True)))
    # index tables: >= 2 columns whenever the probe has >= 2 channels / templates
    nloc = min(2, nc) if fix.get('ncols') is None else fix['ncols']
    s['n_loc'] = nloc
    s['pc_ind'] = [[(t + j + p) % nc for j in range(nloc)] for t in range(nt)]
    ntl = fix.get('ntcols', 2)
    s['n_tloc'] = ntl
    s['tf_ind'] = [[(t + j) % nt for j in range(ntl)] for t in range(nt)]
    return s


DTYPES = [('int32', 'int32'), ('int32', 'uint32'), ('int64', 'int64'), ('uint32', 'uint32'), ('int32', 'int64'), ('int64', 'uint32')]   # (map, tables)


def enumerate_cases(ctx):
    quick = ctx.tier == 'quick'
    R = ctx.rng
    parts = ['channels', 'templates', 'template_data', 'misc', 'params']

    def shared(k):
        cd, idt = DTYPES[R.randrange(len(DTYPES))]
        present = R.choice(('all', 'all', 'some', 'none'))
        fx = []
        for p in range(k):
            on = present == 'all' or (present == 'some' and p != R.randrange(k))
            fx.append({'chanmap_dtype': cd, 'ind_dtype': idt, 'whitening': on, 'whitening_inv': on and R.randrange(2) == 0,
                       'similar': (present != 'none') and (on or R.randrange(2) == 0), 'tpl_dtype': 'float32'})
        if present == 'all':
            inv = R.randrange(2) == 0
            for f in fx:
                f['whitening_inv'] = inv
                f['similar'] = True
        return fx

    def run_parts(sizes, **fix):
        k = len(sizes)
        fx = shared(k)
        ncols = 1 if any(nc == 1 for nc, _ in sizes) else 2          # same number of table columns in every probe
        ntcols = 1 if any(nt == 1 for _, nt in sizes) else 2
        probes = [build(p, nc, nt, R, ncols=ncols, ntcols=ntcols, **dict(fx[p], **fix)) for p, (nc, nt) in enumerate(sizes)]
        for part in parts:
            ctx.run(part, {'probes': probes})
        return probes

    NC = (1, 2, 3)
    pairs = list(itertools.product(NC, NC))
    ctx.scope('every Merger channel/template writer separately on real directories: 1..3 probes, every combination of channel counts '
              '1..3 and template counts 1..3 per probe (3 probes: %s), channel maps identity/reversed/one-based/rotated/gapped, '
              '4 x-layouts incl. single columns at x=0 and x=5, signed/unsigned map and table dtypes, matrices in all/some/none of '
              'the probes, raw files wider than the map' % ('a seeded tenth of the 729 combinations' if quick else 'all 729'))
    for a in pairs:
        run_parts([a])
    for a in pairs:
        for b in pairs:
            run_parts([a, b])
    for a in pairs:
        for b in pairs:
            for c in pairs:
                if quick and R.randrange(10):
                    continue
                run_parts([a, b, c])
    # the input classes where a cumulative offset and the convention actually used by the code coincide: keeps the
    # shift clauses sharp for >= 2 probes (one-based maps: channel-map maximum == channel count; nc == nt: C_k == T_k)
    ctx.scope('2..4 probes with one-based channel maps and equal channel/template counts per probe (2..4), signed tables: the classes '
              'on which the table-shift clauses must hold on the unchanged tree')
    for k in (2, 3, 4):
        for sizes in itertools.product((2, 3, 4), repeat=k):
            if k == 4 and (quick or len(set(sizes)) == 1) and R.randrange(4):
                continue
            if k == 3 and quick and R.randrange(2):
                continue
            for mk in ('one-based', 'rotated-one-based'):
                fx = {'map': mk, 'chanmap_dtype': 'int32', 'ind_dtype': R.choice(('int32', 'int64')), 'pos': R.choice(('two-columns', 'wide'))}
                probes = [build(p, n, n, R, **fx) for p, n in enumerate(sizes)]
                for part in ('template_data', 'channels', 'templates'):
                    ctx.run(part, {'probes': probes})
    ctx.scope('Merger.merge() end to end: 1..3 probes%s, channel/template counts 2..3 (plus the degenerate 1), all files checked on the '
              'output directory and the returned model' % ('' if quick else ' (4 probes sampled)'))
    for k in (1, 2, 3) if quick else (1, 2, 3, 4):
        combos = list(itertools.product(list(itertools.product((2, 3), (2, 3))), repeat=k))
        R.shuffle(combos)
        for sizes in combos[:(8 if quick else 40)]:
            fx = shared(k)
            for f in fx:
                f['use_top'] = R.randrange(4) != 0
            probes = [build(p, nc, nt, R, **fx[p]) for p, (nc, nt) in enumerate(sizes)]
            ctx.run('merge_e2e', {'probes': probes})
    for sizes in ([(1, 2), (2, 2)], [(2, 1), (2, 2)], [(2, 2), (1, 1)], [(1, 1)]):
        probes = [build(p, nc, nt, R, ncols=1 if any(c == 1 for c, _ in sizes) else 2, ntcols=1 if any(t == 1 for _, t in sizes) else 2,
                        chanmap_dtype='int32', ind_dtype='int32') for p, (nc, nt) in enumerate(sizes)]
        ctx.run('merge_e2e', {'probes': probes})
    if not quick:
        ctx.scope('seeded random larger probes: 2..5 probes, 2..6 channels, 2..5 templates, 3..4 samples')
        for _ in range(250):
            k = R.randint(2, 5)
            nsw = R.randint(3, 4)
            fx = shared(k)
            probes = [build(p, R.randint(2, 6), R.randint(2, 5), R, nsw=nsw, **fx[p]) for p in range(k)]
            for part in parts:
                ctx.run(part, {'probes': probes})
