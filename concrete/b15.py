# C15 — correlograms count exactly the spike pairs in each lag bin.  Bounded stand-in (tier B):
# the contracts of DESIGN 4/C15 evaluated on the real functions over an exhaustive small scope
# plus seeded random long trains, against a brute-force pair count written from the statement.
#
# Inputs live on an integer sample grid: spike a fires at tick[a] (non-decreasing), the times
# handed to phylib are tick / sr seconds, the bin is `bin` ticks (bin_size = bin / sr seconds)
# and the window `win` ticks.  Preconditions (quantifier + DESIGN Appendix G): times
# non-decreasing; every spike's cluster occurs in cluster_ids when a list is given;
# time * sample_rate exact (checked in float arithmetic by `_pre`, such inputs are simply not
# generated); bin * sample_rate a whole number of samples; the half-window floor(win / (2 bin))
# is either computed exactly (dyadic sample rate) or well away from an integer boundary.
import itertools, signal, threading
import numpy as np

from phylib.stats import ccg as G

CONTRACTED = ['phylib/stats/ccg.py::correlograms', 'phylib/stats/ccg.py::_increment',
              'phylib/stats/ccg.py::_diff_shifted', 'phylib/stats/ccg.py::_symmetrize_correlograms',
              'phylib/stats/ccg.py::_create_correlograms_array', 'phylib/stats/ccg.py::firing_rate',
              'phylib/io/array.py::_index_of', 'phylib/io/array.py::_unique']


# ------------------------------------------------------------------------------------------------
# Oracle (plain Python / NumPy, never calls phylib)
# ------------------------------------------------------------------------------------------------

def _dyadic(x):
    m, _ = np.frexp(float(x))
    return float(m) == 0.5


def _pre(ticks, sr, m, w):
    """Precondition 'time*rate exact' (+ bin and window land on the grid unambiguously)."""
    sr = float(sr)
    if not (sr > 0 and m >= 1 and w >= 0):
        return False
    if any(ticks[i] > ticks[i + 1] for i in range(len(ticks) - 1)):
        return False
    for k in set(ticks):
        if (k / sr) * sr != k:
            return False
    if sr * (m / sr) != m:
        return False
    if not (1e-5 <= m / sr <= 1e5 and 1e-5 <= max(w, 1) / sr <= 1e5) or w < 1:
        return False  # the library clips bin and window to [1e-5, 1e5] s: not part of the statement
    if _dyadic(sr):
        return True
    frac = (w % (2 * m)) / float(2 * m)
    return 0.2 <= frac <= 0.8


def _order(labels, ids):
    return list(ids) if ids is not None else sorted(set(labels))


def brute_one_sided(ticks, labels, order, m, half):
    """C[i, j, k] = #{(a, b): a < b, label[a] = order[i], label[b] = order[j],
    floor((t_b - t_a) / bin) = k <= half}."""
    pos = {c: i for i, c in enumerate(order)}
    nc = len(order)
    C = np.zeros((nc, nc, half + 1), dtype=np.int64)
    n = len(ticks)
    if n <= 12:
        for a in range(n):
            for b in range(a + 1, n):
                k = (ticks[b] - ticks[a]) // m
                if k <= half:
                    C[pos[labels[a]], pos[labels[b]], k] += 1
        return C
    t = np.asarray(ticks, dtype=np.int64)
    li = np.array([pos[c] for c in labels], dtype=np.int64)
    for a in range(n - 1):  # row-wise: all b > a
        k = (t[a + 1:] - t[a]) // m
        ok = k <= half
        np.add.at(C, (np.full(int(ok.sum()), li[a]), li[a + 1:][ok], k[ok]), 1)
    return C


def _cl(name, ok, detail):
    """A clause triple; the witness detail (a thunk) is only rendered when the clause fails."""
    ok = bool(ok)
    return name, ok, ('' if ok else detail())


def _sym_clauses(S, C, half, tag=''):
    """Clauses of the sentence about the symmetrised result; C = one-sided counts (oracle)."""
    nc = C.shape[0]
    yield _cl('sym-has-2*half+1-bins' + tag, S.shape == (nc, nc, 2 * half + 1), lambda: S.shape)
    if S.shape != (nc, nc, 2 * half + 1):
        return
    mir = np.transpose(S, (1, 0, 2))[..., ::-1]
    yield _cl('sym-C[i,j,k]==C[j,i,-k]' + tag, np.array_equal(S, mir), lambda: S.tolist())
    yield _cl('sym-reproduces-one-sided-counts-at-positive-lags' + tag, np.array_equal(S[..., half + 1:], C[..., 1:]),
              lambda: ('got', S[..., half + 1:].tolist(), 'expected', C[..., 1:].tolist()))
    yield _cl('sym-centre-is-larger-of-the-two-zero-lag-counts' + tag,
              np.array_equal(S[..., half], np.maximum(C[..., 0], C[..., 0].T)),
              lambda: ('got centre', S[..., half].tolist(), 'one-sided zero-lag counts', C[..., 0].tolist()))


# ------------------------------------------------------------------------------------------------
# Cases
# ------------------------------------------------------------------------------------------------

# Watchdog: the shift loop of correlograms() is data dependent; a broken exit condition must show up as a failed
# evaluation, not as a checker that never returns.  The alarm is armed only around the calls into phylib, so the
# TimeoutError is raised from inside a /repo frame and recorded as 'no-unexpected-exception'.  After _MAX_HANGS
# timeouts the remaining inputs fail the clause 'returns-within-10s' without calling the function again.
_TIMEOUT_S, _MAX_HANGS = 10.0, 3
_hangs = [0]


def _on_alarm(signum, frame):
    _hangs[0] += 1
    raise TimeoutError('no result within %g s' % _TIMEOUT_S)


class _watchdog:
    def __enter__(self):
        self.armed = threading.current_thread() is threading.main_thread() and hasattr(signal, 'setitimer')
        if self.armed:
            signal.signal(signal.SIGALRM, _on_alarm)
            signal.setitimer(signal.ITIMER_REAL, _TIMEOUT_S)

    def __exit__(self, *a):
        if self.armed:
            signal.setitimer(signal.ITIMER_REAL, 0)
        return False


def case_ccg(inp):
    ticks, labels, ids = inp['ticks'], inp['labels'], inp['ids']
    sr, m, w = float(inp['sr']), inp['bin'], inp['win']
    base = inp.get('base', 0)
    ticks = [base + k for k in ticks]
    assert len(ticks) == len(labels)
    assert _pre(ticks, sr, m, w), 'input outside the precondition (harness bug)'
    assert ids is None or (set(labels) <= set(ids) and len(set(ids)) == len(ids))
    assert all(c >= 0 for c in labels)
    half = w // (2 * m)
    order = _order(labels, ids)
    tag = '' if ids is not None else '[ids=None:ascending-distinct-labels]'
    exp = brute_one_sided(ticks, labels, order, m, half)

    def args():
        # fresh arrays per call: nothing depends on the callee leaving its inputs alone
        st = np.array([k / sr for k in ticks], dtype=np.float64)
        sc = np.array(labels, dtype=np.dtype(inp.get('ldtype', 'int64')))
        cid = None if ids is None else (list(ids) if inp.get('ids_as', 'list') == 'list' else np.array(ids, dtype=np.int64))
        return dict(spike_times=st, spike_clusters=sc, cluster_ids=cid, sample_rate=sr,
                    bin_size=m / sr, window_size=w / sr)

    if _hangs[0] >= _MAX_HANGS:
        yield 'returns-within-%gs' % _TIMEOUT_S, False, 'not called: %d earlier inputs already timed out' % _hangs[0]
        return
    with _watchdog():
        one = np.asarray(G.correlograms(symmetrize=False, **args()))
    yield _cl('one-sided-shape-is-(n_clusters,n_clusters,half+1)' + tag, one.shape == exp.shape, lambda: (one.shape, exp.shape))
    yield _cl('one-sided-entry-equals-brute-force-pair-count' + tag, one.shape == exp.shape and np.array_equal(one, exp),
              lambda: ('got', one.tolist(), 'expected', exp.tolist()))
    with _watchdog():
        sym = np.asarray(G.correlograms(symmetrize=True, **args()))
    yield from _sym_clauses(sym, exp, half, tag)
    if inp.get('default_sym'):
        # symmetrize defaults to True
        with _watchdog():
            sym2 = np.asarray(G.correlograms(**args()))
        yield _cl('default-is-symmetrised' + tag, np.array_equal(sym2, sym), lambda: sym2.shape)
    yield '__nontrivial__', len(ticks) >= 2, ''


def case_symmetrize(inp):
    """_symmetrize_correlograms on an arbitrary one-sided count array (n, n, half+1)."""
    C = np.array(inp['C'], dtype=np.int32)
    nc, half = C.shape[0], C.shape[2] - 1
    S = G._symmetrize_correlograms(C.copy())
    yield from _sym_clauses(np.asarray(S), C.astype(np.int64), half)
    if np.asarray(S).shape == (nc, nc, 2 * half + 1):
        neg = np.transpose(C, (1, 0, 2))[..., 1:][..., ::-1]
        yield _cl('sym-negative-lags-are-the-one-sided-counts-of-(j,i)', np.array_equal(np.asarray(S)[..., :half], neg),
                  lambda: np.asarray(S).tolist())


def case_firing_rate(inp):
    labels, ids, b, dur = inp['labels'], inp['ids'], inp['bin'], inp['duration']
    assert b > 0 and dur > 0
    assert ids is None or (set(labels) <= set(ids) and len(set(ids)) == len(ids))
    order = _order(labels, ids)
    tag = '' if ids is not None else '[ids=None:ascending-distinct-labels]'
    cnt = [sum(1 for c in labels if c == o) for o in order]
    nc = len(order)
    exp = np.array([[cnt[i] * cnt[j] * (b / dur) for j in range(nc)] for i in range(nc)], dtype=np.float64).reshape((nc, nc))
    sc = np.array(labels, dtype=np.int64) if inp.get('as', 'array') == 'array' else list(labels)
    out = np.asarray(G.firing_rate(sc, cluster_ids=(None if ids is None else list(ids)), bin_size=b, duration=dur))
    yield 'normaliser-shape-is-(n_clusters,n_clusters)' + tag, out.shape == (nc, nc), (out.shape, nc)
    if out.shape != (nc, nc):
        return
    yield 'normaliser-is-outer-product-of-counts-times-bin/duration' + tag, \
        bool(np.allclose(out, exp, rtol=1e-12, atol=0)), (out.tolist(), exp.tolist())
    empty = [i for i in range(nc) if cnt[i] == 0]
    yield 'normaliser-zero-for-empty-clusters' + tag, \
        all(np.all(out[i, :] == 0) and np.all(out[:, i] == 0) for i in empty), out.tolist()
    yield '__nontrivial__', len(labels) >= 1, ''


def case_diff_shifted(inp):
    """_diff_shifted(arr, steps)[i] = arr[i+steps] - arr[i], length n - steps (1 <= steps <= n)."""
    arr, steps = inp['arr'], inp['steps']
    assert 1 <= steps <= len(arr)
    a = np.array(arr, dtype=np.int64)
    out = np.asarray(G._diff_shifted(a, steps))
    exp = [arr[i + steps] - arr[i] for i in range(len(arr) - steps)]
    yield _cl('diff-shifted-is-arr[i+steps]-arr[i]', out.tolist() == exp, lambda: (out.tolist(), exp))
    yield _cl('diff-shifted-leaves-input-unchanged', a.tolist() == list(arr), lambda: a.tolist())


def case_increment(inp):
    """_increment(arr, indices): arr'[x] = arr[x] + #{t: indices[t] = x}, in place (0 <= indices < len(arr))."""
    arr, idx = inp['arr'], inp['indices']
    assert all(0 <= i < len(arr) for i in idx)
    a = np.array(arr, dtype=np.int32)
    out = G._increment(a, np.array(idx, dtype=np.int64))
    exp = [v + sum(1 for t in idx if t == x) for x, v in enumerate(arr)]
    yield _cl('increment-adds-multiplicity-of-each-index', np.asarray(out).tolist() == exp, lambda: (np.asarray(out).tolist(), exp))
    yield _cl('increment-is-in-place', a.tolist() == exp, lambda: (a.tolist(), exp))


CASES = {'ccg': case_ccg, 'symmetrize': case_symmetrize, 'firing_rate': case_firing_rate,
         'diff_shifted': case_diff_shifted, 'increment': case_increment}

KNOWN_CLASSES = {}


# ------------------------------------------------------------------------------------------------
# Scope
# ------------------------------------------------------------------------------------------------

ID_POOL = [2, 0, 5, 3]      # ids used by labelings over k clusters: the first k (non-contiguous, 0 included)
EMPTY_IDS = [1, 9]          # ids that never carry a spike (one inside, one above the range of used ids)


def trains(n, g):
    """All non-decreasing tick sequences of length n on the grid 0..g-1 (ties included)."""
    return itertools.combinations_with_replacement(range(g), n)


def id_lists(k, level):
    """cluster_ids arguments for labelings over the first k pool ids.
    level 0: None, caller's pool order, reversed, + one with empty ids interleaved;
    level 1: every permutation, every permutation with an empty id at every position."""
    ids = ID_POOL[:k]
    out = [None, list(ids)]
    if level == 0:
        if k > 1:
            out.append(list(reversed(ids)))
        out.append([EMPTY_IDS[1]] + list(ids[1:]) + [EMPTY_IDS[0]] + list(ids[:1]))
        out.append(sorted(ids) + [EMPTY_IDS[1]])
        return out
    for p in itertools.permutations(ids):
        if list(p) != list(ids):
            out.append(list(p))
        for e in EMPTY_IDS:
            for at in range(k + 1):
                out.append(list(p[:at]) + [e] + list(p[at:]))
    out.append([EMPTY_IDS[1]] + list(ids) + [EMPTY_IDS[0]])
    return out


def enumerate_cases(ctx):
    quick = ctx.tier == 'quick'
    rs = np.random.RandomState(ctx.seed)

    # (bin ticks, window ticks): half = win // (2 bin).  Includes half = 0, windows that are an exact even multiple
    # of the bin, and the window edges (half+1)*bin - 1 | (half+1)*bin inside the grid.
    BW5 = [(1, 1), (1, 3), (1, 4), (2, 6), (3, 9)]
    BW2 = [(1, 3), (2, 6)]
    BW8 = BW5 + [(1, 2), (2, 3), (2, 10)]
    BW3 = [(1, 3), (2, 6), (1, 5)]
    one = lambda k: [[EMPTY_IDS[1]] + ID_POOL[1:k] + [EMPTY_IDS[0]] + ID_POOL[:1]]   # permuted + two spike-less ids
    # family A plan rows: (k clusters, n_max spikes, grid size, cluster_ids lists, (bin, window) list)
    if quick:
        plan = [(2, 4, 6, one(2), BW5),
                (2, 3, 4, id_lists(2, 1), BW2),
                (3, 3, 4, id_lists(3, 0), BW2),
                (3, 2, 4, id_lists(3, 1), BW2[:1]),
                (4, 3, 3, id_lists(4, 0)[:3], BW2[1:]),
                (1, 6, 6, [[2]], BW5)]
    else:
        plan = [(2, 5, 7, one(2), BW5 + [(2, 3)]),
                (2, 6, 6, one(2), BW2),
                (2, 4, 6, id_lists(2, 1), BW2),
                (3, 4, 5, id_lists(3, 0), BW2),
                (3, 3, 4, id_lists(3, 1), BW2),
                (4, 4, 5, one(4), BW2),
                (4, 3, 4, id_lists(4, 0), BW3),
                (1, 7, 8, [[2]], BW8)]
    ctx.scope('correlograms (one-sided + symmetrised) vs brute-force pair count, sample_rate 1; for each row (k clusters, '
              'n_max, grid, #cluster_ids lists, (bin, window) ticks) in %s: ALL non-decreasing trains of 0..n_max spikes on '
              'grid 0..grid-1 (ties incl.) x ALL labelings over ids %s[:k] x the cluster_ids lists (None, pool order, '
              'reversed, permutations, permutations with a spike-less id from %s at every position) x the (bin, window) '
              'pairs (exhaustive)' % ([(k, n, g, len(i), bw) for k, n, g, i, bw in plan], ID_POOL, EMPTY_IDS))
    seen = set()
    for k, nmax, g, idl, bws in plan:
        for n in range(0, nmax + 1):
            for tr in trains(n, g):
                for lab in itertools.product(ID_POOL[:k], repeat=n):
                    for ids in idl:
                        for (m, w) in bws:
                            key = (tr, lab, None if ids is None else tuple(ids), m, w)
                            if key in seen:
                                continue
                            seen.add(key)
                            ctx.run('ccg', {'ticks': list(tr), 'labels': list(lab), 'ids': ids, 'sr': 1.0, 'bin': m, 'win': w})
    seen.clear()

    # ---- family B: other sample rates (time*rate exact), bins of several samples, offsets, dtypes
    RATES = [0.5, 2.0, 10.0, 3.0, 1000.0, 30000.0] if quick else \
            [0.25, 0.5, 2.0, 4.0, 10.0, 3.0, 7.0, 100.0, 1000.0, 20000.0, 25000.0, 30000.0]
    nB, gB = (3, 5) if quick else (3, 6)
    BWB = [(2, 2), (2, 5), (3, 9)] if quick else [(2, 2), (2, 5), (1, 3), (3, 9), (5, 13)]
    ctx.scope('correlograms at sample rates %s (only trains with tick/sr*sr == tick in floats): ALL trains of 0..%d spikes '
              'on a grid of %d ticks x ALL labelings over 2 clusters x cluster_ids [9,2,1,0] (list) or [0,2] (array, with '
              'tick offset 12345, int32 labels, default symmetrize) x (bin, window) ticks in %s (non-dyadic rates: only '
              'windows whose half-window is not at an integer boundary)' % (RATES, nB, gB, BWB))
    skipped = {}
    for sr in RATES:
        for n in range(0, nB + 1):
            for tr in trains(n, gB):
                for lab in itertools.product(ID_POOL[:2], repeat=n):
                    for (m, w) in BWB:
                        for base in (0, 12345):
                            if base and (n < 2 or (m, w) != BWB[1]):
                                continue
                            if not _pre([base + x for x in tr], sr, m, w):
                                skipped[sr] = skipped.get(sr, 0) + 1
                                continue
                            ctx.run('ccg', {'ticks': list(tr), 'labels': list(lab), 'ids': [0, 2] if base else [9, 2, 1, 0],
                                            'sr': sr, 'bin': m, 'win': w, 'base': base, 'ids_as': 'array' if base else 'list',
                                            'ldtype': 'int32' if base else 'int64', 'default_sym': bool(base)})

    ctx.notes.append('family B inputs not generated because tick/sr*sr != tick in float arithmetic (outside "time*rate '
                     'exact"), per rate: %s' % (skipped or 'none'))

    # ---- family C: seeded random long trains
    NR, NMAX = (40, 120) if quick else (400, 700)
    ctx.scope('correlograms on %d seeded random trains of 2..%d spikes: geometric gaps with many ties, 1..4 clusters with '
              'ids < 40, random id order with 0..2 spike-less ids or None, bin 1..6 ticks, half-window 0..12 bins, '
              'rates {1, 2, 0.5, 10, 20000}' % (NR, NMAX))
    for r in range(NR):
        n = int(rs.randint(2, NMAX + 1))
        scale = [0.3, 1.0, 3.0, 10.0][rs.randint(4)]
        gaps = np.floor(rs.exponential(scale, size=n)).astype(int)
        ticks = np.cumsum(gaps).tolist()
        k = int(rs.randint(1, 5))
        pool = rs.choice(40, size=k + 2, replace=False).tolist()
        used, extra = pool[:k], pool[k:k + int(rs.randint(0, 3))]
        labels = [used[i] for i in rs.randint(0, k, size=n)]
        if rs.rand() < 0.25:
            ids = None
        else:
            ids = used + extra
            rs.shuffle(ids)
            ids = [int(x) for x in ids]
        sr = [1.0, 2.0, 0.5, 10.0, 20000.0][rs.randint(5)]
        m = int(rs.randint(1, 7))
        half = int(rs.randint(0, 13))
        w = 2 * m * half + (m if (not _dyadic(sr) or rs.rand() < 0.5) else [0, 2 * m - 1][rs.randint(2)])
        w = max(w, 1)
        if not _pre(ticks, sr, m, w):
            # keep the draw deterministic: fall back to rate 1, which is always exact
            sr = 1.0
        ctx.run('ccg', {'ticks': [int(x) for x in ticks], 'labels': [int(x) for x in labels], 'ids': ids, 'sr': sr,
                        'bin': m, 'win': w, 'ldtype': ['int64', 'int32'][r % 2]})

    # ---- family D: _symmetrize_correlograms on arbitrary one-sided arrays
    shapes = [(1, h, 3) for h in (1, 2, 3, 4)] + [(2, 1, 3), (2, 2, 3 if not quick else 2), (2, 3, 2)]
    ctx.scope('_symmetrize_correlograms: ALL arrays of shape (n, n, bins) with entries in 0..v-1 for (n, bins, v) in %s; '
              'seeded random (3,3,1..4) and (4,4,3) arrays over 0..9' % (shapes,))
    for nc, nb, v in shapes:
        for vals in itertools.product(range(v), repeat=nc * nc * nb):
            ctx.run('symmetrize', {'C': np.array(vals).reshape((nc, nc, nb)).tolist()})
    for r in range(60 if quick else 600):
        nc, nb = [(3, 1), (3, 2), (3, 3), (3, 4), (4, 3)][r % 5]
        ctx.run('symmetrize', {'C': rs.randint(0, 10, size=(nc, nc, nb)).tolist()})

    # ---- family E: firing_rate
    NF = 5 if quick else 6
    BD = [(1.0, 10.0), (0.5, 4.0), (0.02, 3.7)] if quick else [(1.0, 10.0), (0.5, 4.0), (0.02, 3.7), (2.0, 1.0), (1e-3, 1234.5)]
    ctx.scope('firing_rate: ALL labelings of 0..%d spikes over k = 1..2 clusters (k = 3: 0..%d, k = 4: 0..4 spikes) x '
              'cluster_ids in {None, every permutation, every permutation with a spike-less id at every position} (k = 4: '
              'None, pool order, reversed, two lists with spike-less ids) x (bin, duration) in %s (k >= 3: one pair per '
              'id list, rotating); array and list inputs; seeded random labelings of 1..399 spikes' % (NF, NF - 1 if quick else NF, BD))
    for k in (1, 2, 3, 4):
        idl = id_lists(k, 1 if k <= 3 else 0)
        for n in range(0, (NF if k <= 3 else 4) + 1):
            if k == 3 and n > NF - 1 and quick:
                continue
            for lab in itertools.product(ID_POOL[:k], repeat=n):
                for ii, ids in enumerate(idl):
                    for bi, (b, dur) in enumerate(BD):
                        if k >= 3 and bi != (ii % len(BD)):
                            continue
                        ctx.run('firing_rate', {'labels': list(lab), 'ids': ids, 'bin': b, 'duration': dur,
                                                'as': 'array' if (ii + bi) % 2 == 0 else 'list'})
    for r in range(20 if quick else 200):
        n = int(rs.randint(1, 400))
        k = int(rs.randint(1, 5))
        pool = rs.choice(40, size=k + 2, replace=False).tolist()
        labels = [int(pool[i]) for i in rs.randint(0, k, size=n)]
        ids = [int(x) for x in rs.permutation(pool[:k + int(rs.randint(0, 3))])]
        ctx.run('firing_rate', {'labels': labels, 'ids': ids if r % 4 else None, 'bin': float(rs.choice([1.0, 0.25, 0.001])),
                                'duration': float(rs.choice([1.0, 60.0, 1234.5]))})

    # ---- family F: the two array helpers of the shift loop
    LA, LI = (4, 4) if quick else (5, 5)
    ctx.scope('_diff_shifted: ALL arrays of 1..%d values over {0,1,3} x steps 1..len; _increment: ALL count vectors of '
              '1..3 entries over {0,2} x ALL index lists of 0..%d in-range indices (repeats incl.)' % (LA, LI))
    for n in range(1, LA + 1):
        for arr in itertools.product((0, 1, 3), repeat=n):
            for steps in range(1, n + 1):
                ctx.run('diff_shifted', {'arr': list(arr), 'steps': steps})
    for n in (1, 2, 3):
        for arr in itertools.product((0, 2), repeat=n):
            for li in range(0, LI + 1):
                for idx in itertools.product(range(n), repeat=li):
                    ctx.run('increment', {'arr': list(arr), 'indices': list(idx)})
