# C13 — ALF export writes consistent object tables that load back to the same spikes.
# Bounded stand-in (tier B): the contracts of DESIGN 4/C13 evaluated on the real phylib.io.alf / phylib.io.model
# code over a stated finite scope of generated dense datasets.  (The builders and the plain-NumPy reader of a
# KiloSort directory at the top of this file are shared with b14.)
#
# Readings / preconditions (DESIGN 2.13, Appendix G):
# * sources are KiloSort-named dense datasets with >= 2 spikes and >= 2 templates (the loader squeezes every array, so a
#   one-spike or one-template file changes rank at load time: C04's subject, cf. Appendix G/C11), an amplitudes file
#   and ids below 65536;
# * "conversion" is `EphysAlfCreator(model).convert(...)`: the source directory is compared before/after that call
#   (loading the source model beforehand creates spike_clusters.npy / whitening_mat_inv.npy: C04's business);
# * "the same ... templates" on reload is the per-spike template assignment (the exported template *waveforms* are
#   by design the unwhitened, rescaled, channel-restricted ones: C14);
# * "the same channel map" is evaluated on single-probe datasets; for several probes the exported raw indices are
#   re-expressed per probe on purpose (C14 owns that clause);
# * when the output directory lies inside the source directory (upstream usage: <source>/alf) its subtree is not
#   part of "the source files";
# * a source that already holds spike-subset files (converted before, same unit factor) must keep them byte-identical.
import os, itertools, types, shutil, hashlib, warnings
import numpy as np
from pathlib import Path

os.environ.setdefault('TQDM_DISABLE', '1')

from concrete.common import tempdir
from concrete.datagen import make_dataset

from phylib.io import alf as ALF
from phylib.io import model as MODEL

CONTRACTED = ['phylib/io/alf.py::EphysAlfCreator.convert', 'phylib/io/alf.py::EphysAlfCreator.copy_files',
              'phylib/io/alf.py::EphysAlfCreator.rm_files', 'phylib/io/alf.py::EphysAlfCreator.make_cluster_objects',
              'phylib/io/alf.py::EphysAlfCreator.make_channel_objects',
              'phylib/io/alf.py::EphysAlfCreator.make_template_and_spikes_objects',
              'phylib/io/alf.py::EphysAlfCreator.make_depths', 'phylib/io/alf.py::EphysAlfCreator.rename_with_label',
              'phylib/io/alf.py::EphysAlfCreator.compress_spikes_dtypes',
              'phylib/io/model.py::TemplateModel._load_spike_samples', 'phylib/io/model.py::TemplateModel._load_spike_clusters',
              'phylib/io/model.py::TemplateModel._load_spike_templates', 'phylib/io/model.py::TemplateModel._load_channel_map',
              'phylib/io/model.py::TemplateModel._load_channel_positions', 'phylib/io/model.py::TemplateModel._load_templates',
              'phylib/io/model.py::TemplateModel.save_spikes_subset_waveforms']

OBJECTS = ('spikes', 'clusters', 'templates', 'channels')
SUBSET_FILES = {'_phy_spikes_subset.channels.npy', '_phy_spikes_subset.spikes.npy', '_phy_spikes_subset.waveforms.npy'}


# ----------------------------------------------------------------------------------------------------------
# Shared: building a source directory from a JSON spec, reading it back with plain NumPy, running the export
# ----------------------------------------------------------------------------------------------------------
def peaked_templates(seed, nt, nsw, nc, peaks, dtype='float32'):
    """Random dense templates whose largest peak-to-peak channel is peaks[t] (unambiguous, also after the
    mild unwhitening datagen uses)."""
    rng = np.random.RandomState(1000 + seed)
    tpl = rng.normal(size=(nt, nsw, nc))
    for t in range(nt):
        tpl[t, :, peaks[t]] *= 3.0
        tpl[t, 0, peaks[t]] += 6.0
        tpl[t, nsw - 1, peaks[t]] -= 6.0 if (t % 2) else 0.0
    return tpl.astype(dtype)


def build_source(src, inp):
    """Write the dataset described by inp['ds'] (datagen keywords) plus inp.get('extras') into src."""
    os.makedirs(src, exist_ok=True)
    ds = dict(inp['ds'])
    peaks = ds.pop('peaks', None)
    samples = ds.pop('samples', None)
    ncd = ds.pop('n_channels_dat', None)
    T = make_dataset(src, **ds)
    if ncd is not None:          # declared raw channel count when no raw file is written (gapped channel maps)
        pp = os.path.join(src, 'params.py')
        with open(pp) as f:
            lines = f.read().split('\n')
        with open(pp, 'w') as f:
            f.write('\n'.join(('n_channels_dat = %d' % ncd) if l.startswith('n_channels_dat') else l for l in lines))
    colvec = bool(ds.get('colvec'))

    def vec(a):
        return a.reshape((-1, 1)) if colvec else a

    if samples is not None:      # explicit spike samples (sorted, inside the recording)
        assert len(samples) == len(T['spike_templates']) and list(samples) == sorted(samples)
        np.save(os.path.join(src, 'spike_times.npy'), vec(np.asarray(samples, dtype=ds.get('times_dtype', 'uint64'))))

    if peaks is not None:
        tpl = T['templates']
        np.save(os.path.join(src, 'templates.npy'),
                peaked_templates(ds.get('seed', 0), tpl.shape[0], tpl.shape[1], tpl.shape[2], peaks, str(tpl.dtype)))
    st = T['spike_templates']
    sc = T.get('spike_clusters', st)
    ncl = int(max(sc)) + 1
    nc = len(T['channel_map'])
    for e in inp.get('extras', ()):
        if e == 'kslabel':
            with open(os.path.join(src, 'cluster_KSLabel.tsv'), 'w') as f:
                f.write('cluster_id\tKSLabel\n' + ''.join('%d\t%s\n' % (c, 'good' if c % 2 else 'mua') for c in sorted(set(sc.tolist()))))
        elif e == 'group':
            with open(os.path.join(src, 'cluster_group.tsv'), 'w') as f:
                f.write('cluster_id\tgroup\n%d\tnoise\n' % int(sc[0]))
        elif e == 'temp_wh':
            with open(os.path.join(src, 'temp_wh.dat'), 'wb') as f:
                f.write(bytes(range(64)))
        elif e == 'cluster_tables':   # per-cluster tables as the merger / sorter write them (one row per id up to the highest)
            np.save(os.path.join(src, 'cluster_probes.npy'), vec(np.zeros(ncl, dtype=np.int32)))
            np.save(os.path.join(src, 'cluster_shanks.npy'), vec((np.arange(ncl) % 2).astype(np.int32)))
        elif e == 'channel_labels':
            np.save(os.path.join(src, 'channel_labels.npy'), vec(np.arange(nc).astype(np.int32) + 100))
        elif e == 'drift':
            np.save(os.path.join(src, 'drift_depths.um.npy'), np.arange(3.0))
            np.save(os.path.join(src, 'drift.times.npy'), np.arange(2.0))
            np.save(os.path.join(src, 'drift.um.npy'), np.zeros((2, 3)))
        elif e == 'junk':
            with open(os.path.join(src, 'probes.description.txt'), 'w') as f:
                f.write('label\n')
            with open(os.path.join(src, 'mydata.lf.bin'), 'wb') as f:
                f.write(b'\x01\x02' * 50)
        else:
            raise ValueError(e)
    return T


def _params(src):
    ns = {}
    with open(os.path.join(src, 'params.py')) as f:
        exec(f.read(), {}, ns)
    return ns


def read_source(src):
    """Plain NumPy reader of a KiloSort-named dense dataset directory (documented defaults only)."""
    def ld(name, default=None):
        p = os.path.join(src, name)
        return np.load(p) if os.path.exists(p) else default
    S = {'params': _params(src)}
    S['sr'] = float(S['params']['sample_rate'])
    S['samples'] = ld('spike_times.npy').reshape(-1)
    S['times'] = S['samples'] / S['sr']
    S['st'] = ld('spike_templates.npy').reshape(-1).astype(np.int64)
    sc = ld('spike_clusters.npy')
    S['sc'] = S['st'].copy() if sc is None else sc.reshape(-1).astype(np.int64)
    S['amplitudes'] = ld('amplitudes.npy').reshape(-1).astype(np.float64)
    S['channel_map'] = ld('channel_map.npy').reshape(-1)
    S['positions'] = ld('channel_positions.npy').astype(np.float64)
    nc = len(S['channel_map'])
    S['nc'] = nc
    pr = ld('channel_probe.npy')
    S['probes'] = np.zeros(nc, dtype=np.int64) if pr is None else pr.reshape(-1).astype(np.int64)
    sh = ld('channel_shanks.npy')
    S['shanks'] = np.zeros(nc, dtype=np.int64) if sh is None else sh.reshape(-1).astype(np.int64)
    S['templates'] = ld('templates.npy').astype(np.float64)
    S['nt'] = S['templates'].shape[0]
    wm = ld('whitening_mat.npy')
    S['wm'] = np.eye(nc) if wm is None else wm.astype(np.float64)
    wmi = ld('whitening_mat_inv.npy')
    S['wmi'] = np.linalg.inv(S['wm']) if wmi is None else wmi.astype(np.float64)
    S['pc_features'] = ld('pc_features.npy')
    S['pc_feature_ind'] = ld('pc_feature_ind.npy')
    S['pc_feature_rows'] = ld('pc_feature_spike_ids.npy')
    S['ns'] = len(S['samples'])
    S['curated'] = bool(np.any(S['sc'] != S['st']))
    S['n_clusters'] = int(S['sc'].max()) + 1 if S['curated'] else S['nt']
    S['has_raw'] = bool(S['params'].get('dat_path'))
    return S


def digest(root, exclude=None):
    """relative name -> sha256 for every file below root, except below `exclude`."""
    out = {}
    ex = os.path.realpath(exclude) if exclude else None
    for r, _, files in os.walk(root):
        if ex and (os.path.realpath(r) == ex or os.path.realpath(r).startswith(ex + os.sep)):
            continue
        for f in files:
            p = os.path.join(r, f)
            with open(p, 'rb') as fh:
                out[os.path.relpath(p, root)] = hashlib.sha256(fh.read()).hexdigest()
    return out


class closest_channels_setting:
    """Configuration `TemplateModel.n_closest_channels` (class attribute, default 12) for the duration of a case."""
    def __init__(self, n):
        self.n = n

    def __enter__(self):
        self.old = MODEL.TemplateModel.n_closest_channels
        if self.n:
            MODEL.TemplateModel.n_closest_channels = int(self.n)
        return self

    def __exit__(self, *a):
        MODEL.TemplateModel.n_closest_channels = self.old


def close_model(m):
    try:   # harness clean-up only (file handles of memmaps); not part of any clause
        if m is not None:
            m.close()
    except Exception:
        pass


def out_dir_for(d, src, inp):
    return os.path.join(src, 'alf') if inp.get('out') == 'inside' else os.path.join(d, 'out')


def first_dim(path):
    """Row count of an exported table (.npy: shape[0]; .csv/.tsv: lines after the header)."""
    if path.endswith('.npy'):
        a = np.load(path)
        return int(a.shape[0]) if a.ndim else None
    with open(path) as f:
        lines = [l for l in f.read().split('\n')]
    while lines and lines[-1] == '':
        lines.pop()
    return len(lines) - 1


def find_out(out, obj_attr, ext, label):
    name = '%s.%s%s' % (obj_attr, (label + '.') if label else '', ext)
    p = os.path.join(out, name)
    return p if os.path.exists(p) else None


# ----------------------------------------------------------------------------------------------------------
# Cases
# ----------------------------------------------------------------------------------------------------------
REQUIRED = [('spikes.times', 'npy'), ('spikes.samples', 'npy'), ('spikes.clusters', 'npy'), ('spikes.templates', 'npy'),
            ('clusters.uuids', 'csv'), ('templates.waveforms', 'npy'), ('channels.rawInd', 'npy'),
            ('channels.localCoordinates', 'npy')]


def case_convert(inp):
    label, factor = inp.get('label', ''), inp.get('ampfactor', 1)
    with tempdir() as d, closest_channels_setting(inp.get('ncc')), warnings.catch_warnings():
        warnings.simplefilter('ignore')      # 0/0 -> NaN for spikeless ids is part of the specified behaviour
        src = os.path.join(d, 'src')
        build_source(src, inp)
        S = read_source(src)
        m = MODEL.load_model(Path(src) / 'params.py')
        m2 = m3 = None
        try:
            out = out_dir_for(d, src, inp)
            if inp.get('twice'):
                # the source was converted before with the same unit factor: its spike-subset files pre-exist
                first = ALF.EphysAlfCreator(m).convert(Path(d) / 'out_first', ampfactor=factor)
                close_model(first)
            before = digest(src, exclude=out)
            ret = ALF.EphysAlfCreator(m).convert(Path(out), label=label, ampfactor=factor)
            after = digest(src, exclude=out)
            yield from check_output_tables(out, S, label)
            yield from check_source_frame(before, after, S)
            m2 = ret if ret is not None else MODEL.load_model(Path(out) / 'params.py')
            yield from check_reload(m2, S)
        finally:
            close_model(m); close_model(m2); close_model(m3)


def check_output_tables(out, S, label):
    files = sorted(f for f in os.listdir(out) if os.path.isfile(os.path.join(out, f)))
    by_obj = {o: [f for f in files if f.startswith(o + '.')] for o in OBJECTS}
    expect = {'spikes': S['ns'], 'clusters': S['n_clusters'], 'templates': S['nt'], 'channels': S['nc']}
    missing = [a for a, e in REQUIRED if find_out(out, a, e, label) is None]
    yield 'writes-spikes-clusters-templates-channels-files', all(by_obj[o] for o in OBJECTS) and not missing, (missing, files)
    for o in OBJECTS:
        dims = {f: first_dim(os.path.join(out, f)) for f in by_obj[o]}
        yield '%s-files-first-dim-is-number-of-%s' % (o, o), all(v == expect[o] for v in dims.values()), (expect[o], dims)
    # the optional label is inserted before the extension of every such file
    bad = []
    for o in OBJECTS:
        for f in by_obj[o]:
            parts = f.split('.')
            ok = (len(parts) == 4 and parts[2] == label) if label else len(parts) == 3
            if not ok:
                bad.append(f)
    yield 'label-before-extension-of-every-object-file', not bad, (label, bad)
    p = find_out(out, 'spikes.times', 'npy', label)
    q = find_out(out, 'spikes.samples', 'npy', label)
    if p:
        a = np.load(p)
        yield 'spike-times-in-seconds', a.shape == (S['ns'],) and np.array_equal(a, S['times']), (a.tolist()[:5], S['times'].tolist()[:5])
    if q:
        a = np.load(q)
        yield 'spike-samples-in-samples', a.shape == (S['ns'],) and np.array_equal(a, S['samples'].astype(np.int64)), a.tolist()[:5]
    u = find_out(out, 'clusters.uuids', 'csv', label)
    if u:
        with open(u) as f:
            rows = [l for l in f.read().split('\n') if l != ''][1:]
        yield 'one-unique-identifier-per-cluster', len(rows) == S['n_clusters'] and len(set(rows)) == len(rows) and all(r.strip() for r in rows), (len(rows), S['n_clusters'])

def check_source_frame(before, after, S):
    changed = [f for f in before if f != 'temp_wh.dat' and after.get(f) != before[f]]
    yield 'pre-existing-source-files-byte-identical', not changed, changed
    added = sorted(set(after) - set(before))
    yield 'adds-only-spike-subset-files-to-source', set(added) <= SUBSET_FILES, added
    if S['has_raw']:
        yield 'spike-subset-files-present-with-raw-data', SUBSET_FILES <= set(after), sorted(after)
    if 'temp_wh.dat' in before:
        yield 'temporary-whitened-file-deleted', 'temp_wh.dat' not in after, ''


def check_reload(m2, S):
    yield 'reload-same-spike-times', np.array_equal(np.asarray(m2.spike_times), S['times']), np.asarray(m2.spike_times).tolist()[:5]
    yield 'reload-same-spike-samples', np.array_equal(np.asarray(m2.spike_samples).astype(np.int64), S['samples'].astype(np.int64)), ''
    yield 'reload-same-spike-clusters', np.array_equal(np.asarray(m2.spike_clusters).astype(np.int64), S['sc']), np.asarray(m2.spike_clusters).tolist()[:8]
    yield 'reload-same-spike-templates', np.array_equal(np.asarray(m2.spike_templates).astype(np.int64), S['st']), np.asarray(m2.spike_templates).tolist()[:8]
    if len(set(S['probes'].tolist())) == 1:
        yield 'reload-same-channel-map', np.array_equal(np.asarray(m2.channel_mapping).astype(np.int64), S['channel_map'].astype(np.int64)), np.asarray(m2.channel_mapping).tolist()
    yield 'reload-same-channel-positions', np.array_equal(np.asarray(m2.channel_positions, dtype=np.float64), S['positions']), ''
    yield 'reload-same-counts', (m2.n_spikes, m2.n_channels, m2.n_templates) == (S['ns'], S['nc'], S['nt']), (m2.n_spikes, m2.n_channels, m2.n_templates)


def case_refuse_same_dir(inp):
    """conversion refuses to write into the source directory, however that directory is spelled."""
    how = inp['how']
    with tempdir() as d:
        src = os.path.join(d, 'src')
        build_source(src, inp)
        m = MODEL.load_model(Path(src) / 'params.py')
        try:
            if how == 'str':
                target = src
            elif how == 'path':
                target = Path(src)
            elif how == 'trailing':
                target = src + os.sep
            elif how == 'dot':
                target = os.path.join(src, '.')
            elif how == 'dotdot':
                target = os.path.join(src, '..', 'src')
            elif how == 'subdir_dotdot':
                os.mkdir(os.path.join(src, 'alf'))
                target = os.path.join(src, 'alf', '..')
            elif how == 'symlink':
                target = os.path.join(d, 'link')
                os.symlink(src, target)
            elif how == 'relative':
                target = os.path.relpath(src)
            else:
                raise ValueError(how)
            before = digest(src)
            refused = False
            try:
                ALF.EphysAlfCreator(m).convert(target, label=inp.get('label', ''), force=inp.get('force', False))
            except IOError:   # the refusal demanded by the statement
                refused = True
            after = digest(src)
            yield 'refuses-to-write-into-source-directory', refused, how
            yield 'source-directory-untouched-by-refused-conversion', before == after, sorted(set(after) ^ set(before)) + [f for f in before if f in after and after[f] != before[f]]
        finally:
            close_model(m)


def _stub(out, label=''):
    return types.SimpleNamespace(out_path=Path(out), label=label)


def case_rename_with_label(inp):
    """the optional label is inserted before the extension of every spikes./clusters./templates./channels. file."""
    names, label = inp['names'], inp['label']
    with tempdir() as d:
        for i, n in enumerate(names):
            with open(os.path.join(d, n), 'wb') as f:
                f.write(b'content-%d' % i)
        ALF.EphysAlfCreator.rename_with_label(_stub(d, label))
        got = sorted(os.listdir(d))
        exp = {}
        for i, n in enumerate(names):
            if label and n.split('.')[0] in OBJECTS and '.' in n:
                stem, ext = n.rsplit('.', 1)
                exp['%s.%s.%s' % (stem, label, ext)] = b'content-%d' % i
        ok = all(e in got for e in exp)
        yield 'label-before-extension-of-every-object-file', ok, (label, got)
        same = True
        for e, c in exp.items():
            p = os.path.join(d, e)
            if os.path.exists(p):
                with open(p, 'rb') as f:
                    same = same and f.read() == c
        yield 'renamed-files-keep-their-content', same, got
        if label:
            stale = [n for n in names if n.split('.')[0] in OBJECTS and '.' in n and n in got and n not in exp]
            yield 'no-unlabelled-object-file-left', not stale, stale
        else:
            yield 'empty-label-changes-nothing', got == sorted(names), got
        yield 'number-of-files-kept', len(got) == len(names), got


def case_compress_ids(inp):
    """ids below 65536 survive the dtype compression of spikes.clusters / spikes.templates."""
    ids, dtype, label = inp['ids'], inp['dtype'], inp.get('label', '')
    with tempdir() as d:
        suffix = ('.' + label if label else '') + '.npy'
        a = np.asarray(ids, dtype=dtype)
        np.save(os.path.join(d, 'spikes.clusters' + suffix), a)
        np.save(os.path.join(d, 'spikes.templates' + suffix), a[::-1].copy())
        np.save(os.path.join(d, 'spikes.amps' + suffix), np.arange(len(ids)) * 0.5)
        ALF.EphysAlfCreator.compress_spikes_dtypes(_stub(d, label))
        c = np.load(os.path.join(d, 'spikes.clusters' + suffix))
        t = np.load(os.path.join(d, 'spikes.templates' + suffix))
        yield 'cluster-ids-preserved', np.array_equal(c.astype(np.int64), np.asarray(ids, dtype=np.int64)), c.tolist()
        yield 'template-ids-preserved', np.array_equal(t.astype(np.int64), np.asarray(ids[::-1], dtype=np.int64)), t.tolist()
        yield 'first-dimension-kept', c.shape == (len(ids),) and t.shape == (len(ids),), (c.shape, t.shape)
        yield 'other-spike-tables-untouched', np.array_equal(np.load(os.path.join(d, 'spikes.amps' + suffix)), np.arange(len(ids)) * 0.5), ''


def case_reload_ids(inp):
    """Loading an exported directory (ALF names, optional label, compressed id dtype) yields the ids that were written,
    for any id below 65536.  The directory is written here the way the exporter lays it out (end-to-end conversions
    with ids that large are out of reach: the exporter is quadratic in the highest cluster id)."""
    ids, dtype, label = inp['ids'], inp['dtype'], inp.get('label', '')
    n = len(ids)
    with tempdir() as d:
        def save(attr, a):
            np.save(os.path.join(d, '%s%s.npy' % (attr, ('.' + label) if label else '')), a)
        samples = np.arange(n).astype(np.uint64) * 7 + 3
        sc = np.asarray(ids, dtype=dtype)
        stt = np.asarray(ids[::-1], dtype=dtype)
        save('spikes.times', samples / 100.0)
        save('spikes.samples', samples)
        save('spikes.clusters', sc)
        save('spikes.templates', stt)
        save('spikes.amps', np.ones(n, dtype=np.float32))
        save('channels.rawInd', np.array([1, 0]))
        save('channels.localCoordinates', np.array([[0.0, 0.0], [7.0, 10.0]]))
        save('templates.waveforms', np.arange(16, dtype=np.float32).reshape((2, 4, 2)) + 1)
        save('templates.waveformsChannels', np.array([[0, 1], [1, 0]], dtype=np.int32))
        with open(os.path.join(d, 'params.py'), 'w') as f:
            f.write("dat_path = []\nn_channels_dat = 2\ndtype = 'int16'\noffset = 0\nsample_rate = 100.0\nhp_filtered = False\n")
        with warnings.catch_warnings():
            warnings.simplefilter('ignore')
            m = MODEL.load_model(Path(d) / 'params.py')
        try:
            yield 'reload-same-spike-clusters', np.array_equal(np.asarray(m.spike_clusters).astype(np.int64), np.asarray(ids, dtype=np.int64)), np.asarray(m.spike_clusters).tolist()
            yield 'reload-same-spike-templates', np.array_equal(np.asarray(m.spike_templates).astype(np.int64), np.asarray(ids[::-1], dtype=np.int64)), np.asarray(m.spike_templates).tolist()
            yield 'reload-same-spike-times', np.array_equal(np.asarray(m.spike_times), samples / 100.0), ''
            yield 'reload-same-spike-samples', np.array_equal(np.asarray(m.spike_samples).astype(np.int64), samples.astype(np.int64)), ''
            yield 'reload-same-channel-map', np.array_equal(np.asarray(m.channel_mapping), [1, 0]), np.asarray(m.channel_mapping).tolist()
            yield 'reload-same-channel-positions', np.array_equal(np.asarray(m.channel_positions), [[0.0, 0.0], [7.0, 10.0]]), ''
        finally:
            close_model(m)


CASES = {'reload_ids': case_reload_ids, 'convert': case_convert, 'refuse_same_dir': case_refuse_same_dir, 'rename_with_label': case_rename_with_label,
         'compress_ids': case_compress_ids}


# ----------------------------------------------------------------------------------------------------------
# Known classes (defects of the unchanged tree, DESIGN section 6), decided from the input only
# ----------------------------------------------------------------------------------------------------------
def _st_of(inp):
    return inp.get('ds', {}).get('spike_templates')


def highest_template_unused(inp):
    ds = inp.get('ds', {})
    st = ds.get('spike_templates')
    if st is None:
        return bool(ds.get('unused_top_template'))
    return max(st) + 1 < ds.get('n_templates', 3)


def is_curated(inp):
    ds = inp.get('ds', {})
    sc = ds.get('spike_clusters')
    return sc is not None and sc != 'same' and list(sc) != list(ds.get('spike_templates') or [])


def curated_without_empty_id(inp):
    ds = inp.get('ds', {})
    sc = ds.get('spike_clusters')
    return is_curated(inp) and set(sc) == set(range(max(sc) + 1))


def unsigned_sample_near_start_with_raw(inp):
    ds = inp.get('ds', {})
    half = ds.get('nsw', 6) // 2
    return bool(ds.get('raw')) and ds.get('times_dtype', 'uint64').startswith('u') and ds.get('samples') is not None and min(ds['samples']) < half


def one_channel_column_vector_table(inp):
    ds = inp.get('ds', {})
    return bool(ds.get('colvec')) and ds.get('n_channels', 4) == 1 and (ds.get('probes') is not None or 'channel_labels' in inp.get('extras', ()))


def partial_feature_store(inp):
    ds = inp.get('ds', {})
    return bool(ds.get('features') and ds.get('features_rows'))


KNOWN_CLASSES = {
    # DESIGN 6 rows 8/9: get_amplitudes_true divides bincounts of length max(spike_templates)+1 by n_templates values
    # (ValueError), and n_clusters = max(spike_templates)+1 != n_templates, when the highest template has no spike.
    'highest_template_has_no_spike': lambda case, clause, inp: case == 'convert' and highest_template_unused(inp) and (
        clause == 'no-unexpected-exception' or (clause == 'clusters-files-first-dim-is-number-of-clusters' and not is_curated(inp))),
    # get_merge_map builds nan_idx = np.array([]) (float64) when no id is empty; indexing with it raises IndexError in
    # make_cluster_objects / make_depths: a curated dataset in which every id 0..max still has spikes cannot be converted.
    'curated_with_no_empty_cluster_id': lambda case, clause, inp: case == 'convert' and curated_without_empty_id(inp) and
        not highest_template_unused(inp) and clause == 'no-unexpected-exception',
    # DESIGN 6 row 2 (C03): `sample - a` wraps for an unsigned spike sample nearer to the start than half a window;
    # with raw data the spike-subset export then reads an empty/garbage window (ValueError from np.vstack).
    'unsigned_spike_sample_near_recording_start': lambda case, clause, inp: case == 'convert' and unsigned_sample_near_start_with_raw(inp) and
        clause == 'no-unexpected-exception',
    # copy_files re-saves a (n, 1) MATLAB-style vector as d.squeeze(): for n == 1 (one channel) that is a 0-d array, so
    # channels.probes / channels.labels have no first dimension at all.
    'one_row_column_vector_squeezed_to_0d': lambda case, clause, inp: case == 'convert' and one_channel_column_vector_table(inp) and
        clause == 'channels-files-first-dim-is-number-of-channels',
    # make_depths: get_depths() returns None when the feature store covers a subset of the spikes
    # (pc_feature_spike_ids.npy) and _save_npy(None) raises AttributeError.
    'feature_store_covers_subset_of_spikes': lambda case, clause, inp: case == 'convert' and partial_feature_store(inp) and
        not highest_template_unused(inp) and not curated_without_empty_id(inp) and clause == 'no-unexpected-exception',
}


# ----------------------------------------------------------------------------------------------------------
# Scope
# ----------------------------------------------------------------------------------------------------------
def spike_templates_for(ns, nt, rot=0):
    """every template used, unequal counts (so dominant templates are unambiguous)"""
    base = []
    for t in range(nt):
        base += [t] * (t + 1)
    st = [(base[i % len(base)] + rot) % nt for i in range(ns)]
    for t in range(nt):          # make sure every template occurs
        if t not in st:
            st[t % ns] = t
    return st


def curations(st, nt):
    """name -> spike_clusters produced by merges, splits, reassignments of the assignment st (DESIGN G/C08)."""
    out = {'absent': None, 'same': 'same'}
    if nt >= 2:
        out['merge01'] = [nt if t in (0, 1) else t for t in st]                       # ids 0,1 become empty
        out['gapped'] = [nt + 2 if t in (0, 1) else t for t in st]                    # empty ids just below the highest
        sc = list(st); sc[st.index(0)] = 1; out['reassign'] = sc                       # cluster 1 stems from two templates
        out['permuted'] = [(t + 1) % nt for t in st]                                   # every cluster one template, other id
    top = nt - 1
    idx = [i for i, t in enumerate(st) if t == top]
    sc = list(st)
    for j, i in enumerate(idx):
        sc[i] = nt + (j % 2)
    out['split_top'] = sc                                                              # id nt-1 becomes empty (if >= 1 spike)
    return out


RAW = {'n_samples': 240}
RAW_WIDE = {'n_samples': 240, 'n_channels_dat': 7, 'offset': 4}


def spike_samples_for(seed, ns, lo=3, hi=240):
    """sorted spike samples in [lo, hi) with a tie; lo = 3 = n_samples_waveforms // 2 keeps the first window inside
    the recording (spikes nearer to the start than that, with unsigned times, are C03's known defect class)."""
    rs = np.random.RandomState(77 + seed)
    s = sorted(int(x) for x in rs.randint(lo, hi, size=ns))
    if ns >= 3:
        s[1] = s[0]
    s[-1] = max(s[-1], hi - 2) if ns > 3 else s[-1]      # one window overhanging the end of the recording
    return s


def base_ds(seed=0, ns=12, nt=3, nc=4, lo=3, **kw):
    ds = {'seed': seed, 'n_spikes': ns, 'n_templates': nt, 'n_channels': nc, 'spike_templates': spike_templates_for(ns, nt),
          'samples': spike_samples_for(seed, ns, lo)}
    ds.update(kw)
    return ds


def enumerate_cases(ctx):
    quick = ctx.tier == 'quick'
    # ---- unit contracts of the pathlib / dtype helpers
    names_pool = ['spikes.times.npy', 'spikes.depths.npy', 'clusters.uuids.csv', 'clusters.amps.npy', 'templates.waveforms.npy',
                  'templates.waveformsChannels.npy', 'channels.rawInd.npy', 'channels.localCoordinates.npy',
                  'params.py', '_phy_spikes_subset.spikes.npy', 'cluster_KSLabel.tsv', 'whitening_mat_inv.npy',
                  '_kilosort_whitening.matrix.npy', 'drift.times.npy', 'spikes.clusters.npy', 'clusters.metrics.tsv']
    labels = ['', 'x', 'probe00', 'p1']
    ctx.scope('rename_with_label: the full export file-name set and every subset of size <= 2 of %d names x labels %r' % (len(names_pool), labels))
    subsets = [names_pool] + [list(c) for k in (1, 2) for c in itertools.combinations(names_pool, k)]
    for names in subsets:
        for lb in labels:
            ctx.run('rename_with_label', {'names': names, 'label': lb})
    ctx.scope('compress_spikes_dtypes: id vectors drawn from {0,1,255,256,32767,32768,40000,65535} in dtypes uint16/uint32/int32/int64 x labels')
    pool = [0, 1, 255, 256, 32767, 32768, 40000, 65535]
    for dt in ('uint16', 'uint32', 'int32', 'int64'):
        for lb in ('', 'probe00'):
            ctx.run('compress_ids', {'ids': pool, 'dtype': dt, 'label': lb})
            for a, b in itertools.combinations(pool, 2):
                if quick and (a + b) % 3:
                    continue
                ctx.run('compress_ids', {'ids': [a, b, a], 'dtype': dt, 'label': lb})
    ctx.scope('reload of an exporter-layout directory: the same id vectors in the exported dtype uint16 (and uint32/int32/int64) x labels')
    for dt in ('uint16', 'uint32', 'int32', 'int64'):
        for lb in ('', 'probe00'):
            ctx.run('reload_ids', {'ids': pool, 'dtype': dt, 'label': lb})
            for a, b in itertools.combinations(pool, 2):
                if (quick or dt != 'uint16') and (a + b) % 3:
                    continue
                ctx.run('reload_ids', {'ids': [a, b, a], 'dtype': dt, 'label': lb})
    # ---- same-directory guard
    hows = ['str', 'path', 'trailing', 'dot', 'dotdot', 'subdir_dotdot', 'symlink', 'relative']
    ctx.scope('same-directory guard: 8 spellings of the source directory x {no raw, raw} x labels {"", "x"} x force {False, True}')
    for how in hows:
        for raw in (None, RAW):
            for lb in ('', 'x'):
                for force in (False, True):
                    if quick and (lb == 'x') != force:
                        continue
                    ctx.run('refuse_same_dir', {'ds': base_ds(raw=raw), 'extras': ['temp_wh', 'kslabel'], 'how': how, 'label': lb, 'force': force})
    # ---- end-to-end conversions
    st = spike_templates_for(12, 3)
    cur = curations(st, 3)
    secondary = [
        dict(probes=None, ampfactor=1, colvec=False, extras=[], out='sibling'),
        dict(probes=[0, 0, 0, 0], ampfactor=2.5, colvec=True, extras=['kslabel', 'group', 'temp_wh', 'cluster_tables', 'channel_labels', 'drift', 'junk'], out='inside'),
        dict(probes=[3, 3, 3, 3], ampfactor=2.34e-6, colvec=False, extras=['temp_wh', 'kslabel'], out='inside'),
        dict(probes=None, ampfactor=2, colvec=True, extras=['cluster_tables', 'junk'], out='sibling'),
    ]
    ctx.scope('convert: 12 spikes / 3 templates / 4 channels; raw data {absent, present, wider file with header and permuted map} x '
              'features {absent, present} x curation {no file, identical, merge, merge leaving empty ids below the highest, reassignment, '
              'permuted ids, split} x label {"", "probe00"} x secondary configurations (probe table, unit factor 1/2/2.5/2.34e-6, (n,1) vectors, '
              'optional files KSLabel/group/temp_wh/cluster tables/channel labels/drift/foreign files, output beside or inside the source): '
              + ('2 secondary configurations rotating' if quick else 'all 4'))
    i = 0
    for raw in (None, RAW, RAW_WIDE):
        for feat in (False, True):
            for cname, sc in cur.items():
                for lb in ('', 'probe00'):
                    secs = [secondary[i % 4], secondary[(i + 1 + i // 4) % 4]] if quick else secondary
                    if quick and raw is RAW_WIDE and cname not in ('absent', 'merge01', 'split_top'):
                        i += 1
                        continue
                    for sec in ({id(s): s for s in secs}.values()):
                        kw = dict(raw=raw, features=feat, spike_clusters=sc, colvec=sec['colvec'], probes=sec['probes'])
                        if raw is RAW_WIDE:
                            kw['channel_map'] = [6, 0, 3, 1]
                        ctx.run('convert', {'ds': base_ds(seed=i % 5, **kw), 'extras': sec['extras'], 'label': lb,
                                            'ampfactor': sec['ampfactor'], 'out': sec['out']})
                    i += 1
    # ---- other sizes, dtypes, optional matrices, second conversion of the same source
    ctx.scope('convert: sizes (spikes, templates, channels) in {(2,2,1),(3,2,1),(5,2,2),(9,4,5),(30,3,14),(7,2,3)} x curation x label; '
              'id/time/map dtypes; no whitening / stored inverse / no similarity / shanks / template features / float64 templates; '
              'a source converted before (spike-subset files pre-exist); spikeless template in the middle')
    sizes = [(2, 2, 1), (3, 2, 1), (5, 2, 2), (9, 4, 5), (30, 3, 14), (7, 2, 3)]
    for (ns, nt, nc) in sizes:
        st2 = spike_templates_for(ns, nt)
        for cname, sc in curations(st2, nt).items():
            if quick and cname in ('same', 'gapped', 'permuted'):
                continue
            for lb in ('', 'x'):
                if quick and (lb == 'x') != (cname == 'merge01'):
                    continue
                ctx.run('convert', {'ds': base_ds(seed=ns, ns=ns, nt=nt, nc=nc, spike_clusters=sc, raw=RAW if ns % 2 else None,
                                                  features=bool(nc % 2)), 'label': lb, 'ampfactor': 1 if lb else 3.0,
                                    'out': 'inside' if nc > 2 else 'sibling', 'extras': ['temp_wh'] if nt > 1 else []})
    variants = [dict(ids_dtype='int32'), dict(ids_dtype='int64', times_dtype='int64'), dict(times_dtype='uint32', chanmap_dtype='int64'),
                dict(chanmap_dtype='uint32'), dict(whitening=False), dict(whitening_inv=True), dict(similar=False), dict(shanks=True),
                dict(template_features=True), dict(templates_dtype='float64'), dict(sample_rate=30000.0, max_time=90000),
                dict(sample_rate=2500.0), dict(int_valued=True), dict(template_scale=1e-3)]
    for k, v in enumerate(variants):
        for cname in ('absent', 'merge01', 'split_top'):
            if quick and cname == 'split_top':
                continue
            ctx.run('convert', {'ds': base_ds(seed=k, spike_clusters=cur[cname], raw=RAW if k % 2 else None, **v),
                                'label': 'probe01' if k % 3 == 0 else '', 'ampfactor': [1, 2.0, 1e-3][k % 3], 'out': 'inside' if k % 2 else 'sibling'})
    for cname in ('absent', 'same', 'merge01', 'split_top'):
        for lb in ('', 'probe00'):
            ctx.run('convert', {'ds': base_ds(seed=2, spike_clusters=cur[cname], raw=RAW, features=True), 'label': lb, 'ampfactor': 2.0,
                                'out': 'inside', 'twice': True, 'extras': ['kslabel']})
    # spikeless template in the middle (not the highest): uncurated and curated
    st_mid = [0 if t == 1 else t for t in st]
    for sc in (None, 'same', [3 if t == 0 else t for t in st_mid]):
        for lb in ('', 'x'):
            ctx.run('convert', {'ds': base_ds(seed=4, spike_templates=st_mid, spike_clusters=sc, raw=RAW if lb else None), 'label': lb,
                                'ampfactor': 1, 'out': 'sibling'})
    # ---- known classes of the unchanged tree (kept in scope, recognised from the input)
    ctx.scope('convert on the known defect classes: highest template without spikes (uncurated / curated), feature store covering a subset of the spikes, one-channel dataset with (1,1) column-vector channel tables, spikes within half a window of the recording start (signed / unsigned times, with / without raw data)')
    st_top = [t % 2 for t in st]
    for sc in (None, 'same', [2 if t == 0 else t for t in st_top]):
        ctx.run('convert', {'ds': base_ds(seed=1, spike_templates=st_top, spike_clusters=sc), 'label': '', 'ampfactor': 1, 'out': 'sibling'})
    for sc in (None, cur['merge01']):
        ctx.run('convert', {'ds': base_ds(seed=1, features=True, features_rows=True, spike_clusters=sc), 'label': '', 'ampfactor': 1, 'out': 'sibling'})
    # one channel whose per-channel tables are stored as (1, 1) column vectors
    for ex in ([], ['channel_labels']):
        ctx.run('convert', {'ds': base_ds(seed=5, ns=6, nt=2, nc=1, colvec=True, probes=[0]), 'extras': ex, 'label': '', 'ampfactor': 1, 'out': 'sibling'})
    ctx.run('convert', {'ds': base_ds(seed=5, ns=6, nt=2, nc=1, colvec=False, probes=[0]), 'extras': ['channel_labels'], 'label': '', 'ampfactor': 1, 'out': 'sibling'})
    # spikes nearer to the recording start than half a waveform window: signed times (fine), no raw data (fine), unsigned + raw (C03 class)
    for lo_seed in (0, 1, 2):
        for tdt, raw in (('int64', RAW), ('uint64', None), ('uint64', RAW), ('uint32', RAW)):
            ds = base_ds(seed=lo_seed, lo=0, raw=raw, times_dtype=tdt)
            ds['samples'] = sorted([0, 1, 2][:lo_seed + 1] + ds['samples'][lo_seed + 1:])
            ctx.run('convert', {'ds': ds, 'label': '', 'ampfactor': 1, 'out': 'sibling'})
    if not quick:
        ctx.scope('convert (thorough): seeded random datasets, 2..40 spikes, 2..5 templates, 1..16 channels, random curation by '
                  'relabelling a random subset of spikes into existing or new ids, random optional files / label / unit factor / raw data')
        rs = np.random.RandomState(ctx.seed + 13)
        for k in range(700):
            ns, nt, nc = int(rs.randint(2, 41)), int(rs.randint(2, 6)), int(rs.randint(1, 17))
            stx = spike_templates_for(ns, nt, int(rs.randint(0, nt)))
            nt = max(max(stx) + 1, 2)      # fewer spikes than templates: keep the highest template used
            mode = int(rs.randint(0, 4))
            if mode == 0:
                sc = None
            elif mode == 1:
                sc = 'same'
            else:
                sc = list(stx)
                for i_ in rs.choice(ns, size=int(rs.randint(1, ns + 1)), replace=False):
                    sc[int(i_)] = int(rs.randint(0, nt + 3))
            ex = [e for e in ('kslabel', 'group', 'temp_wh', 'channel_labels', 'drift', 'junk') if rs.rand() < 0.4]
            if sc is not None and rs.rand() < 0.4:
                ex.append('cluster_tables')
            raw = [None, RAW, {'n_samples': 300, 'n_channels_dat': nc + 2, 'offset': 2}][int(rs.randint(0, 3))]
            kw = {}
            if raw is not None and 'n_channels_dat' in raw:
                kw['channel_map'] = [int(x) for x in rs.permutation(nc + 2)[:nc]]
            ctx.run('convert', {'ds': base_ds(seed=int(rs.randint(0, 1000)), ns=ns, nt=nt, nc=nc, spike_templates=stx, spike_clusters=sc, raw=raw,
                                              features=bool(rs.rand() < 0.5), colvec=bool(rs.rand() < 0.3),
                                              probes=([0] * nc if rs.rand() < 0.3 else None), shanks=bool(rs.rand() < 0.2),
                                              whitening=bool(rs.rand() < 0.8), **kw),
                                'extras': ex, 'label': ['', 'probe00', 'x'][int(rs.randint(0, 3))],
                                'ampfactor': [1, 2, 2.5, 2.34e-6][int(rs.randint(0, 4))], 'out': ['sibling', 'inside'][int(rs.randint(0, 2))]})
