# Concrete side of the checker: runs under /venv/bin/python against the REAL code in /repo.
# It evaluates the same contracts (requires => ensures, written from the property statements)
# on the real functions over an exhaustively enumerated, stated finite scope (tier B, the
# bounded stand-in), replays solver counter-models, and replays recorded witnesses.
# Nothing here is ever counted as "proved".
import sys, os, json, time, hashlib, random, traceback, tempfile, shutil, contextlib, io, logging

REPO = os.environ.get('VERIF_REPO', '/repo')
VERIF = os.path.dirname(os.path.dirname(os.path.abspath(__file__)))


def shim():
    """A-SHIM: phylib/io/traces.py imports two private names NumPy 2 moved; copy them back in
    THIS process only (no /repo edit)."""
    import numpy.lib.format as f
    try:
        import numpy.lib._format_impl as impl
    except ImportError:  # older numpy: nothing to do
        return
    for n in ('_check_version', '_write_array_header'):
        if not hasattr(f, n):
            setattr(f, n, getattr(impl, n))


def setup_imports():
    shim()
    if REPO not in sys.path:
        sys.path.insert(0, REPO)
    os.environ.setdefault('PHYLIB_VERIF', '1')
    logging.disable(logging.CRITICAL)


class Fail(Exception):
    pass


def jsonable(x):
    import numpy as np
    if isinstance(x, dict):
        return {str(k): jsonable(v) for k, v in x.items()}
    if isinstance(x, (list, tuple)):
        return [jsonable(v) for v in x]
    if isinstance(x, np.ndarray):
        return {'__nd__': x.tolist(), 'dtype': str(x.dtype)}
    if isinstance(x, np.generic):
        return x.item()
    if isinstance(x, (int, float, str, bool)) or x is None:
        return x
    if isinstance(x, slice):
        return {'__slice__': [x.start, x.stop, x.step]}
    return repr(x)


def in_repo_frame(tb):
    """True iff the exception was raised from (or passed through) a frame of the code under
    test, i.e. the real code misbehaved rather than the harness."""
    root = os.path.realpath(REPO)
    for fs in traceback.extract_tb(tb):
        if os.path.realpath(fs.filename).startswith(root + os.sep):
            return True
    return False


class Ctx:
    """Collects evaluations of contract cases on the real code."""

    def __init__(self, prop, tier, seed, cases, budget_s=None, known=None):
        self.prop, self.tier, self.seed = prop, tier, seed
        self.rng = random.Random(seed)
        self.cases = cases
        self.evaluations = 0
        self.distinct = set()
        self.nontrivial = set()
        self.samples = []
        self.violations = []      # dicts
        self.per_case = {}
        self.t0 = time.time()
        self.budget_s = budget_s
        self.max_viol = 3       # witnesses kept per (case, clause, known-class signature)
        self.known = known or {}
        self.viol_keys = {}
        self.scopes = []
        self.notes = []

    def over_budget(self):
        return self.budget_s is not None and time.time() - self.t0 > self.budget_s

    def scope(self, text):
        self.scopes.append(text)

    def run(self, name, inp):
        """Evaluate contract case `name` on JSON-able input `inp`."""
        key = hashlib.sha1(json.dumps([name, inp], sort_keys=True, default=str).encode()).hexdigest()
        self.evaluations += 1
        self.per_case[name] = self.per_case.get(name, 0) + 1
        new = key not in self.distinct
        self.distinct.add(key)
        fails, nontrivial = eval_case(self.cases, name, inp)
        if nontrivial:
            self.nontrivial.add(key)
        if new and len(self.samples) < 6 and (self.per_case[name] in (1, 7)):
            self.samples.append({'case': name, 'input': inp, 'failed_clauses': [f[0] for f in fails]})
        for clause, detail in fails:
            classes = []
            for cn, pred in self.known.items():
                try:
                    if pred(name, clause, inp):
                        classes.append(cn)
                except Exception:
                    pass
            k = (name, clause, tuple(classes))
            self.viol_keys[k] = self.viol_keys.get(k, 0) + 1
            if self.viol_keys[k] <= self.max_viol:
                self.violations.append({'case': name, 'clause': clause, 'input': inp, 'detail': detail, 'classes': classes})
        return not fails

    def result(self):
        return {
            'property': self.prop, 'tier': self.tier, 'seed': self.seed,
            'evaluations': self.evaluations, 'distinct': len(self.distinct),
            'distinct_nontrivial': len(self.nontrivial), 'samples': self.samples,
            'violations': self.violations, 'per_case': self.per_case,
            'scopes': self.scopes, 'notes': self.notes, 'wall_s': round(time.time() - self.t0, 2),
        }


def eval_case(cases, name, inp):
    """Returns (fails, nontrivial). A case function returns an iterable of
    (clause_name, ok, detail) and may set nontrivial via a leading ('__nontrivial__', bool, '')."""
    fn = cases[name]
    fails = []
    nontrivial = True
    try:
        out = fn(inp)
        for item in out or ():
            clause, ok, detail = item
            if clause == '__nontrivial__':
                nontrivial = bool(ok)
                continue
            if not ok:
                fails.append((clause, str(detail)[:600]))
    except Exception as e:  # noqa
        tb = sys.exc_info()[2]
        # PEP 479: a StopIteration escaping the library inside a generator case arrives as RuntimeError whose
        # __cause__ carries the library frames
        chain, x = [], e
        while x is not None and len(chain) < 5:
            chain.append(x)
            x = x.__cause__ or x.__context__
        src = next((c for c in chain if c.__traceback__ is not None and in_repo_frame(c.__traceback__)), None)
        if src is not None:
            e, tb = src, src.__traceback__
        if in_repo_frame(tb):
            last = traceback.extract_tb(tb)[-1]
            fails.append(('no-unexpected-exception',
                          '%s: %s at %s:%d' % (type(e).__name__, str(e)[:200],
                                                os.path.relpath(last.filename, REPO) if last.filename.startswith(REPO) else last.filename,
                                                last.lineno)))
        else:
            raise
    return fails, nontrivial


@contextlib.contextmanager
def tempdir():
    d = tempfile.mkdtemp(prefix='pvc_')
    try:
        yield d
    finally:
        shutil.rmtree(d, ignore_errors=True)


def dir_digest(path, skip=()):
    """name -> sha256 for every file below path."""
    out = {}
    for root, _, files in os.walk(path):
        for f in files:
            p = os.path.join(root, f)
            rel = os.path.relpath(p, path)
            if rel in skip:
                continue
            with open(p, 'rb') as fh:
                out[rel] = hashlib.sha256(fh.read()).hexdigest()
    return out


def compositions(n, maxparts):
    """All compositions of n into 1..maxparts positive parts."""
    def rec(rem, k):
        if k == 1:
            yield (rem,)
            return
        for first in range(1, rem - k + 2):
            for rest in rec(rem - first, k - 1):
                yield (first,) + rest
    for k in range(1, min(maxparts, n) + 1):
        yield from rec(n, k)
