# Parameterised writer of small KiloSort/phy (or ALF-named) dataset directories for the bounded
# stand-ins of C04, C08-C14.  Independent of phylib: only numpy.  Returns the "truth" (what was written).
import os, json
import numpy as np

DEFAULT = dict(
    seed=0, n_spikes=12, n_templates=3, n_channels=4, nsw=6, sample_rate=100.0,
    names='ks',            # 'ks' | 'alf'
    colvec=False,          # store 1-D vectors as (n, 1)
    spike_clusters=None,   # None: file absent; 'same': copy of templates; list: explicit curated assignment
    amplitudes=True, whitening=True, whitening_inv=False, shanks=False, probes=None,   # probes: None or list per channel
    similar=True, features=False, features_rows=False, template_features=False, template_features_rows=False,
    sparse_templates=False,
    raw=None,              # None or dict(n_samples=.., n_channels_dat=.., dtype='int16', offset=0, n_files=1)
    times_dtype='uint64', ids_dtype='uint32', chanmap_dtype='int32',
    nan_templates=False, nan_amplitudes=False, unused_top_template=False, empty_template=None,
    spike_templates=None,  # explicit list or None (random)
    channel_map=None, positions=None, extra_attrs=(), templates_dtype='float32', max_time=None,
    template_scale=1.0, int_valued=False,
    spike_samples=None,    # explicit sorted list of spike samples or None (random)
)


def make_dataset(d, **kw):
    """Write a dataset into directory d. Returns dict of truth arrays + params."""
    p = dict(DEFAULT)
    p.update(kw)
    rng = np.random.RandomState(p['seed'])
    ns, nt, nc, nsw = p['n_spikes'], p['n_templates'], p['n_channels'], p['nsw']
    sr = float(p['sample_rate'])
    T = {}
    alf = p['names'] == 'alf'

    def vec(a):
        return a.reshape((-1, 1)) if p['colvec'] else a

    def save(name, a):
        np.save(os.path.join(d, name), a)

    raw = p['raw']
    n_rec = raw['n_samples'] if raw else (p['max_time'] or max(50, ns * 5))
    # spike samples: sorted, inside the recording, may contain ties
    samples = np.sort(rng.randint(0, n_rec, size=ns)).astype(p['times_dtype'])
    if p['spike_samples'] is not None:
        samples = np.asarray(p['spike_samples']).astype(p['times_dtype'])
    T['spike_samples'] = samples
    if alf:
        times = samples.astype(np.float64) / sr
        save('spikes.times.npy', vec(times))
        save('spikes.samples.npy', vec(samples))
        T['spike_times_file'] = times
    else:
        save('spike_times.npy', vec(samples))
    if p['spike_templates'] is not None:
        st = np.asarray(p['spike_templates'])
    else:
        top = nt - 1 if p['unused_top_template'] else nt
        st = rng.randint(0, top, size=ns)
        if p['empty_template'] is not None:
            st[st == p['empty_template']] = (p['empty_template'] + 1) % top
    st = st.astype(p['ids_dtype'])
    T['spike_templates'] = st
    save('spikes.templates.npy' if alf else 'spike_templates.npy', vec(st))
    sc = p['spike_clusters']
    if sc is not None:
        scv = st.copy() if isinstance(sc, str) and sc == 'same' else np.asarray(sc)
        scv = scv.astype(p['ids_dtype'])
        T['spike_clusters'] = scv
        save('spikes.clusters.npy' if alf else 'spike_clusters.npy', vec(scv))
    if p['amplitudes']:
        amp = (rng.randint(1, 9, size=ns).astype(np.float64) if p['int_valued'] else rng.uniform(0.5, 2.0, size=ns))
        if p['nan_amplitudes']:
            amp[rng.randint(0, ns)] = np.nan
            amp[rng.randint(0, ns)] = np.inf
        T['amplitudes'] = amp
        save('spikes.amps.npy' if alf else 'amplitudes.npy', vec(amp))
    cm = np.asarray(p['channel_map'] if p['channel_map'] is not None else np.arange(nc)).astype(p['chanmap_dtype'])
    T['channel_map'] = cm
    save('channels.rawInd.npy' if alf else 'channel_map.npy', vec(cm))
    if p['positions'] is not None:
        pos = np.asarray(p['positions'], dtype=np.float64)
    else:
        pos = np.c_[np.zeros(nc), np.arange(nc) * 10.0].astype(np.float64)
        pos[:, 0] = (np.arange(nc) % 2) * 7.0
    T['channel_positions'] = pos
    save('channels.localCoordinates.npy' if alf else 'channel_positions.npy', pos)
    if p['shanks']:
        sh = (np.arange(nc) >= (nc + 1) // 2).astype(np.int32)
        T['channel_shanks'] = sh
        save('channels.shanks.npy' if alf else 'channel_shanks.npy', vec(sh))
    if p['probes'] is not None:
        pr = np.asarray(p['probes']).astype(np.int32)
        T['channel_probes'] = pr
        save('channels.probes.npy' if alf else 'channel_probe.npy', vec(pr))
    # templates (dense: nt x nsw x nc)
    if p['int_valued']:
        tpl = rng.randint(-4, 5, size=(nt, nsw, nc)).astype(p['templates_dtype'])
    else:
        tpl = rng.normal(size=(nt, nsw, nc)).astype(p['templates_dtype'])
    tpl *= p['template_scale']
    # make one channel dominant per template so peak channels are unambiguous
    for t in range(nt):
        tpl[t, :, (t * 2 + 1) % nc] *= 3.0
        tpl[t, 0, (t * 2 + 1) % nc] += 5.0
    if p['nan_templates']:
        tpl[0, 1, 0] = np.nan
        tpl[nt - 1, 0, nc - 1] = np.inf
    if p['sparse_templates']:
        ncl = min(3, nc)
        cols = np.stack([np.roll(np.arange(nc), -t)[:ncl] for t in range(nt)]).astype(np.int32)
        if nt > 1 and ncl > 1:
            cols[1, -1] = -1
        tpls = np.stack([tpl[t][:, np.where(cols[t] >= 0, cols[t], 0)] for t in range(nt)])
        for t in range(nt):
            tpls[t][:, cols[t] == -1] = 0
        T['templates'] = tpls
        T['template_ind'] = cols
        save('templates.waveforms.npy' if alf else 'templates.npy', tpls)
        save('templates.waveformsChannels.npy' if alf else 'template_ind.npy', cols)
    else:
        T['templates'] = tpl
        save('templates.waveforms.npy' if alf else 'templates.npy', tpl)
    if p['whitening']:
        wm = np.eye(nc) * 2.0 + np.triu(np.ones((nc, nc)), 1) * 0.25
        T['whitening_mat'] = wm
        save('whitening_mat.npy', wm)
        if p['whitening_inv']:
            wmi = np.linalg.inv(wm)
            T['whitening_mat_inv'] = wmi
            save('whitening_mat_inv.npy', wmi)
    if p['similar']:
        sim = rng.uniform(size=(nt, nt))
        T['similar_templates'] = sim
        save('similar_templates.npy', sim)
    if p['features']:
        ncl = min(3, nc)
        npcs = 3
        nfs = ns if not p['features_rows'] else max(1, ns // 2)
        pcf = rng.normal(size=(nfs, npcs, ncl)).astype(np.float32)
        pci = np.stack([np.roll(np.arange(nc), -t)[:ncl] for t in range(nt)]).astype(np.uint32)
        T['pc_features'] = pcf
        T['pc_feature_ind'] = pci
        save('pc_features.npy', pcf)
        save('pc_feature_ind.npy', pci)
        if p['features_rows']:
            rows = np.sort(rng.choice(ns, nfs, replace=False)).astype(np.int64)
            T['pc_feature_spike_ids'] = rows
            save('pc_feature_spike_ids.npy', rows)
    if p['template_features']:
        ntl = min(2, nt)
        nfs = ns if not p['template_features_rows'] else max(1, ns // 2)
        tf = rng.normal(size=(nfs, ntl)).astype(np.float32)
        tfi = np.stack([np.roll(np.arange(nt), -t)[:ntl] for t in range(nt)]).astype(np.uint32)
        T['template_features'] = tf
        T['template_feature_ind'] = tfi
        save('template_features.npy', tf)
        save('template_feature_ind.npy', tfi)
        if p['template_features_rows']:
            rows = np.sort(rng.choice(ns, nfs, replace=False)).astype(np.int64)
            T['template_feature_spike_ids'] = rows
            save('template_feature_spike_ids.npy', rows)
    for name, shape_tail in p['extra_attrs']:
        a = rng.normal(size=(ns,) + tuple(shape_tail))
        T['spike_' + name] = a
        save('spike_%s.npy' % name, a)
    dat_paths = []
    if raw:
        ncd = raw.get('n_channels_dat', nc)
        dt = np.dtype(raw.get('dtype', 'int16'))
        off = raw.get('offset', 0)
        nf = raw.get('n_files', 1)
        full = (rng.randint(-100, 100, size=(raw['n_samples'], ncd))).astype(dt)
        T['raw'] = full
        cuts = [0] + [int(round(raw['n_samples'] * (i + 1) / nf)) for i in range(nf)]
        for i in range(nf):
            fn = 'raw%d.dat' % i
            with open(os.path.join(d, fn), 'wb') as f:
                f.write(b'\x07' * off)
                f.write(full[cuts[i]:cuts[i + 1]].tobytes())
            dat_paths.append(fn)
    with open(os.path.join(d, 'params.py'), 'w') as f:
        f.write('dat_path = %r\n' % (dat_paths,))
        f.write('n_channels_dat = %d\n' % (raw.get('n_channels_dat', nc) if raw else nc))
        f.write("dtype = '%s'\n" % (raw.get('dtype', 'int16') if raw else 'int16'))
        f.write('offset = %d\n' % (raw.get('offset', 0) if raw else 0))
        f.write('sample_rate = %r\n' % sr)
        f.write('hp_filtered = False\n')
    T['params'] = dict(p)
    T['dat_paths'] = dat_paths
    T['dir'] = d
    return T
