"""Sidecar contract records (DESIGN 2.1).  Pure Python, importable under both interpreters."""

REGISTRY = {}      # (file, qualname) -> Contract
BY_NAME = {}       # simple function name / 'Class.method' -> [Contract]


WITNESS = {}      # (id of contract clause list entry) -> not used; witnesses are stored per contract in hints['witness'][label]


def _clauses(xs, witness=None):
    out = []
    for i, x in enumerate(xs or []):
        if isinstance(x, str):
            out.append(('c%d' % i, x))
        else:
            out.append((x[0], x[1]))
            if len(x) > 2 and witness is not None:
                witness[x[0]] = x[2]['witness']
    return out


class Contract:
    def __init__(self, file, qual, params=None, requires=None, ensures=None, raises=None, result=None,
                 ghost=None, on_yield=None, at_exit=None, loops=None, locals=None, modifies=None,
                 props=(), self_type=None, fields=None, is_property=False, on_call=None, let=None,
                 pure=True, kind='code', note='', allow_assert_fail=False, cases=None, hints=None,
                 yields=None, trusted=False, statement=None, varargs=None, kwargs=None, defaults=None,
                 lemmas=None, timeout=None, negative_controls=None, variant=None, result_from=None, ghost_exit=None, source=None, kinds=None, defines=None, cuts=None, assume_asserts=None, theory=None, using=None):
        self.file, self.qual = file, qual
        self.params = dict(params or {})        # name -> type string (ordered)
        self.requires = _clauses(requires)
        self.witness = {}                       # ensures label -> {bound var: witness expr} for existential goals
        self.ensures = _clauses(ensures, self.witness)
        self.raises = list(raises or [])        # (ExcName, condition expr, 'iff'|'may')
        self.result = result                    # type string of the result (None: infer / None)
        self.using = dict(using or {})          # obligation label -> labels of the earlier facts (requires, hints, lemmas, invariants) to try first
        self.theory = tuple(theory or ())       # optional theory facts this proof asks for (kept out of all other proofs: fewer hypotheses)
        self.ghost = dict(ghost or {})          # name -> init expr
        self.on_yield = on_yield                # {'vars': [...], 'requires': [...], 'updates': {...}}
        self.at_exit = _clauses(at_exit)
        self.loops = dict(loops or {})          # ordinal -> {'invariant': [...], 'idx': name, 'locals': {...}}
        self.locals = dict(locals or {})
        self.modifies = list(modifies or [])    # names of list params / 'self.field' havocked by a call
        self.props = tuple(props)
        self.fields = dict(fields or {})        # for methods: self field name -> type
        self.is_property = is_property
        self.on_call = on_call                  # monitor for opaque callback invocations
        self.let = dict(let or {})              # spec-level abbreviations name -> expr (evaluated at entry)
        self.kind = kind                        # 'code' (verified against /repo) | 'assumed' (library / external)
        self.note = note
        self.allow_assert_fail = allow_assert_fail
        self.cases = cases                      # optional explicit list of {param: type} overrides
        self.hints = dict(hints or {})
        self.yields = yields                    # for consumers of a generator: type of the yielded list + ensures over `result`
        self.trusted = trusted
        self.statement = statement              # which sentence of the property the top-level ensures come from
        self.varargs, self.kwargs = varargs, kwargs
        self.defaults = dict(defaults or {})
        self.lemmas = list(lemmas or [])
        self.timeout = timeout
        self.variant = variant
        self.assume_asserts = list(assume_asserts or [])   # code asserts (statement text prefixes) that are ASSUMED, not proved: listed in the evidence, bounded only
        self.cuts = list(cuts or [])              # (statement text prefix, label, expr): stepping stones proved right after that statement, then assumed
        self.defines = _clauses(defines)          # definitional clauses about uninterpreted spec symbols: assumed at call sites, no obligation (listed as A-DEF)
        self.kinds = dict(kinds or {})            # parameter name -> Python type name of an opaque (elem) parameter, for isinstance
        self.ghost_exit = dict(ghost_exit or {})   # 'self.field' -> expr: ghost fields assigned by the contract at normal exit
        self.source = source                       # qualname (with optional @decorator) in the file, when it differs from qual
        self.result_from = result_from    # {'copy_of': param, 'fresh': [field, ...]}: result object shares all other fields (same references)
        REGISTRY[(file, qual if variant is None else qual + '#' + variant)] = self
        BY_NAME.setdefault(qual, []).append(self)
        if qual.split('.')[-1] != qual:
            BY_NAME.setdefault(qual.split('.')[-1], []).append(self)

    @property
    def key(self):
        return '%s::%s' % (self.file, self.qual if self.variant is None else self.qual + '#' + self.variant)


def contract(file, qual, **kw):
    return Contract(file, qual, **kw)


CLASSES = {}      # class name -> {'file': relpath or None, 'fields': {name: type string}}


def declare_class(name, file=None, fields=None):
    if name in CLASSES:
        CLASSES[name]['fields'].update(fields or {})
        CLASSES[name]['file'] = CLASSES[name]['file'] or file
    else:
        CLASSES[name] = {'file': file, 'fields': dict(fields or {})}


UFUNCS = {}       # name -> (arg sorts, result sort) with sorts in {'int','bool','real','elem'}: uninterpreted spec functions


def declare_ufunc(name, args, result):
    UFUNCS[name] = (list(args), result)
