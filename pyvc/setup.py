"""setup_cmd: check that the interpreters / solvers this framework needs are present, create out/, and
machine-check the generic Lean bridging lemmas (if any are present).  Nothing is fetched."""
import os, sys, subprocess, shutil

VERIF = os.path.dirname(os.path.dirname(os.path.abspath(__file__)))


def main():
    ok = True
    os.makedirs(os.path.join(VERIF, 'out', 'replay'), exist_ok=True)
    os.makedirs(os.path.join(VERIF, 'evidence'), exist_ok=True)
    try:
        import z3
        print('z3', z3.get_version_string())
    except Exception as e:
        print('z3 missing', e)
        ok = False
    print('cvc5 binary', os.path.exists('/usr/bin/cvc5'))
    r = subprocess.run(['/venv/bin/python', '-c', 'import numpy, scipy, mtscomp; print(numpy.__version__)'], capture_output=True, text=True)
    print('/venv numpy', r.stdout.strip(), r.stderr.strip()[-200:])
    ok = ok and r.returncode == 0
    lean_dir = os.path.join(VERIF, 'lean')
    if os.path.isdir(lean_dir) and shutil.which('lean'):
        from concurrent.futures import ThreadPoolExecutor
        files = [f for f in sorted(os.listdir(lean_dir)) if f.endswith('.lean')]

        def run(f):
            r = subprocess.run(['lean', os.path.join(lean_dir, f)], capture_output=True, text=True, cwd='/opt/veriftools/mathlib4')
            status = 'ok' if r.returncode == 0 and 'error' not in r.stdout else 'FAILED'
            with open(os.path.join(VERIF, 'out', 'lean_%s.status' % f), 'w') as fh:
                fh.write(status + '\n' + r.stdout[-2000:] + r.stderr[-2000:])
            return f, status
        with ThreadPoolExecutor(max_workers=4) as ex:      # (most of the time is the Mathlib import)
            for f, status in ex.map(run, files):
                print('lean %s: %s' % (f, status))
    return 0 if ok else 1
