"""Discharging obligations (DESIGN 2.7): deterministic typed trigger-based instantiation followed by a
quantifier-free z3 query; fall-backs: z3's own quantifier engine, then cvc5.  `unsat` = proved for all
sizes (instantiation only weakens hypotheses).  Anything else is "not proved" (never a violation by itself)."""
import time, os, subprocess, tempfile, itertools
import z3

MAX_INST_PER_Q = 400
MAX_TOTAL = 3000


# ---------------------------------------------------------------------------------------------------
# helpers on z3 terms
# ---------------------------------------------------------------------------------------------------

def subterms(t, pred, out=None, seen=None, under_q=False):
    """All subterms satisfying pred, not descending into quantifiers unless under_q."""
    if out is None:
        out, seen = [], set()
    stack = [t]
    while stack:
        x = stack.pop()
        i = x.get_id()
        if i in seen:
            continue
        seen.add(i)
        if z3.is_quantifier(x):
            if under_q:
                stack.append(x.body())
            continue
        if pred(x):
            out.append(x)
        stack.extend(x.children())
    return out


def has_var(t, cache):
    i = t.get_id()
    if i in cache:
        return cache[i]
    if z3.is_var(t):
        r = True
    elif z3.is_quantifier(t):
        r = has_var(t.body(), cache)
    else:
        r = any(has_var(c, cache) for c in t.children())
    cache[i] = r
    return r


def has_quant(t):
    seen = set()
    stack = [t]
    while stack:
        x = stack.pop()
        if x.get_id() in seen:
            continue
        seen.add(x.get_id())
        if z3.is_quantifier(x):
            return True
        stack.extend(x.children())
    return False


def linear_in_var(idx, cache):
    """If idx = (+/-)Var(k) + ground, return (k, sign, ground_term_or_None); else None."""
    if z3.is_var(idx):
        return (z3.get_var_index(idx), 1, None)
    if z3.is_add(idx):
        vs = [c for c in idx.children() if has_var(c, cache)]
        gs = [c for c in idx.children() if not has_var(c, cache)]
        if len(vs) == 1:
            r = linear_in_var(vs[0], cache)
            if r is None:
                return None
            k, sg, g0 = r
            g = gs + ([g0] if g0 is not None else [])
            gt = g[0] if len(g) == 1 else z3.Sum(g)
            return (k, sg, gt)
        return None
    if z3.is_sub(idx) and len(idx.children()) == 2:
        a, b = idx.children()
        if has_var(a, cache) and not has_var(b, cache):
            r = linear_in_var(a, cache)
            if r is None:
                return None
            k, sg, g0 = r
            return (k, sg, (g0 - b) if g0 is not None else -b)
        if has_var(b, cache) and not has_var(a, cache):
            r = linear_in_var(b, cache)
            if r is None:
                return None
            k, sg, g0 = r
            return (k, -sg, (a - g0) if g0 is not None else a)
        return None
    if z3.is_mul(idx) and len(idx.children()) == 2:
        a, b = idx.children()
        if z3.is_int_value(a) and a.as_long() != 0:
            r = linear_in_var(b, cache)
            if r and r[2] is None:
                return (r[0], a.as_long() * r[1], None)
    if idx.decl().kind() == z3.Z3_OP_UMINUS:
        r = linear_in_var(idx.children()[0], cache)
        if r and r[2] is None:
            return (r[0], -r[1], None)
    return None


def array_roots(a):
    """The array term itself and, through Store chains, the arrays it was built from."""
    out = [a]
    while z3.is_store(a):
        a = a.children()[0]
        out.append(a)
    return out


import re as _re
_LEAF = _re.compile(r'^(.*)\.a(\d+)!(\d+)$')
_LEN = _re.compile(r'^(.*)\.len!(\d+)$')
_RAGC = _re.compile(r'^(.*)\.(lens|rows)!(\d+)$')
_prenex_n = [0]


def prenex(q):
    """forall x. A(x) or (forall y. B(x, y))  ==>  forall x, y. A(x) or B(x, y)   (universal quantifiers below only and/or, i.e. in
    positive position after NNF; the sorts are non-empty, so the two are equivalent).  The instantiation engine matches triggers
    on one flat quantifier."""
    if not has_quant(q.body()):
        return q
    consts = []

    def open_(f):
        _prenex_n[0] += 1
        vs = [z3.Const('px!%d!%d' % (_prenex_n[0], i), f.var_sort(i)) for i in range(f.num_vars())]
        consts.extend(vs)
        return walk(z3.substitute_vars(f.body(), *reversed(vs)))

    def walk(f):
        if not has_quant(f):
            return f
        if z3.is_quantifier(f):
            if f.is_forall():
                return open_(f)
            return f
        if z3.is_and(f):
            return z3.And([walk(c) for c in f.children()])
        if z3.is_or(f):
            return z3.Or([walk(c) for c in f.children()])
        return f
    body = open_(q)
    if has_quant(body):
        return q        # something could not be pulled out: keep the original (the native engines still see it)
    return z3.ForAll(consts, body)


def prenex_split(q):
    """like prenex, but  forall x. g(x) -> (A(x) and forall y. B(x, y))  becomes the two quantifiers  forall x. g -> A  and
    forall x, y. g -> B: a conjunct without y must not wait for a candidate for y.  (forall distributes over and; or over and.)"""
    if not has_quant(q.body()):
        return [q]
    _prenex_n[0] += 1
    vs = [z3.Const('ps!%d!%d' % (_prenex_n[0], i), q.var_sort(i)) for i in range(q.num_vars())]
    body = z3.substitute_vars(q.body(), *reversed(vs))

    def clauses(f):
        if z3.is_and(f):
            out = []
            for c in f.children():
                out.extend(clauses(c))
            return out
        if z3.is_or(f) and has_quant(f):
            ch = list(f.children())
            for i, c in enumerate(ch):
                if has_quant(c) and z3.is_and(c):
                    rest = ch[:i] + ch[i + 1:]
                    out = []
                    for x in c.children():
                        out.extend(clauses(z3.Or(rest + [x])))
                    return out
            return [f]
        return [f]
    cls = clauses(body)
    if len(cls) == 1:
        return [prenex(q)]
    out = []
    for cl in cls:
        used = [v for v in vs if _occurs(v, cl)]
        qq = z3.ForAll(used, cl) if used else cl
        if z3.is_quantifier(qq):
            out.append(prenex(qq))
        else:
            out.append(qq)
    return out


def _occurs(v, f):
    vid = v.get_id()
    seen = set()
    stack = [f]
    while stack:
        x = stack.pop()
        i = x.get_id()
        if i == vid:
            return True
        if i in seen:
            continue
        seen.add(i)
        if z3.is_quantifier(x):
            stack.append(x.body())
        else:
            stack.extend(x.children())
    return False


def _exact_div(t, c):
    """t / c when t is syntactically a multiple of the integer constant c (e.g. 2*x / 2 = x), else None (no junk terms like (2*x - 1) div 2)"""
    q = z3.simplify(t / c)
    if z3.is_true(z3.simplify(q * c == t)):
        return q
    return None


class Inst:
    def __init__(self, formulas, rounds=3, use_idx=False, must_contain=None):
        self.rounds = rounds
        self.use_idx = use_idx
        self.small = None
        self.must_contain = must_contain      # names of the goal's skolem constants: only candidate terms mentioning one of them (goal-directed mode)
        self._mc = {}
        self.ground = []
        self.quants = []
        self.proxy_n = 0
        for f in formulas:
            self.add_formula(f)
        self.n_inst = 0

    # -- normalisation ---------------------------------------------------------------------------
    def add_formula(self, f):
        if z3.is_and(f):
            for c in f.children():
                self.add_formula(c)
            return
        if z3.is_quantifier(f) and f.is_forall():
            for pq in prenex_split(f):
                if z3.is_quantifier(pq):
                    self.quants.append(pq)
                else:
                    self.add_formula(pq)
            return
        if not has_quant(f):
            self.ground.append(f)
            return
        self.ground.append(self.proxify(f))

    def proxify(self, f):
        """Replace universally quantified subformulas (positive positions after NNF) by Boolean proxies p and
        add forall x. p -> body.  Existentials were removed by skolemisation (nnf tactic)."""
        if z3.is_quantifier(f):
            if f.is_forall():
                self.proxy_n += 1
                p = z3.Bool('proxy!%d' % self.proxy_n)
                vs = [z3.Const('pv!%d!%d' % (self.proxy_n, i), f.var_sort(i)) for i in range(f.num_vars())]
                body = z3.substitute_vars(f.body(), *reversed(vs))
                self.quants.append(prenex(z3.ForAll(vs, z3.Or(z3.Not(p), body))))
                return p
            raise ValueError('unexpected existential after skolemisation')
        if not has_quant(f):
            return f
        if z3.is_and(f) or z3.is_or(f):
            ch = [self.proxify(c) for c in f.children()]
            return z3.And(ch) if z3.is_and(f) else z3.Or(ch)
        raise ValueError('quantifier under %s after NNF' % f.decl().name())

    # -- matching --------------------------------------------------------------------------------
    def ground_reads(self, forms):
        """array-root-id -> set of ground index terms read from (any array built from) that root;
        func decl name -> list of ground argument tuples."""
        reads = {}
        apps = {}
        cache = {}
        for f in forms:
            for t in subterms(f, lambda x: z3.is_select(x) or (z3.is_app(x) and x.decl().kind() == z3.Z3_OP_UNINTERPRETED and x.num_args() > 0)):
                if has_var(t, cache):
                    continue      # (quantifier bodies are scanned for their ground subterms only)
                if z3.is_select(t):
                    arr, idx = t.children()[0], t.children()[1]
                    for r in array_roots(arr):
                        reads.setdefault(r.get_id(), {})[idx.get_id()] = idx
                    if z3.is_select(arr):
                        # two-level read D[g1][g2] of a list of arrays: remember the column index per outer array
                        outer, g1 = arr.children()[0], arr.children()[1]
                        for r in array_roots(outer):
                            reads.setdefault(('nested', r.get_id()), {})[idx.get_id()] = idx
                        # D = Store(D0, i, A): the row read may be the stored row A itself (when g1 == i): g2 is a read position of A too
                        lay = outer
                        while z3.is_store(lay):
                            stored = lay.children()[2]
                            if z3.is_array(stored):
                                for r in array_roots(stored):
                                    reads.setdefault(r.get_id(), {})[idx.get_id()] = idx
                            lay = lay.children()[0]
                else:
                    apps.setdefault(t.decl().name(), {})[tuple(a.get_id() for a in t.children())] = t.children()
        # Store(A, i, v): index i is also an interesting ground term for A
        for f in forms:
            for t in subterms(f, z3.is_store):
                if has_var(t, cache):
                    continue
                i = t.children()[1]
                for r in array_roots(t):
                    reads.setdefault(r.get_id(), {})[i.get_id()] = i
        return reads, apps

    def alias_classes(self, forms):
        """union-find over array terms equated at top level (A == B, A == Store(B..))."""
        parent = {}

        def find(x):
            while parent.get(x, x) != x:
                x = parent[x]
            return x

        def union(a, b):
            ra, rb = find(a), find(b)
            if ra != rb:
                parent[ra] = rb
        for f in forms:
            if z3.is_eq(f):
                a, b = f.children()
                if z3.is_array(a):
                    for x in array_roots(a):
                        for y in array_roots(b):
                            union(x.get_id(), y.get_id())
        # the parallel component arrays of ONE list of tuples (names base.a0!n, base.a1!n+1, ...) are indexed by the same positions
        groups = {}
        for f in list(forms) + [q.body() for q in self.quants]:
            for t in subterms(f, lambda x: z3.is_const(x) and z3.is_array(x)):
                m = _LEAF.match(t.decl().name())
                if m:
                    groups.setdefault((m.group(1), int(m.group(3)) - int(m.group(2))), []).append(t.get_id())
        for ids in groups.values():
            for x in ids[1:]:
                union(ids[0], x)
        # lists of arrays: lengths array base.lens!n and rows array base.rows!n+1 of one ragged value
        self.rag_rows = {}
        lens_c, rows_c = {}, {}
        for f in list(forms) + [q.body() for q in self.quants]:
            for t in subterms(f, lambda x: z3.is_const(x) and z3.is_array(x)):
                m = _RAGC.match(t.decl().name())
                if m:
                    (lens_c if m.group(2) == 'lens' else rows_c)[(m.group(1), int(m.group(3)))] = t.get_id()
        for (base, n), lid in lens_c.items():
            self.rag_rows[lid] = rows_c.get((base, n + 1))
        self.list_rep = {k: ids[0] for k, ids in groups.items()}      # (base name, id of the list) -> one of its component arrays
        return find

    def candidates(self, q, reads, apps, find, class_reads):
        nv = q.num_vars()
        cache = {}
        body = q.body()
        cands = [dict() for _ in range(nv)]     # var index (de Bruijn) -> {term id: term}
        # triggers: selects with index linear in exactly one bound var
        for t in subterms(body, z3.is_select):
            arr, idx = t.children()[0], t.children()[1]
            if has_var(arr, cache) and z3.is_select(arr) and not has_var(arr.children()[0], cache) and has_var(idx, cache):
                # D[p_expr][i_expr] with bound row: candidates for the column variable from the ground two-level reads of D
                lin = linear_in_var(idx, cache)
                if lin is not None:
                    k, sg, g = lin
                    pool = {}
                    for r in array_roots(arr.children()[0]):
                        pool.update(class_reads.get(('nested', find(r.get_id())), {}))
                        pool.update(reads.get(('nested', r.get_id()), {}))
                    for gid, gt in pool.items():
                        val = gt if g is None else gt - g
                        if sg == -1:
                            val = -val
                        elif sg not in (1, -1):
                            val = _exact_div(val, sg)
                            if val is None:
                                continue
                        val = z3.simplify(val)
                        cands[k][val.get_id()] = val
                continue
            if has_var(arr, cache):
                continue
            if not has_var(idx, cache):
                continue
            lin = linear_in_var(idx, cache)
            if lin is None:
                continue
            k, sg, g = lin
            pool = {}
            for r in array_roots(arr):
                pool.update(class_reads.get(find(r.get_id()), {}))
            for gid, gt in pool.items():
                # idx = sg*v + g == gt  ->  v = sg*(gt - g)
                val = gt if g is None else gt - g
                if sg == -1:
                    val = -val
                elif sg not in (1, -1):
                    val = _exact_div(val, sg)       # integer coefficient: only when c*v + g == gt has a syntactic solution
                    if val is None:
                        continue
                val = z3.simplify(val)
                cands[k][val.get_id()] = val
        for t in subterms(body, lambda x: z3.is_app(x) and x.decl().kind() == z3.Z3_OP_UNINTERPRETED and x.num_args() > 0):
            for pos, a in enumerate(t.children()):
                if not has_var(a, cache):
                    continue
                lin = linear_in_var(a, cache)
                if lin is None:
                    continue
                k, sg, g = lin
                # ground array arguments of the pattern must be (aliases of) the ground application's: rpsum(lensA, p) does not match rpsum(lensB, t)
                fixed = [(p2, set(find(r.get_id()) for r in array_roots(a2))) for p2, a2 in enumerate(t.children())
                         if p2 != pos and z3.is_array(a2) and not has_var(a2, cache)]
                for key, gargs in apps.get(t.decl().name(), {}).items():
                    if any(not (cls & set(find(r.get_id()) for r in array_roots(gargs[p2]))) for p2, cls in fixed):
                        continue
                    gt = gargs[pos]
                    val = gt if g is None else gt - g
                    if sg == -1:
                        val = -val
                    elif sg not in (1, -1):
                        val = _exact_div(val, sg)
                        if val is None:
                            continue
                    val = z3.simplify(val)
                    cands[k][val.get_id()] = val
        # range-guard bounds: forall v. (lo <= v and v < hi) -> ...  gives the candidates lo and hi-1 (first / last element facts)
        # guards: body = (g1 and g2 ...) -> C   or, after NNF,   (not g1) or (not g2) or ... or C
        guards = []
        if z3.is_implies(body):
            g = body.children()[0]
            guards = list(g.children()) if z3.is_and(g) else [g]
        elif z3.is_or(body):
            flat, stack = [], list(body.children())
            while stack:
                x = stack.pop()
                if z3.is_or(x):
                    stack.extend(x.children())
                else:
                    flat.append(x)
            for lit in flat:
                if z3.is_not(lit):
                    guards.append(lit.children()[0])
                elif z3.is_app(lit) and lit.num_args() == 2 and lit.decl().kind() in (z3.Z3_OP_LE, z3.Z3_OP_GE, z3.Z3_OP_LT, z3.Z3_OP_GT):
                    l, r = lit.children()
                    neg = {z3.Z3_OP_LE: l > r, z3.Z3_OP_GE: l < r, z3.Z3_OP_LT: l >= r, z3.Z3_OP_GT: l <= r}[lit.decl().kind()]
                    guards.append(neg)
        pending_len = []
        pending_rag = []
        for a in guards:
            if not z3.is_app(a) or a.num_args() != 2:
                continue
            l, r = a.children()
            k = a.decl().kind()
            for var, other, side in ((l, r, 'L'), (r, l, 'R')):
                if z3.is_var(var) and z3.is_int(var) and z3.is_select(other) and z3.is_const(other.children()[0]) \
                        and other.children()[0].get_id() in getattr(self, 'rag_rows', {}):
                    # a column variable bounded by the length of a row of a list of arrays (j < lens[p]): the columns at which rows of that
                    # list -- or of a list with the same row lengths -- are read elsewhere
                    pending_rag.append((z3.get_var_index(var), other.children()[0].get_id()))
                    continue
                if not z3.is_var(var) or has_var(other, cache) or not z3.is_int(var):
                    continue
                vi = z3.get_var_index(var)
                val = None
                if (k == z3.Z3_OP_LE and side == 'R') or (k == z3.Z3_OP_GE and side == 'L'):      # other <= v / v >= other
                    val = other
                elif (k == z3.Z3_OP_LT and side == 'L') or (k == z3.Z3_OP_GT and side == 'R'):    # v < other / other > v
                    val = other - 1
                elif (k == z3.Z3_OP_LE and side == 'L') or (k == z3.Z3_OP_GE and side == 'R'):    # v <= other
                    val = other
                elif (k == z3.Z3_OP_LT and side == 'R') or (k == z3.Z3_OP_GT and side == 'L'):    # other < v
                    val = other + 1
                if val is not None and not cands[vi] and z3.is_const(other):
                    # a variable without any trigger of its own, bounded by the length of a list (forall r < len(X): ...skolem(r)...):
                    # the positions at which X is read elsewhere are its candidates
                    m_ = _LEN.match(other.decl().name())
                    rep = getattr(self, 'list_rep', {}).get((m_.group(1), int(m_.group(2)) + 1)) if m_ else None
                    if rep is not None:
                        pending_len.append((vi, rep))
                if val is not None and cands[vi] and self.use_idx:
                    val = z3.simplify(val)
                    cands[vi][val.get_id()] = val
                if val is not None and self.use_idx and len(self.idx_consts) <= 16:
                    cands[vi].update(self.idx_consts)      # index-like skolem constants for range-guarded variables
        for vi, rep in pending_len:
            if not cands[vi]:
                cands[vi].update(class_reads.get(find(rep), {}))
        for vi, lid in pending_rag:
            if not cands[vi]:
                for l2, rid in self.rag_rows.items():
                    if rid is not None and find(l2) == find(lid):
                        cands[vi].update(reads.get(('nested', rid), {}))
        if self.must_contain:
            cands = [{k: t for k, t in c.items() if self.mentions(t)} for c in cands]
        return cands

    def mentions(self, t):
        """does the ground term mention one of the goal's skolem constants?"""
        i = t.get_id()
        hit = self._mc.get(i)
        if hit is not None and hit[0].eq(t):
            return hit[1]
        r = False
        if z3.is_const(t):
            r = t.decl().name() in self.must_contain
        else:
            for c in t.children():
                if self.mentions(c):
                    r = True
                    break
        self._mc[i] = (t, r)        # (the term is kept alive: z3 recycles the ids of freed terms)
        return r

    def index_constants(self, forms):
        """ground integer terms that are asserted non-negative somewhere (skolem indices of negated universal goals, loop counters):
        extra candidates for range-guarded integer variables"""
        out = {}

        def visit(f):
            if z3.is_and(f) or z3.is_or(f) or z3.is_not(f) or z3.is_implies(f):
                for c in f.children():
                    visit(c)
                return
            if z3.is_app(f) and f.num_args() == 2 and f.decl().kind() in (z3.Z3_OP_LE, z3.Z3_OP_GE):
                l, r = f.children()
                for a, b, k in ((l, r, f.decl().kind()), (r, l, z3.Z3_OP_GE if f.decl().kind() == z3.Z3_OP_LE else z3.Z3_OP_LE)):
                    # b <= a  with b == 0  -> a is index-like
                    if k == z3.Z3_OP_GE and z3.is_int_value(b) and b.as_long() == 0 and z3.is_int(a) and not z3.is_int_value(a) and \
                            (z3.is_const(a) or (z3.is_select(a) and z3.is_const(a.arg(0)) and z3.is_const(a.arg(1)) and not z3.is_int_value(a.arg(1)))):
                        # a skolem index, or an element A[c] of an index array at a skolem position (e.g. a requested channel used as a column)
                        out[a.get_id()] = a
        for f in forms:
            visit(f)
        return out

    def run(self, timeout_ms=10000):
        t0 = time.time()
        instances = {}
        forms = list(self.ground)
        self.idx_consts = self.index_constants(forms)
        first_seen = {}
        for rnd in range(self.rounds):
            allf = forms + list(instances.values())
            reads, apps = self.ground_reads(allf + [q.body() for q in self.quants])
            find = self.alias_classes(allf)
            class_reads = {}
            for rid, d in reads.items():
                if isinstance(rid, tuple):
                    class_reads.setdefault(('nested', find(rid[1])), {}).update(d)
                else:
                    class_reads.setdefault(find(rid), {}).update(d)
            new = 0
            # cheap quantifiers first: when the global cap is hit, the ones left out are the quadratic pairwise facts, not the defining ones
            plan = []
            for qi, q in enumerate(self.quants):
                cands = self.candidates(q, reads, apps, find, class_reads)
                if any(not c for c in cands):
                    continue
                lists = [list(c.values()) for c in cands]
                total = 1
                for l in lists:
                    total *= len(l)
                plan.append((total, qi, q, lists))
                for l in lists:
                    for t in l:
                        first_seen.setdefault(t.get_id(), rnd)
            plan.sort(key=lambda x: (x[0], x[1]))
            for total, qi, q, lists in plan:
                nv = q.num_vars()
                if total > MAX_INST_PER_Q:
                    # too many combinations: half of the budget goes to the syntactically smallest candidates, half to the newest ones
                    # (a chain of dependent facts needs the terms produced by the previous round, which are the largest)
                    per = max(2, int(MAX_INST_PER_Q ** (1.0 / nv)))
                    short = []
                    for l in lists:
                        by_size = sorted(l, key=lambda t: len(str(t)))
                        keep = by_size[:(per + 1) // 2]
                        ids = set(t.get_id() for t in keep)
                        newest = sorted((t for t in l if t.get_id() not in ids), key=lambda t: (-first_seen.get(t.get_id(), 0), len(str(t))))
                        keep += newest[:per - len(keep)]
                        short.append(keep)
                    lists = short
                for combo in itertools.product(*lists):
                    key = (q.get_id(),) + tuple(t.get_id() for t in combo)
                    if key in instances:
                        continue
                    # z3 de Bruijn: var index 0 is the LAST bound variable
                    inst = z3.substitute_vars(q.body(), *combo)
                    instances[key] = inst
                    new += 1
                    if len(instances) > MAX_TOTAL:
                        break
                if len(instances) > MAX_TOTAL:
                    break
            s = z3.Solver()
            s.set('timeout', timeout_ms)
            s.set('random_seed', 0)
            s.add(forms)
            s.add(list(instances.values()))
            r = s.check()
            self.n_inst = len(instances)
            if r == z3.unsat:
                return 'unsat', None
            if new == 0 or len(instances) > MAX_TOTAL:
                break
        try:
            m = s.model() if r == z3.sat else None
        except Exception:
            m = None
        self.small = None
        if m is not None:
            try:
                self.small = small_model(s, forms + list(instances.values()))
            except Exception:
                self.small = None
        return ('sat' if r == z3.sat else 'unknown'), m


def small_model(s, forms):
    """A candidate counter-model with SHORT lists (every list length <= 6, small values preferred), written out as plain data:
    {'arrays': {base: [ints]}, 'ints': {base: int}, 'bools': {base: bool}} keyed by the program-variable base names (x.len!3 -> 'x').
    Only a candidate: it satisfies the instantiated hypotheses, not necessarily the quantified ones; it is replayed on the real code."""
    lens, arrs, ints, bools = {}, {}, {}, {}
    for f in forms:
        for t in subterms(f, lambda x: z3.is_const(x) and x.decl().kind() == z3.Z3_OP_UNINTERPRETED, under_q=True):
            nm = t.decl().name()
            m1 = _LEN.match(nm)
            if m1 and z3.is_int(t):
                lens[(m1.group(1), int(m1.group(2)))] = t
            m2 = _LEAF.match(nm)
            if m2 and z3.is_array(t) and m2.group(2) == '0':
                arrs[(m2.group(1), int(m2.group(3)))] = t
            m3 = _re.match(r'^([A-Za-z_][\w\.]*)!(\d+)$', nm)
            if m3 and not m1 and not m2 and '.' not in m3.group(1):
                if z3.is_int(t):
                    ints[m3.group(1)] = t
                elif z3.is_bool(t):
                    bools[m3.group(1)] = t
    s.push()
    try:
        s.set('timeout', 3000)
        for t in lens.values():
            s.add(t <= 6)
        for t in ints.values():
            s.add(t >= -8, t <= 40)
        if s.check() != z3.sat:
            s.pop()
            s.push()
            for t in lens.values():
                s.add(t <= 6)
            if s.check() != z3.sat:
                return None
        m = s.model()
        out = {'arrays': {}, 'ints': {}, 'bools': {}}
        for (base, k), t in lens.items():
            a = arrs.get((base, k + 1))
            n = m.eval(t, model_completion=True)
            if a is None or not z3.is_int_value(n):
                continue
            n = n.as_long()
            if n < 0 or n > 6 or a.sort().range() != z3.IntSort():
                continue
            vals = [m.eval(a[i], model_completion=True) for i in range(n)]
            if all(z3.is_int_value(v) for v in vals):
                out['arrays'].setdefault(base, [v.as_long() for v in vals])
        for base, t in ints.items():
            v = m.eval(t, model_completion=True)
            if z3.is_int_value(v):
                out['ints'].setdefault(base, v.as_long())
        for base, t in bools.items():
            v = m.eval(t, model_completion=True)
            out['bools'].setdefault(base, z3.is_true(v))
        return out
    finally:
        s.pop()


def nnf_skolem(formulas):
    g = z3.Goal()
    g.add(formulas)
    t = z3.Then(z3.With('simplify', elim_and=False, som=False), z3.With('nnf', sk_hack=False))
    res = t(g)
    out = []
    for sub in res:
        out.extend(list(sub))
    return out


def symbols_of(f, cache={}):
    k = f.get_id()
    hit = cache.get(k)
    if hit is not None and hit[0].eq(f):
        return hit[1]
    out = set()
    seen = set()
    stack = [f]
    while stack:
        x = stack.pop()
        i = x.get_id()
        if i in seen:
            continue
        seen.add(i)
        if z3.is_quantifier(x):
            stack.append(x.body())
            continue
        if z3.is_app(x):
            if x.decl().kind() == z3.Z3_OP_UNINTERPRETED:
                out.add(x.decl().name())
            stack.extend(x.children())
    cache[k] = (f, out)
    return out


def relevant(hyps, goal, depth):
    """hypotheses connected to the goal through at most `depth` shared-symbol steps (a subset: proving from it is sound)"""
    syms = set(symbols_of(goal))
    chosen = [False] * len(hyps)
    hs = [symbols_of(h) for h in hyps]
    for _ in range(depth):
        new = set()
        for i, h in enumerate(hyps):
            if not chosen[i] and (hs[i] & syms or not hs[i]):
                chosen[i] = True
                new |= hs[i]
        if not new - syms:
            break
        syms |= new
    return [h for i, h in enumerate(hyps) if chosen[i]]


TRACE = bool(os.environ.get('PYVC_TRACE'))


def prove(hyps, goal, timeout_ms=10000, rounds=5, want_model=False, fallbacks=True, focus=None):
    """1. deterministic instantiation over all hypotheses; 2. the same over only the hypotheses near the goal (any subset is sound),
    with index-like skolem constants as extra candidates; 3. all hypotheses with those candidates; 4. z3 quantifiers; 5. cvc5."""
    t0 = time.time()
    forms = list(hyps) + [z3.Not(goal)]
    if not any(has_quant(f) for f in forms):
        return _prove(hyps, goal, timeout_ms, rounds, want_model, fallbacks)
    first = None
    if len(hyps) <= 24 and not focus:
        # small obligations: the plain all-hypotheses pass is the cheapest thing to try
        first = _prove(hyps, goal, timeout_ms, 3, want_model, False)
        if TRACE:
            print('   stage first(small)', len(hyps), first['status'], first.get('n_inst'), round(time.time() - t0, 1), flush=True)
        if first['status'] == 'proved' or not fallbacks:
            return first
    # goal-directed stage: only instances built from the negated goal's own skolem constants (and what the instances derive from them);
    # kills the quadratic noise of pairwise facts over unrelated terms.  Any set of instances is sound.
    try:
        ng = nnf_skolem([z3.Not(goal)])
        gnames = set()
        for f_ in ng:
            gnames |= set(n_ for n_ in symbols_of(f_) if '!' in n_)
        gnames -= set(n_ for n_ in symbols_of(goal))
        for h_ in hyps:
            gnames -= symbols_of(h_)
        if gnames:
            base_h = [(hyps[i] if isinstance(i, int) else i) for i in focus if not isinstance(i, int) or i < len(hyps)] if focus else list(hyps)
            inst = Inst(nnf_skolem(base_h) + ng, rounds=8, must_contain=gnames)
            r, _ = inst.run(min(timeout_ms, 6000))
            if TRACE:
                print('   stage goal-directed', len(base_h), sorted(gnames)[:4], r, inst.n_inst, round(time.time() - t0, 1), flush=True)
            if r == 'unsat':
                return {'status': 'proved', 'backend': 'inst+z3-qf(goal-directed)', 'secs': time.time() - t0, 'n_inst': inst.n_inst, 'model': None}
    except Exception:
        if TRACE:
            import traceback
            traceback.print_exc()
    if focus:
        # the contract names the facts this obligation follows from (`using`): that subset first (sound: a subset of the hypotheses)
        subf = [(hyps[i] if isinstance(i, int) else i) for i in focus if not isinstance(i, int) or i < len(hyps)]
        for uidx in (False, True):
            try:
                inst = Inst(nnf_skolem(subf + [z3.Not(goal)]), rounds=rounds, use_idx=uidx)
                r, _ = inst.run(min(timeout_ms, 6000))
                if TRACE:
                    print('   stage using', len(subf), uidx, r, inst.n_inst, flush=True)
                if r == 'unsat':
                    return {'status': 'proved', 'backend': 'inst+z3-qf(using)', 'secs': time.time() - t0, 'n_inst': inst.n_inst, 'model': None}
            except Exception:
                break
        qs = z3.Solver()            # the native quantifier engine on the small named subset
        qs.set('timeout', min(timeout_ms, 8000))
        qs.set('random_seed', 0)
        qs.add(subf)
        qs.add(z3.Not(goal))
        rq = qs.check()
        if TRACE:
            print('   stage z3(using)', len(subf), rq, round(time.time() - t0, 1), flush=True)
        if rq == z3.unsat:
            return {'status': 'proved', 'backend': 'z3-quant(using)', 'secs': time.time() - t0, 'n_inst': 0, 'model': None}
    if first is None:
        first = _prove(hyps, goal, timeout_ms, 3, want_model, False)
        if TRACE:
            print('   stage first', len(hyps), first['status'], first.get('n_inst'), round(time.time() - t0, 1), flush=True)
    if first['status'] == 'proved' or not fallbacks:
        return first
    # quick shot of z3's own quantifier engine (many obligations fall to it within a second)
    qs = z3.Solver()
    qs.set('timeout', 2500)
    qs.set('random_seed', 0)
    qs.add(forms)
    if qs.check() == z3.unsat:
        return {'status': 'proved', 'backend': 'z3-quant', 'secs': time.time() - t0, 'n_inst': first.get('n_inst', 0), 'model': None}
    if len(hyps) > 8:
        # locality: the most recent hypotheses (facts of the last few statements) are tried first, then symbol-relevance closures
        subsets = []
        for depth in (1, 2):
            # cheapest first: near hypotheses, plain triggers only (no index-constant candidates)
            subsets.append(('relevance %d, plain' % depth, relevant(hyps, goal, depth), False))
        subsets += [('recent %d' % k, list(hyps[-k:]), True) for k in (6, 12, 24) if k < len(hyps)]
        for depth in (1, 2, 3):
            sub = relevant(hyps, goal, depth)
            if len(sub) < len(hyps):
                subsets.append(('relevance %d' % depth, sub, True))
        for tag, sub, uidx in subsets:
            depth = tag
            if time.time() - t0 > 4 * timeout_ms / 1000.0:
                break       # overall budget: an obligation that resists this long goes to the native engines and is reported as it stands
            try:
                inst = Inst(nnf_skolem(list(sub) + [z3.Not(goal)]), rounds=rounds, use_idx=uidx)
                ts = time.time()
                r, _ = inst.run(min(timeout_ms, 4000))
                if TRACE:
                    print('   stage', tag, len(sub), r, inst.n_inst, round(time.time() - ts, 1), flush=True)
                if r == 'unsat':
                    return {'status': 'proved', 'backend': 'inst+z3-qf(%s)' % depth, 'secs': time.time() - t0, 'n_inst': inst.n_inst, 'model': None}
            except Exception:
                break
    res = _prove(hyps, goal, timeout_ms, rounds, want_model, True, use_idx=True)
    res['secs'] = time.time() - t0
    if res['status'] != 'proved' and first.get('model') and not res.get('model'):
        res['model'] = first['model']
    return res


def _prove(hyps, goal, timeout_ms=10000, rounds=5, want_model=False, fallbacks=True, use_idx=False):
    """Returns dict(status='proved'|'failed'|'unknown', backend, secs, n_inst, model)."""
    t0 = time.time()
    neg = z3.Not(goal)
    forms = list(hyps) + [neg]
    qf = not any(has_quant(f) for f in forms)
    if qf:
        s = z3.Solver()
        s.set('timeout', timeout_ms)
        s.set('random_seed', 0)
        s.add(forms)
        r = s.check()
        st = {'unsat': 'proved', 'sat': 'failed'}.get(str(r), 'unknown')
        mtxt = None
        if r == z3.sat:
            mtxt = str(s.model())
            try:
                sm = small_model(s, forms)
                if sm:
                    import json as _json
                    mtxt = mtxt[:4000] + '\n#PYVC-SMALL ' + _json.dumps(sm)
            except Exception:
                pass
        return {'status': st, 'backend': 'z3-qf', 'secs': time.time() - t0, 'n_inst': 0, 'model': mtxt}
    model = None
    inst_verdict = None
    try:
        nf = nnf_skolem(forms)
        inst = Inst(nf, rounds=rounds, use_idx=use_idx)
        r, m = inst.run(timeout_ms)
        n_inst = inst.n_inst
        if r == 'unsat':
            return {'status': 'proved', 'backend': 'inst+z3-qf', 'secs': time.time() - t0, 'n_inst': n_inst, 'model': None}
        inst_verdict = r
        if m is not None:
            model = str(m)
            if getattr(inst, 'small', None):
                import json as _json
                model = model[:4000] + '\n#PYVC-SMALL ' + _json.dumps(inst.small)
    except Exception as e:  # normalisation outside the fragment: fall through to the native engines
        n_inst = -1
        model = 'instantiation-not-applicable: %s' % e
    if not fallbacks:
        return {'status': 'failed' if inst_verdict == 'sat' else 'unknown', 'backend': 'none', 'secs': time.time() - t0, 'n_inst': n_inst, 'model': model}
    # fall-back 1: z3's own quantifier engine
    fb = timeout_ms
    s = z3.Solver()
    s.set('timeout', fb)
    s.set('random_seed', 0)
    s.add(forms)
    r = s.check()
    if r == z3.unsat:
        return {'status': 'proved', 'backend': 'z3-quant', 'secs': time.time() - t0, 'n_inst': n_inst, 'model': None}
    # fall-back 2: cvc5
    r2 = cvc5_check(s.to_smt2(), fb)
    if r2 == 'unsat':
        return {'status': 'proved', 'backend': 'cvc5', 'secs': time.time() - t0, 'n_inst': n_inst, 'model': None}
    # 'failed' = not proved with a candidate model: the saturated instance set is satisfiable (never a verdict by itself:
    # the driver replays / searches before reporting).  Solver timeouts stay 'unknown'.
    reason = ''
    try:
        reason = s.reason_unknown() if r == z3.unknown else ''
    except Exception:
        pass
    gave_up = r == z3.unknown and not any(w in reason for w in ('timeout', 'canceled', 'max.', 'resource', 'interrupted'))
    return {'status': 'failed' if (r == z3.sat or (inst_verdict == 'sat' and gave_up)) else 'unknown', 'backend': 'none', 'reason_unknown': reason, 'secs': time.time() - t0, 'n_inst': n_inst,
            'model': model}


def cvc5_check(smt2, timeout_ms):
    exe = '/usr/bin/cvc5'
    if not os.path.exists(exe):
        return 'unknown'
    with tempfile.NamedTemporaryFile('w', suffix='.smt2', delete=False) as f:
        f.write('(set-logic ALL)\n' + smt2)
        p = f.name
    try:
        out = subprocess.run([exe, '--tlimit=%d' % timeout_ms, '--enum-inst', p], capture_output=True, text=True, timeout=timeout_ms / 1000 + 5)
        first = out.stdout.strip().split('\n')[0] if out.stdout.strip() else 'unknown'
        return first if first in ('sat', 'unsat') else 'unknown'
    except Exception:
        return 'unknown'
    finally:
        os.unlink(p)


def satisfiable(hyps, timeout_ms=5000):
    """Vacuity guard: hypotheses must not be contradictory.  Returns 'sat' | 'unsat' | 'unknown'.
    Uses the same instantiation engine: if it can derive False from the hypotheses the contract is vacuous."""
    r = prove(hyps, z3.BoolVal(False), timeout_ms=timeout_ms, rounds=2)
    return 'unsat' if r['status'] == 'proved' else 'sat-or-unknown'


# ---------------------------------------------------------------------------------------------------
# worker interface (process pool): obligations travel as SMT-LIB text
# ---------------------------------------------------------------------------------------------------

COVER_MARK = '__pyvc_cover_marker__'


def ob_to_smt2(hyps, goal):
    """SMT-LIB text with ONE assertion per hypothesis, in order, and the negated goal (or, for a cover, a marker constant) last.
    (z3.Solver.add flattens conjunctions and drops `true`, which would shift the positions the `using` subsets refer to and,
    for covers, made the reader drop a literal `false` hypothesis instead of the trailing marker.)"""
    last = z3.Not(goal) if goal is not None else z3.Bool(COVER_MARK)
    hs = list(hyps)
    ctx = z3.main_ctx()
    arr = (z3.Ast * len(hs))()
    for i, h in enumerate(hs):
        arr[i] = h.as_ast()
    return z3.Z3_benchmark_to_smtlib_string(ctx.ref(), 'pyvc', '', 'unknown', '', len(hs), arr, last.as_ast())


def work(item):
    name, smt2, is_cover, timeout_ms = item[:4]
    focus = item[4] if len(item) > 4 else None
    z3.set_param('smt.random_seed', 0)
    try:
        fs = list(z3.parse_smt2_string(smt2))
        if is_cover:
            hyps = [f for f in fs if not (z3.is_const(f) and f.decl().name() == COVER_MARK)]
            r = prove(hyps, z3.BoolVal(False), timeout_ms=min(timeout_ms, 5000), rounds=2, fallbacks=False)
            # cover succeeds when False is NOT derivable
            return name, {'status': 'cover-ok' if r['status'] != 'proved' else 'vacuous', 'backend': r['backend'], 'secs': r['secs'], 'n_inst': r['n_inst'], 'model': None}
        hyps, neg = fs[:-1], fs[-1]
        goal = neg.children()[0] if z3.is_not(neg) else z3.Not(neg)
        if isinstance(focus, str):
            focus = list(z3.parse_smt2_string(focus))[:-1]        # the named subset, as formulas
        return name, prove(hyps, goal, timeout_ms=timeout_ms, focus=focus)
    except Exception as e:
        import traceback
        return name, {'status': 'error', 'backend': 'none', 'secs': 0, 'n_inst': 0, 'model': traceback.format_exc()[-800:]}
