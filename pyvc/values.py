"""Symbolic values, type descriptors and the heap of the pyvc executor (DESIGN 2.3/2.4/2.14)."""
import z3

Elem = z3.DeclareSort('Elem')
NONE_ELEM = z3.Const('NoneElem', Elem)

STR_ELEMS = {}


def str_elem(text):
    if text not in STR_ELEMS:
        STR_ELEMS[text] = z3.Const('str:' + text, Elem)
    return STR_ELEMS[text]


def str_distinct():
    cs = list(STR_ELEMS.values()) + [NONE_ELEM]
    if len(cs) < 2:
        return None
    emp = z3.Function('is_empty', Elem, z3.BoolSort())
    return z3.And([z3.Distinct(cs)] + [emp(c) == z3.BoolVal(t == '') for t, c in STR_ELEMS.items()])


_ctr = [0]


def fresh_name(base):
    _ctr[0] += 1
    return '%s!%d' % (base, _ctr[0])


def reset_names():
    _ctr[0] = 0


class V:
    pass


class VInt(V):
    def __init__(self, t):
        self.t = t if z3.is_expr(t) else z3.IntVal(t)

    def __repr__(self):
        return 'VInt(%s)' % self.t


class VBool(V):
    def __init__(self, t):
        self.t = t if z3.is_expr(t) else z3.BoolVal(bool(t))

    def __repr__(self):
        return 'VBool(%s)' % self.t


class VReal(V):
    def __init__(self, t):
        self.t = t if z3.is_expr(t) else z3.RealVal(t)

    def __repr__(self):
        return 'VReal(%s)' % self.t


class VNone(V):
    def __repr__(self):
        return 'VNone'


class VStr(V):
    def __init__(self, s):
        self.s = s

    def __repr__(self):
        return 'VStr(%r)' % self.s


class VElem(V):
    """Opaque object of sort Elem (identity only).  NONE_ELEM stands for Python None inside containers.
    `kind` optionally names its Python type for isinstance tests ('ndarray', 'int', ...)."""
    def __init__(self, t, kind=None):
        self.t = t
        self.kind = kind

    def __repr__(self):
        return 'VElem(%s)' % self.t


class VDunder(V):
    """The string '__%s__' % op for a symbolic operator name op."""
    def __init__(self, op):
        self.op = op


class VTuple(V):
    def __init__(self, items):
        self.items = list(items)

    def __repr__(self):
        return 'VTuple(%r)' % (self.items,)


class VSlice(V):
    def __init__(self, start, stop, step):
        self.start, self.stop, self.step = start, stop, step

    def __repr__(self):
        return 'VSlice(%r,%r,%r)' % (self.start, self.stop, self.step)


class VList(V):
    def __init__(self, ref, nd=False, width=None):
        self.ref = ref
        self.nd = nd      # True: 1-D numpy array semantics for arithmetic (elementwise), otherwise a Python list
        self.width = width  # for a block of opaque rows: number of columns (z3 Int) when known

    def __repr__(self):
        return 'VList(#%d)' % self.ref


class VBlocks(V):
    """A Python list of row-blocks whose only consumer is np.vstack / np.concatenate: represented by its flattening
    (a list value) and the number of blocks appended."""
    def __init__(self, ref):
        self.ref = ref        # heap object with fields 'flat' (VList) and 'count' (VInt)


class VRag(V):
    """A Python list of 1-D arrays (one per probe / file): count, per-row lengths and per-row content (nested z3 arrays)."""
    def __init__(self, ref):
        self.ref = ref


class VAssoc(V):
    """A dict with integer keys and 1-D array values in insertion order: keys (a list value) + values (a list of arrays), same count;
    the keys are pairwise distinct (obligation wherever the dict is built or extended)."""
    def __init__(self, keys, vals, is_dict=True):
        self.keys = keys      # VList of int
        self.vals = vals      # VRag
        self.is_dict = is_dict   # False: a plain list of (int, array) pairs (keys may repeat; append only)


class VRagItems(V):
    """dict.items() of an int-keyed dict of lists modelled as a list of arrays: pairs (key, row)"""
    def __init__(self, rag):
        self.rag = rag


class RagCell:
    __slots__ = ('etype', 'count', 'lens', 'data')

    def __init__(self, etype, count, lens, data):
        self.etype, self.count, self.lens, self.data = etype, count, lens, data


class VRange(V):
    def __init__(self, start, stop, step):
        self.start, self.stop, self.step = start, stop, step


class VObj(V):
    def __init__(self, ref, cls):
        self.ref, self.cls = ref, cls

    def __repr__(self):
        return 'VObj(#%d:%s)' % (self.ref, self.cls)


class VRec(V):
    """Record with named fields (models **kwargs dictionaries whose looked-up keys are known)."""
    def __init__(self, fields):
        self.fields = dict(fields)


class VFunc(V):
    def __init__(self, kind, name, self_val=None, extra=None):
        self.kind, self.name, self.self_val, self.extra = kind, name, self_val, extra

    def __repr__(self):
        return 'VFunc(%s:%s)' % (self.kind, self.name)


class VType(V):
    def __init__(self, names):
        self.names = tuple(names)


class VModule(V):
    def __init__(self, name):
        self.name = name


class VGen(V):
    """Result of calling a contracted generator / an iterable described by a list value."""
    def __init__(self, lst):
        self.lst = lst


# ---------------------------------------------------------------------------------------------
# type descriptors: 'int' 'bool' 'real' 'elem' 'none' 'str' ('list', T) ('tuple', [T..]) ('slice', a, b, c)
# ('rec', {name: T}) ('obj', cls) ('opt', T)
# ---------------------------------------------------------------------------------------------

def parse_type(s):
    s = s.strip()
    pos = [0]

    def ident():
        i = pos[0]
        while pos[0] < len(s) and (s[pos[0]].isalnum() or s[pos[0]] in '_.'):
            pos[0] += 1
        return s[i:pos[0]]

    def skip():
        while pos[0] < len(s) and s[pos[0]] == ' ':
            pos[0] += 1

    def args():
        out = []
        assert s[pos[0]] == '['
        pos[0] += 1
        while True:
            skip()
            out.append(typ())
            skip()
            if s[pos[0]] == ',':
                pos[0] += 1
                continue
            assert s[pos[0]] == ']', s
            pos[0] += 1
            return out

    def typ():
        skip()
        name = ident()
        skip()
        if name in ('int', 'bool', 'real', 'elem', 'none', 'str'):
            return name
        if name == 'list':
            return ('list', args()[0])
        if name == 'arr':
            return ('arr', args()[0])
        if name == 'blocks':
            return ('blocks', args()[0])
        if name == 'rag':
            return ('rag', args()[0])
        if name in ('assoc', 'pairs', 'block'):
            return (name, args()[0])
        if name in ('mat', 'flatmat', 'cube'):
            return (name, args()[0])
        if name == 'tuple':
            return ('tuple', args())
        if name == 'opt':
            return ('opt', args()[0])
        if name == 'slice':
            if pos[0] < len(s) and s[pos[0]] == '[':
                a = args()
                return ('slice', a[0], a[1], a[2])
            return ('slice', 'int', 'int', 'int')
        if name == 'rec':
            assert s[pos[0]] == '['
            pos[0] += 1
            fields = {}
            while True:
                skip()
                fn = ident()
                skip()
                assert s[pos[0]] == ':'
                pos[0] += 1
                fields[fn] = typ()
                skip()
                if s[pos[0]] == ',':
                    pos[0] += 1
                    continue
                assert s[pos[0]] == ']'
                pos[0] += 1
                return ('rec', fields)
        if name == 'obj':
            a = None
            if pos[0] < len(s) and s[pos[0]] == '[':
                pos[0] += 1
                a = ident()
                assert s[pos[0]] == ']'
                pos[0] += 1
            return ('obj', a)
        raise ValueError('bad type %r in %r' % (name, s))

    t = typ()
    skip()
    assert pos[0] == len(s), 'trailing text in type %r' % s
    return t


def expand_opts(t):
    """All opt-free instances of a type descriptor (opt[T] -> T | none)."""
    if isinstance(t, str):
        return [t]
    k = t[0]
    if k == 'opt':
        return expand_opts(t[1]) + ['none']
    if k in ('list', 'arr'):
        return [(k, x) for x in expand_opts(t[1])]
    if k == 'tuple':
        outs = [[]]
        for sub in t[1]:
            outs = [o + [x] for o in outs for x in expand_opts(sub)]
        return [('tuple', o) for o in outs]
    if k == 'slice':
        return [('slice', a, b, c) for a in expand_opts(t[1]) for b in expand_opts(t[2]) for c in expand_opts(t[3])]
    if k == 'rec':
        names = sorted(t[1])
        outs = [{}]
        for n in names:
            outs = [dict(o, **{n: x}) for o in outs for x in expand_opts(t[1][n])]
        return [('rec', o) for o in outs]
    return [t]


def type_str(t):
    if isinstance(t, str):
        return t
    k = t[0]
    if k in ('list', 'arr'):
        return '%s[%s]' % (k, type_str(t[1]))
    if k == 'tuple':
        return 'tuple[%s]' % ','.join(type_str(x) for x in t[1])
    if k == 'slice':
        return 'slice[%s,%s,%s]' % tuple(type_str(x) for x in t[1:])
    if k == 'rec':
        return 'rec[%s]' % ','.join('%s:%s' % (n, type_str(x)) for n, x in sorted(t[1].items()))
    if k == 'obj':
        return 'obj[%s]' % t[1]
    return str(t)


def leaf_sorts(et):
    """Flat list of z3 sorts used to store one element of type `et` in parallel arrays."""
    if et == 'int':
        return [z3.IntSort()]
    if et == 'bool':
        return [z3.BoolSort()]
    if et == 'real':
        return [z3.RealSort()]
    if et == 'elem':
        return [Elem]
    if et == 'none':
        return []
    k = et[0]
    if k == 'tuple':
        return [s for sub in et[1] for s in leaf_sorts(sub)]
    if k == 'slice':
        return [s for sub in et[1:] for s in leaf_sorts(sub)]
    if k == 'rec':
        return [s for n in sorted(et[1]) for s in leaf_sorts(et[1][n])]
    raise ValueError('unsupported element type %r' % (et,))


def build(et, leaves):
    """Value of element type `et` from an iterator of leaf terms."""
    if et == 'int':
        return VInt(next(leaves))
    if et == 'bool':
        return VBool(next(leaves))
    if et == 'real':
        return VReal(next(leaves))
    if et == 'elem':
        return VElem(next(leaves))
    if et == 'none':
        return VNone()
    k = et[0]
    if k == 'tuple':
        return VTuple([build(sub, leaves) for sub in et[1]])
    if k == 'slice':
        return VSlice(*[build(sub, leaves) for sub in et[1:]])
    if k == 'rec':
        return VRec({n: build(et[1][n], leaves) for n in sorted(et[1])})
    raise ValueError(et)


class TypeMismatch(Exception):
    pass


def flatten(et, v):
    if et == 'int':
        if isinstance(v, VBool):
            return [z3.If(v.t, z3.IntVal(1), z3.IntVal(0))]
        if not isinstance(v, VInt):
            raise TypeMismatch('expected int, got %r' % (v,))
        return [v.t]
    if et == 'bool':
        if not isinstance(v, VBool):
            raise TypeMismatch('expected bool, got %r' % (v,))
        return [v.t]
    if et == 'real':
        if isinstance(v, VInt):
            return [z3.ToReal(v.t)]
        if not isinstance(v, VReal):
            raise TypeMismatch('expected real, got %r' % (v,))
        return [v.t]
    if et == 'elem':
        if isinstance(v, VNone):
            return [NONE_ELEM]
        if isinstance(v, VStr):
            return [str_elem(v.s)]
        if not isinstance(v, VElem):
            raise TypeMismatch('expected elem, got %r' % (v,))
        return [v.t]
    if et == 'none':
        if not isinstance(v, VNone):
            raise TypeMismatch('expected None, got %r' % (v,))
        return []
    k = et[0]
    if k == 'tuple':
        if not isinstance(v, VTuple) or len(v.items) != len(et[1]):
            raise TypeMismatch('expected %s, got %r' % (type_str(et), v))
        return [x for sub, it in zip(et[1], v.items) for x in flatten(sub, it)]
    if k == 'slice':
        if not isinstance(v, VSlice):
            raise TypeMismatch('expected slice, got %r' % (v,))
        return [x for sub, it in zip(et[1:], (v.start, v.stop, v.step)) for x in flatten(sub, it)]
    if k == 'rec':
        if not isinstance(v, VRec):
            raise TypeMismatch('expected rec, got %r' % (v,))
        return [x for n in sorted(et[1]) for x in flatten(et[1][n], v.fields[n])]
    raise ValueError(et)


def infer_etype(v):
    if isinstance(v, VInt):
        return 'int'
    if isinstance(v, VBool):
        return 'bool'
    if isinstance(v, VReal):
        return 'real'
    if isinstance(v, (VElem, VStr)):
        return 'elem'
    if isinstance(v, VNone):
        return 'none'
    if isinstance(v, VTuple):
        return ('tuple', [infer_etype(x) for x in v.items])
    if isinstance(v, VSlice):
        return ('slice', infer_etype(v.start), infer_etype(v.stop), infer_etype(v.step))
    if isinstance(v, VRec):
        return ('rec', {n: infer_etype(x) for n, x in v.fields.items()})
    raise TypeMismatch('cannot store %r in a list' % (v,))


class ListCell:
    __slots__ = ('etype', 'length', 'leaves')

    def __init__(self, etype, length, leaves):
        self.etype, self.length, self.leaves = etype, length, list(leaves)


class Heap:
    def __init__(self):
        self.lists = {}
        self.objs = {}
        self.rags = {}
        self.origin_src = {}  # list ref -> ref of the list it is a selection of
        self.origins = {}     # list ref -> z3 array: position -> index in the list it was selected from (filter comprehensions, their concatenations)
        self.next_ref = [1]

    def copy(self):
        h = Heap.__new__(Heap)
        h.lists = dict(self.lists)
        h.rags = dict(getattr(self, 'rags', {}))
        h.origins = dict(getattr(self, 'origins', {}))
        h.origin_src = dict(getattr(self, 'origin_src', {}))
        h.objs = {k: dict(v) for k, v in self.objs.items()}
        h.next_ref = self.next_ref  # shared counter: refs stay globally unique
        return h

    def new_ref(self):
        r = self.next_ref[0]
        self.next_ref[0] += 1
        return r

    def alloc_list(self, etype, length, leaves):
        r = self.new_ref()
        self.lists[r] = ListCell(etype, length, leaves)
        return VList(r)

    def fresh_list(self, etype, base):
        n = z3.Int(fresh_name(base + '.len'))
        leaves = [z3.Array(fresh_name('%s.a%d' % (base, i)), z3.IntSort(), s) for i, s in enumerate(leaf_sorts(etype))]
        return self.alloc_list(etype, n, leaves), n

    def fresh_rag(self, etype, base):
        r = self.new_ref()
        srt = {'int': z3.IntSort(), 'real': z3.RealSort(), 'bool': z3.BoolSort(), 'elem': Elem}[etype]
        k = z3.Int(fresh_name(base + '.count'))
        lens = z3.Array(fresh_name(base + '.lens'), z3.IntSort(), z3.IntSort())
        data = z3.Array(fresh_name(base + '.rows'), z3.IntSort(), z3.ArraySort(z3.IntSort(), srt))
        self.rags[r] = RagCell(etype, k, lens, data)
        return VRag(r), k, lens

    def alloc_obj(self, cls, fields):
        r = self.new_ref()
        self.objs[r] = dict(fields)
        return VObj(r, cls)
