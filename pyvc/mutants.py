"""Mutant self-test of the verifier (DESIGN 2.9): small property-breaking edits applied to a scratch copy of the
source (outside /repo and /verif, deleted immediately) must each fail a named obligation; negative controls
(property-preserving edits) must still verify.  A survivor / a failing control is a checker-quality alarm (exit 3)."""
import os, sys, shutil, tempfile, importlib, json
from . import front, values


def run_catalogue(prop, only=None, verbose=True, jobs=4):
    """runs the catalogue entries of one property, `jobs` at a time (each in its own process with its own scratch copy)"""
    cat = importlib.import_module('contracts.mutants').CATALOGUE
    items = [m for m in cat if m['prop'] == prop and (only is None or m['id'] in only)]
    if jobs <= 1 or len(items) <= 1:
        return _run_items(prop, items, verbose)
    import subprocess
    from concurrent.futures import ThreadPoolExecutor
    verif = os.path.dirname(os.path.dirname(os.path.abspath(__file__)))

    def one(m):
        env = dict(os.environ, VERIF_REPO=front.REPO, PYVC_MUT_JOBS='1')
        r = subprocess.run([sys.executable, '-m', 'pyvc.mutants', prop, m['id']], capture_output=True, text=True, cwd=verif, env=env)
        for line in r.stdout.splitlines():
            if line.startswith('{'):
                try:
                    return json.loads(line)
                except ValueError:
                    pass
        return {'id': m['id'], 'status': 'WRONG', 'failed_obligations': [], 'problems': ['mutant run crashed: ' + (r.stderr or r.stdout)[-400:]], 'fallbacks': []}
    with ThreadPoolExecutor(min(jobs, len(items))) as ex:
        return list(ex.map(one, items))


def _run_items(prop, items, verbose=True):
    from . import check
    results = []
    orig_repo = front.REPO
    for m in items:
        src = os.path.join(orig_repo, m['file'])
        text = open(src).read()
        if text.count(m['old']) != 1:
            results.append({'id': m['id'], 'status': 'skipped (patch does not apply uniquely)'})
            continue
        d = tempfile.mkdtemp(prefix='pyvc_mut_')
        try:
            shutil.copytree(os.path.join(orig_repo, 'phylib'), os.path.join(d, 'phylib'))
            with open(os.path.join(d, m['file']), 'w') as f:
                f.write(text.replace(m['old'], m['new']))
            front.REPO = d
            front._cache.clear()
            ck = check.Checker(prop, 'quick', 0)
            ck.no_retry = True
            ck.generate()
            ck.effects()
            ck.discharge()
            failed = []
            groups = {}
            for ob in ck.obs:
                groups.setdefault(ob.name, []).append(ob)
            for name, obs in groups.items():
                if obs[0].kind == 'cover':
                    continue
                if not all(ck.results[o.uid]['status'] == 'proved' for o in obs):
                    failed.append(name)
            expect_fail = m.get('expect', 'fail') == 'fail'
            if not expect_fail:
                # an undecided obligation of a function whose text is the baseline text is solver noise here (this harness runs without the
                # check's retry on unchanged functions): it does not count against a negative control
                failed = [n for n in failed if ck.function_changed(groups[n][0].func) or any(ck.results[o.uid]['status'] == 'failed' for o in groups[n])]
            base_fb = getattr(run_catalogue, '_base_fb', None)
            ok = bool(failed) == expect_fail and not ck.problems
            new_fb = [f['function'] for f in ck.fallbacks]
            if expect_fail and not failed and new_fb:
                ok = None     # the edit pushed the function outside the supported subset: proof lost, bounded stand-in is the backstop
            detached = set(f['function'] for f in ck.functions if f.get('hints_not_attached'))
            if not expect_fail and failed and not ck.problems and all(groups[n][0].func in detached for n in failed):
                ok = None     # a harmless edit detached the proof's stepping stones: the check reports a fall-back to the bounded stand-in, not a violation
            results.append({'id': m['id'], 'expect': m.get('expect', 'fail'), 'failed_obligations': failed[:6], 'problems': ck.problems,
                            'fallbacks': [f['reason'] for f in ck.fallbacks], 'status': 'ok' if ok else ('fallback-only' if ok is None else 'WRONG')})
        finally:
            front.REPO = orig_repo
            front._cache.clear()
            shutil.rmtree(d, ignore_errors=True)
        if verbose and os.environ.get('PYVC_MUT_JOBS') == '1':
            print(json.dumps(results[-1]))
    return results


if __name__ == '__main__':
    sys.path.insert(0, os.path.dirname(os.path.dirname(os.path.abspath(__file__))))
    res = run_catalogue(sys.argv[1], set(sys.argv[2:]) or None, jobs=int(os.environ.get('PYVC_MUT_JOBS', '4')))
    if len(sys.argv) <= 2 or os.environ.get('PYVC_MUT_JOBS') != '1':
        for r in res:
            print(json.dumps(r)[:400])
    bad = [r for r in res if r['status'] == 'WRONG']
    print('%d mutants/controls, %d wrong' % (len(res), len(bad)))
    sys.exit(3 if bad else 0)
