"""Front end: locate the real function text under /repo on every run (no copy of repository code
lives in /verif), hash it, and apply the documented drop list (DESIGN 2.2)."""
import ast, hashlib, os

REPO = os.environ.get('VERIF_REPO', '/repo')

DROPPED = ("docstrings; comments/pragma markers; expression statements calling logger.* / logging.* / print; "
           "tqdm progress objects (constructor result opaque, update/close no-ops)")


class AttachError(Exception):
    """The contract cannot attach to the current source (function/loop missing): exit 3, not a violation."""


_cache = {}


def parse_module(relpath):
    path = os.path.join(REPO, relpath)
    key = (path, os.path.getmtime(path))
    if key not in _cache:
        src = open(path).read()
        _cache[key] = (src, ast.parse(src, filename=path))
    return _cache[key]


def find_function(relpath, qualname):
    """Returns (FunctionDef node, source segment, sha256, (lineno, end_lineno))."""
    try:
        src, tree = parse_module(relpath)
    except (OSError, SyntaxError) as e:
        raise AttachError('%s: %s' % (relpath, e))
    deco = None
    if '@' in qualname:
        qualname, deco = qualname.split('@')
    parts = qualname.split('.')
    body = tree.body
    node = None
    for i, p in enumerate(parts):
        node = None
        for n in body:
            if isinstance(n, (ast.FunctionDef, ast.ClassDef)) and n.name == p:
                if deco is not None and i == len(parts) - 1 and isinstance(n, ast.FunctionDef):
                    ds = [d.attr if isinstance(d, ast.Attribute) else getattr(d, 'id', '') for d in n.decorator_list]
                    if deco not in ds:
                        continue
                if node is None or deco is not None or not isinstance(n, ast.FunctionDef):
                    node = n
        if node is None:
            raise AttachError('%s::%s not found in current source' % (relpath, qualname))
        body = node.body
    if not isinstance(node, ast.FunctionDef):
        raise AttachError('%s::%s is not a function' % (relpath, qualname))
    seg = ast.get_source_segment(src, node) or ''
    return node, seg, hashlib.sha256(seg.encode()).hexdigest(), (node.lineno, node.end_lineno)


def class_bases(relpath, clsname):
    src, tree = parse_module(relpath)
    for n in tree.body:
        if isinstance(n, ast.ClassDef) and n.name == clsname:
            return [b.id for b in n.bases if isinstance(b, ast.Name)]
    return []


def is_dropped_stmt(stmt):
    """Statements removed before symbolic execution (assumption A-LOG: effect free, never raise)."""
    if isinstance(stmt, ast.Expr):
        v = stmt.value
        if isinstance(v, ast.Constant) and isinstance(v.value, str):
            return True  # docstring
        if isinstance(v, ast.Call):
            f = v.func
            if isinstance(f, ast.Attribute) and isinstance(f.value, ast.Name) and f.value.id in ('logger', 'logging'):
                return True
            if isinstance(f, ast.Name) and f.id == 'print':
                return True
    return False
