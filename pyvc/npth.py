"""Library theory for 1-D NumPy arrays (DESIGN 2.5): ASSUMED contracts, built into the executor because several of them need ghost
index maps.  Arrays are list values with nd=True; element sorts int / bool / real / elem.  Integer arithmetic is mathematical
(A-NOOVF) — dtype-sensitive places are handled by explicit obligations in the contracts that need them.
Every function used is recorded in `assumed_used` and conformance-tested on the concrete side (concrete/conformance.py)."""
import ast
import z3
from .values import *  # noqa
from .state import Unsupported
from .expr import I, as_int, as_real, is_num, const_int, zmin, zmax


def _arr(v):
    return isinstance(v, VList) and v.nd


class NumpyTheory:

    def used(self, name):
        self.assumed_used.add('<numpy>::' + name)

    # ---- helpers ---------------------------------------------------------------------------------
    def acell(self, v, st):
        return st.heap.lists[v.ref]

    def new_arr(self, st, et, n, base='np', width=None):
        res, ln = st.heap.fresh_list(et, base)
        st.assume(ln == n)
        return VList(res.ref, nd=True, width=width), st.heap.lists[res.ref].leaves

    def pointwise(self, st, et, n, fn, base='np'):
        """new array r of length n with r[k] == fn(k) for all k"""
        r, leaves = self.new_arr(st, et, n, base)
        k = z3.Int(fresh_name('k'))
        st.assume(z3.ForAll([k], z3.Implies(z3.And(k >= 0, k < n), leaves[0][k] == fn(k))))
        return r

    def as_array(self, v, st):
        """np.asarray on lists / arrays / scalars"""
        if isinstance(v, VList):
            c = st.heap.lists[v.ref]
            if v.nd:
                return v
            r = st.heap.alloc_list(c.etype if c.etype is not None else 'int', c.length, c.leaves if c.etype is not None else [z3.K(z3.IntSort(), z3.IntVal(0))])
            return VList(r.ref, nd=True)
        if isinstance(v, VTuple):
            l = self.list_literal(v.items, st, etype='int' if not v.items else None)
            return VList(l.ref, nd=True)
        raise Unsupported('np.asarray of %r' % (v,))

    # ---- elementwise arithmetic / comparisons ---------------------------------------------------------
    def binop_hook(self, op, a, b, st, node):
        if isinstance(a, VList) and not a.nd and isinstance(b, VList) and b.nd:
            a = self.as_array(a, st)
        if not (_arr(a) or _arr(b)):
            return None
        if _arr(a) and self.acell(a, st).etype == 'elem' or _arr(b) and self.acell(b, st).etype == 'elem':
            return None
        self.used('elementwise arithmetic (mathematical integers, A-NOOVF)')
        if isinstance(op, (ast.BitAnd, ast.BitOr)):
            ca, cb = self.acell(a, st), self.acell(b, st)
            if not (_arr(a) and _arr(b) and ca.etype == 'bool' and cb.etype == 'bool'):
                raise Unsupported('bitwise operator on non-boolean arrays')
            self.oblige(st, 'pre', 'elementwise.same-length', ca.length == cb.length, node, raises='ValueError')
            f = (lambda k: z3.And(ca.leaves[0][k], cb.leaves[0][k])) if isinstance(op, ast.BitAnd) else (lambda k: z3.Or(ca.leaves[0][k], cb.leaves[0][k]))
            return self.pointwise(st, 'bool', ca.length, f, 'ew')

        def term(x):
            if _arr(x):
                c = self.acell(x, st)
                if c.etype == 'bool':
                    return c.length, (lambda k: z3.If(c.leaves[0][k], 1, 0)), 'int'
                return c.length, (lambda k: c.leaves[0][k]), c.etype
            if isinstance(x, VReal):
                return None, (lambda k: x.t), 'real'
            if isinstance(x, (VInt, VBool)):
                t = as_int(x)
                return None, (lambda k: t), 'int'
            raise Unsupported('array arithmetic with %r' % (x,))
        na, fa, ta = term(a)
        nb, fb, tb = term(b)
        if na is not None and nb is not None:
            self.oblige(st, 'pre', 'elementwise.same-length', na == nb, node, raises='ValueError')
        n = na if na is not None else nb
        real = 'real' in (ta, tb) or isinstance(op, ast.Div)

        def conv(f, t):
            return (lambda k: z3.ToReal(f(k))) if (real and t == 'int') else f
        fa2, fb2 = conv(fa, ta), conv(fb, tb)
        if isinstance(op, ast.Add):
            g = lambda k: fa2(k) + fb2(k)
        elif isinstance(op, ast.Sub):
            g = lambda k: fa2(k) - fb2(k)
        elif isinstance(op, ast.Mult):
            g = lambda k: fa2(k) * fb2(k)
        elif isinstance(op, ast.Div):
            g = lambda k: fa2(k) / fb2(k)
        elif isinstance(op, ast.Pow) and nb is None and const_int(fb(0)) == 2:
            # x ** 2 elementwise: abstracted as sq(x) with sq(t) >= 0 and (sq(t) == 0 iff t == 0)  (enough for nearest-first arguments)
            SQ = z3.Function('sq', z3.RealSort(), z3.RealSort())
            tq = z3.Real(fresh_name('t'))
            ax = z3.ForAll([tq], z3.And(SQ(tq) >= 0, (SQ(tq) == 0) == (tq == 0)))
            if not any(getattr(t_, '_ax_key', None) == 'sq' for t_ in st.pc):
                ax._ax_key = 'sq'
                st.pc.append(ax)
            real = True
            fr = (lambda k: z3.ToReal(fa(k))) if ta == 'int' else fa
            g = lambda k: SQ(fr(k))
        elif isinstance(op, ast.FloorDiv) and not real and nb is None and const_int(fb(0)) is not None and const_int(fb(0)) > 0:
            g = lambda k: fa(k) / fb(k)
        elif isinstance(op, ast.Mod) and not real and nb is None and const_int(fb(0)) is not None and const_int(fb(0)) > 0:
            g = lambda k: fa(k) % fb(k)
        else:
            return None
        return self.pointwise(st, 'real' if real else 'int', n, g, 'ew')

    def nd_compare(self, op, a, b, st, node):
        """elementwise comparison -> bool array, or None when not an array comparison"""
        if isinstance(a, VList) and isinstance(b, VList) and (a.nd != b.nd):
            a, b = self.as_array(a, st), self.as_array(b, st)
        if not (_arr(a) or _arr(b)):
            return None
        arr_a, arr_b = _arr(a), _arr(b)
        if (arr_a and self.acell(a, st).etype == 'elem') or (arr_b and self.acell(b, st).etype == 'elem'):
            return None
        other = b if arr_a else a
        if not (is_num(other) or _arr(other)):
            # comparison with a non-numeric object: all False (==) / all True (!=)
            if not isinstance(op, (ast.Eq, ast.NotEq)):
                raise Unsupported('ordering comparison of an array with %r' % (other,))
            arr = a if arr_a else b
            return self.pointwise(st, 'bool', self.acell(arr, st).length, lambda k: z3.BoolVal(isinstance(op, ast.NotEq)), 'cmp')
        self.used('elementwise comparison')

        def term(x):
            if _arr(x):
                c = self.acell(x, st)
                if c.etype == 'bool':
                    return c.length, (lambda k: z3.If(c.leaves[0][k], 1, 0)), 'int'
                return c.length, (lambda k: c.leaves[0][k]), c.etype
            if isinstance(x, VReal):
                return None, (lambda k: x.t), 'real'
            t = as_int(x)
            return None, (lambda k: t), 'int'
        na, fa, ta = term(a)
        nb, fb, tb = term(b)
        if na is not None and nb is not None:
            self.oblige(st, 'pre', 'elementwise.same-length', na == nb, node, raises='ValueError')
        n = na if na is not None else nb
        real = 'real' in (ta, tb)
        fa2 = (lambda k: z3.ToReal(fa(k))) if real and ta == 'int' else fa
        fb2 = (lambda k: z3.ToReal(fb(k))) if real and tb == 'int' else fb
        ops = {ast.Eq: lambda x, y: x == y, ast.NotEq: lambda x, y: x != y, ast.Lt: lambda x, y: x < y, ast.LtE: lambda x, y: x <= y,
               ast.Gt: lambda x, y: x > y, ast.GtE: lambda x, y: x >= y}
        f = ops.get(type(op))
        if f is None:
            raise Unsupported('array comparison %s' % type(op).__name__)
        return self.pointwise(st, 'bool', n, lambda k: f(fa2(k), fb2(k)), 'cmp')

    # ---- indexing -----------------------------------------------------------------------------------------
    def nd_subscript(self, base, sl, st, node):
        """arr[index array] (gather) / arr[bool array] (mask selection)"""
        if not (isinstance(base, VList) and isinstance(sl, VList)):
            return None
        cb, ci = self.acell(base, st), self.acell(sl, st)
        if cb.etype is None:
            return None
        if ci.etype == 'bool':
            self.used('boolean-mask selection x[m]: order-preserving selection (ghost index maps)')
            self.oblige(st, 'index', 'mask-same-length', ci.length == cb.length, node, raises='IndexError')
            return self.select(base, lambda i: ci.leaves[0][i], st, width=base.width, mask_key=ci.leaves[0])
        if ci.etype == 'int' or ci.etype is None:
            self.used('integer-array gather x[idx] (negative indices wrap)')
            n = cb.length
            if ci.etype is None:
                r = st.heap.alloc_list(cb.etype, z3.IntVal(0), cb.leaves)
                return VList(r.ref, nd=True, width=base.width)
            idx = ci.leaves[0]
            q = z3.Int(fresh_name('q'))
            self.oblige(st, 'index', 'gather-indices-in-range', z3.ForAll([q], z3.Implies(z3.And(q >= 0, q < ci.length), z3.And(idx[q] >= -n, idx[q] < n))), node, raises='IndexError')
            res, leaves = self.new_arr(st, cb.etype, ci.length, 'gather', width=base.width)
            k = z3.Int(fresh_name('k'))
            norm = lambda t: z3.If(t < 0, t + n, t)
            nonneg = st.entails(z3.ForAll([q], z3.Implies(z3.And(q >= 0, q < ci.length), idx[q] >= 0))) if False else False
            st.assume(z3.ForAll([k], z3.Implies(z3.And(k >= 0, k < ci.length),
                                                z3.And([r[k] == x[norm(idx[k])] for r, x in zip(leaves, cb.leaves)]))))
            k2 = z3.Int(fresh_name('k'))
            # the same fact without the wrap-around case split, for non-negative indices (a simpler term for instantiation)
            st.assume(z3.ForAll([k2], z3.Implies(z3.And(k2 >= 0, k2 < ci.length, idx[k2] >= 0),
                                                 z3.And([r[k2] == x[idx[k2]] for r, x in zip(leaves, cb.leaves)]))))
            return res
        return None

    def mask_maps(self, mask_key, n, cond_at, st):
        """the enumeration of the True positions of one mask term: (count, sel, inv); ONE set of ghost maps per mask, so that
        x[m] and y[m] (and z[m] = ...) enumerate the same positions in the same order"""
        cache = st.ghost.setdefault('__maskmaps__', {}) if False else getattr(self, '_maskmaps', None)
        if cache is None:
            cache = self._maskmaps = {}
        key = mask_key.get_id() if mask_key is not None else None
        if key is not None and key in cache and cache[key][0].eq(mask_key):
            return cache[key][1:]
        m = z3.Int(fresh_name('nsel'))
        sel = z3.Function(fresh_name('sel'), z3.IntSort(), z3.IntSort())
        inv = z3.Function(fresh_name('inv'), z3.IntSort(), z3.IntSort())
        i, j, j2 = z3.Int(fresh_name('si')), z3.Int(fresh_name('sj')), z3.Int(fresh_name('sj'))
        ax = z3.And(m >= 0, m <= n,
                    z3.ForAll([j], z3.Implies(z3.And(j >= 0, j < m), z3.And(sel(j) >= 0, sel(j) < n, cond_at(sel(j)), inv(sel(j)) == j))),
                    z3.ForAll([j, j2], z3.Implies(z3.And(j >= 0, j < j2, j2 < m), sel(j) < sel(j2))),
                    z3.ForAll([i], z3.Implies(z3.And(i >= 0, i < n, cond_at(i)), z3.And(inv(i) >= 0, inv(i) < m, sel(inv(i)) == i))))
        if key is not None:
            cache[key] = (mask_key, m, sel, inv, ax)
        return m, sel, inv, ax

    def select(self, base, cond_at, st, width=None, mask_key=None):
        """order-preserving selection of the elements of `base` whose index i satisfies cond_at(i)"""
        cb = self.acell(base, st)
        n = cb.length
        if mask_key is not None:
            m, sel, inv, ax = self.mask_maps(mask_key, n, cond_at, st)
            if not any(t is ax for t in st.pc):
                st.pc.append(ax)
            res, ml = st.heap.fresh_list(cb.etype, 'sel')
            rc = st.heap.lists[res.ref]
            st.assume(ml == m)
            j = z3.Int(fresh_name('sj'))
            st.assume(z3.ForAll([j], z3.Implies(z3.And(j >= 0, j < m), z3.And([r[j] == x[sel(j)] for r, x in zip(rc.leaves, cb.leaves)]))))
            out = VList(res.ref, nd=True, width=width)
            out.sel, out.inv = sel, inv
            return out
        res, m = st.heap.fresh_list(cb.etype, 'sel')
        rc = st.heap.lists[res.ref]
        sel = z3.Function(fresh_name('sel'), z3.IntSort(), z3.IntSort())
        inv = z3.Function(fresh_name('inv'), z3.IntSort(), z3.IntSort())
        i, j, j2 = z3.Int(fresh_name('si')), z3.Int(fresh_name('sj')), z3.Int(fresh_name('sj'))
        st.assume(z3.And(m >= 0, m <= n))
        st.assume(z3.ForAll([j], z3.Implies(z3.And(j >= 0, j < m), z3.And([sel(j) >= 0, sel(j) < n, cond_at(sel(j))] + [r[j] == x[sel(j)] for r, x in zip(rc.leaves, cb.leaves)]))))
        st.assume(z3.ForAll([j, j2], z3.Implies(z3.And(j >= 0, j < j2, j2 < m), sel(j) < sel(j2))))
        st.assume(z3.ForAll([i], z3.Implies(z3.And(i >= 0, i < n, cond_at(i)), z3.And(inv(i) >= 0, inv(i) < m, sel(inv(i)) == i))))
        out = VList(res.ref, nd=True, width=width)
        out.sel, out.inv = sel, inv
        return out

    def nd_slice_assign(self, base, tgt, val, st):
        """x[a:b] = v (array of the slice's length, or a scalar), in place"""
        cb = self.acell(base, st)
        if cb.etype not in ('int', 'real'):
            return False
        n = cb.length
        sl = tgt.slice

        def clipb(e, default):
            if e is None:
                return default
            t = as_int(self.ev(e, st))
            t2 = z3.If(t < 0, t + n, t)
            return zmin(zmax(t2, I(0)), n)
        a, b = z3.simplify(clipb(sl.lower, I(0))), z3.simplify(clipb(sl.upper, n))
        if sl.lower is not None:
            lo_ = const_int(as_int(self.ev(sl.lower, st)))
            if lo_ is not None and lo_ >= 0 and st.entails(n >= lo_):
                a = I(lo_)          # min(c, n) == c on this path: keeps the index arithmetic linear for the triggers
        ln = z3.simplify(zmax(b - a, I(0)))
        A = cb.leaves[0]
        newA = z3.Array(fresh_name('slset'), z3.IntSort(), A.sort().range())
        j = z3.Int(fresh_name('j'))
        self.used('slice assignment x[a:b] = v')
        if isinstance(val, VList):
            cv = self.acell(val, st)
            if cv.etype != cb.etype:
                return False
            self.oblige(st, 'pre', 'slice-assignment-same-length', cv.length == ln, tgt, raises='ValueError')
            st.assume(z3.ForAll([j], z3.Implies(z3.And(j >= 0, j < n), newA[j] == z3.If(z3.And(j >= a, j < b), cv.leaves[0][j - a], A[j]))))
        else:
            v = as_int(val) if cb.etype == 'int' else as_real(val)
            st.assume(z3.ForAll([j], z3.Implies(z3.And(j >= 0, j < n), newA[j] == z3.If(z3.And(j >= a, j < b), v, A[j]))))
        st.heap.lists[base.ref] = ListCell(cb.etype, n, [newA])
        self.writeback(base, st)
        return True

    def nd_setitem(self, base, idxv, val, st, node):
        """arr[idx array] = v (scatter) / arr[bool array] = scalar; in place"""
        if not isinstance(base, VList) or not isinstance(idxv, VList):
            return False
        cb, ci = self.acell(base, st), self.acell(idxv, st)
        n = cb.length
        if cb.etype not in ('int', 'bool', 'real'):
            return False
        A = cb.leaves[0]
        newA = z3.Array(fresh_name('scat'), z3.IntSort(), A.sort().range())

        def scalar(v):
            if cb.etype == 'int':
                return as_int(v)
            if cb.etype == 'real':
                return as_real(v)
            return self.truth(v, st)
        j = z3.Int(fresh_name('j'))
        if ci.etype == 'bool':
            self.used('boolean-mask assignment x[m] = scalar')
            self.oblige(st, 'index', 'mask-same-length', ci.length == n, node, raises='IndexError')
            if isinstance(val, VList):
                # x[m] = v with an array v: the True positions receive v[0], v[1], ... in order (v must have as many elements)
                cv = self.acell(val, st)
                M = ci.leaves[0]
                m, sel, inv, ax = self.mask_maps(M, n, lambda i_: M[i_], st)
                if not any(t is ax for t in st.pc):
                    st.pc.append(ax)
                self.oblige(st, 'pre', 'mask-assignment-value-count', cv.length == m, node, raises='ValueError')
                V = cv.leaves[0]
                st.assume(z3.ForAll([j], z3.Implies(z3.And(j >= 0, j < n), newA[j] == z3.If(M[j], V[inv(j)], A[j]))))
            else:
                v = scalar(val)
                st.assume(z3.ForAll([j], z3.Implies(z3.And(j >= 0, j < n), newA[j] == z3.If(ci.leaves[0][j], v, A[j]))))
        elif ci.etype == 'int':
            self.used('integer-array scatter x[idx] = v (duplicate targets: the value of some writer)')
            idx = ci.leaves[0]
            q = z3.Int(fresh_name('q'))
            self.oblige(st, 'index', 'scatter-indices-in-range', z3.ForAll([q], z3.Implies(z3.And(q >= 0, q < ci.length), z3.And(idx[q] >= -n, idx[q] < n))), node, raises='IndexError')
            norm = lambda t: z3.If(t < 0, t + n, t)
            if isinstance(val, VList):
                cv = self.acell(val, st)
                self.oblige(st, 'pre', 'scatter-value-same-length', cv.length == ci.length, node, raises='ValueError')
                vk = lambda k: cv.leaves[0][k]
            else:
                v0 = scalar(val)
                vk = lambda k: v0
            w = z3.Function(fresh_name('writer'), z3.IntSort(), z3.IntSort())
            k = z3.Int(fresh_name('k'))
            # every written position holds the value of SOME writer of that position; untouched positions keep their value
            st.assume(z3.ForAll([k], z3.Implies(z3.And(k >= 0, k < ci.length),
                                                z3.And(w(norm(idx[k])) >= 0, w(norm(idx[k])) < ci.length, norm(idx[w(norm(idx[k]))]) == norm(idx[k]),
                                                       newA[norm(idx[k])] == vk(w(norm(idx[k])))))))
            hit = z3.Function(fresh_name('hit'), z3.IntSort(), z3.IntSort())
            st.assume(z3.ForAll([j], z3.Implies(z3.And(j >= 0, j < n),
                                                z3.Or(newA[j] == A[j], z3.And(hit(j) >= 0, hit(j) < ci.length, norm(idx[hit(j)]) == j)))))
        else:
            return False
        st.heap.lists[base.ref] = ListCell(cb.etype, n, [newA])
        return True

    # ---- functions ---------------------------------------------------------------------------------------------
    # keyword arguments each modelled function understands; any other keyword makes the call unmodelled (never silently ignored)
    ALLOWED_KW = {'np.zeros': {'dtype'}, 'np.ones': {'dtype'}, 'np.zeros_like': {'dtype'}, 'np.ones_like': {'dtype'}, 'np.empty_like': {'dtype'},
                  'np.asarray': {'dtype'}, 'np.array': {'dtype'}, '_as_array': {'dtype'}, 'np.arange': {'dtype'}, 'np.bincount': {'minlength', 'weights'},
                  'np.isin': {'assume_unique'}, 'np.argsort': {'kind'}}

    def np_call(self, name, args, kw, st, node):
        fn = getattr(self, 'np_' + name.replace('.', '_'), None)
        if fn is None:
            return None
        if any(k not in self.ALLOWED_KW.get(name, ()) for k in kw):
            return None
        self.used(name)
        mark = len(st.pc)
        r = fn(args, kw, st, node)
        for t_ in st.pc[mark:]:          # label the theory facts of this call so that `using` can name them: 'theory:np.argsort', ...
            if getattr(t_, '_label', None) is None:
                try:
                    t_._label = 'theory:' + name
                except Exception:
                    pass
        return r

    def np_np_asarray(self, args, kw, st, node):
        return self.as_array(args[0], st)

    np_np_array = np_np_asarray
    np__as_array = np_np_asarray

    def np_np_arange(self, args, kw, st, node):
        ts = [as_int(a) for a in args]
        a, b = (I(0), ts[0]) if len(ts) == 1 else (ts[0], ts[1])
        n = zmax(b - a, I(0))
        return self.pointwise(st, 'int', n, lambda k: a + k, 'arange')

    def _shape1(self, v):
        if isinstance(v, VTuple) and len(v.items) == 1:
            v = v.items[0]
        if isinstance(v, VInt):
            return v.t
        return None

    def np_np_empty(self, args, kw, st, node):
        if isinstance(args[0], VTuple) and len(args[0].items) == 3:
            return self.mat_empty(args[0].items, st, node)
        return None

    def np_np_swapaxes(self, args, kw, st, node):
        # an opaque array with two axes exchanged: an uninterpreted function of the array and the axes
        if isinstance(args[0], VElem) and len(args) == 3:
            f_ = z3.Function('swapaxes', Elem, z3.IntSort(), z3.IntSort(), Elem)
            return VElem(f_(args[0].t, as_int(args[1]), as_int(args[2])))
        return None

    def np_np_abs(self, args, kw, st, node):
        if type(args[0]).__name__ == 'VMat':
            return self.mat_abs(args[0], st, node)
        return None

    def np_np_tile(self, args, kw, st, node):
        return self.mat_tile(args[0], args[1], st, node)

    def np_np_zeros(self, args, kw, st, node):
        a0 = args[0]
        if isinstance(a0, VList) and not a0.nd and const_int(st.heap.lists[a0.ref].length) in (2, 3) and st.heap.lists[a0.ref].etype == 'int':
            L = st.heap.lists[a0.ref].leaves[0]
            return self.mat_zeros([VInt(z3.simplify(L[q])) for q in range(const_int(st.heap.lists[a0.ref].length))], kw.get('dtype'), st, node)
        if isinstance(a0, VTuple) and len(a0.items) == 2 and isinstance(kw.get('dtype'), VFunc) and kw['dtype'].kind == 'matdtype':
            return self.mat_zeros(a0.items, kw.get('dtype'), st, node)
        if isinstance(a0, VTuple) and len(a0.items) == 3:
            return self.mat_zeros(a0.items, kw.get('dtype'), st, node)        # (n, w, p): n x w opaque vectors of length p, all zero
        n = self._shape1(args[0])
        if n is None:
            return None
        self.oblige(st, 'pre', 'np.zeros.non-negative-size', n >= 0, node, raises='ValueError')
        et = 'bool' if self._is_bool_dtype(kw.get('dtype')) else 'int'
        return self.pointwise(st, et, n, (lambda k: z3.BoolVal(False)) if et == 'bool' else (lambda k: I(0)), 'zeros')

    def np_np_ones(self, args, kw, st, node):
        n = self._shape1(args[0])
        if n is None:
            return None
        self.oblige(st, 'pre', 'np.ones.non-negative-size', n >= 0, node, raises='ValueError')
        et = 'bool' if self._is_bool_dtype(kw.get('dtype')) else 'int'
        return self.pointwise(st, et, n, (lambda k: z3.BoolVal(True)) if et == 'bool' else (lambda k: I(1)), 'ones')

    def _is_bool_dtype(self, v):
        return isinstance(v, VFunc) and v.name == 'bool'

    def np_np_zeros_like(self, args, kw, st, node):
        c = self.acell(args[0], st)
        et = 'bool' if self._is_bool_dtype(kw.get('dtype')) else c.etype
        return self.pointwise(st, et, c.length, (lambda k: z3.BoolVal(False)) if et == 'bool' else (lambda k: I(0)), 'zeros')

    def np_np_ones_like(self, args, kw, st, node):
        c = self.acell(args[0], st)
        et = 'bool' if self._is_bool_dtype(kw.get('dtype')) else c.etype
        return self.pointwise(st, et, c.length, (lambda k: z3.BoolVal(True)) if et == 'bool' else (lambda k: I(1)), 'ones')

    def np_np_empty_like(self, args, kw, st, node):
        c = self.acell(args[0], st)
        r, _ = self.new_arr(st, c.etype, c.length, 'empty')
        return r

    def np_np_diff(self, args, kw, st, node):
        c = self.acell(args[0], st)
        if c.etype != 'int':
            return None
        A = c.leaves[0]
        return self.pointwise(st, 'int', zmax(c.length - 1, I(0)), lambda k: A[k + 1] - A[k], 'diff')

    def np_np_all(self, args, kw, st, node):
        v = args[0]
        if isinstance(v, VBool):
            return v
        if type(v).__name__ == 'VMatMask':
            return self.mat_all(v, st)
        c = self.acell(v, st)
        k = z3.Int(fresh_name('k'))
        body = c.leaves[0][k] if c.etype == 'bool' else c.leaves[0][k] != 0
        return VBool(z3.ForAll([k], z3.Implies(z3.And(k >= 0, k < c.length), body)))

    def np_np_any(self, args, kw, st, node):
        v = args[0]
        if isinstance(v, VBool):
            return v
        c = self.acell(v, st)
        k = z3.Int(fresh_name('k'))
        body = c.leaves[0][k] if c.etype == 'bool' else c.leaves[0][k] != 0
        return VBool(z3.Exists([k], z3.And(k >= 0, k < c.length, body)))

    def arr_extreme(self, v, st, node, is_max, fname):
        c = self.acell(v, st)
        if c.etype not in ('int', 'real'):
            raise Unsupported('%s of %r array' % (fname, c.etype))
        self.oblige(st, 'pre', '%s.non-empty' % fname, c.length >= 1, node, raises='ValueError')
        r = z3.Int(fresh_name(fname)) if c.etype == 'int' else z3.Real(fresh_name(fname))
        w = z3.Int(fresh_name(fname + '_at'))
        k = z3.Int(fresh_name('k'))
        A = c.leaves[0]
        st.assume(z3.ForAll([k], z3.Implies(z3.And(k >= 0, k < c.length), (A[k] <= r) if is_max else (A[k] >= r))))
        st.assume(z3.And(w >= 0, w < c.length, A[w] == r))
        return VInt(r) if c.etype == 'int' else VReal(r)

    def np_np_max(self, args, kw, st, node):
        return self.arr_extreme(self.as_array(args[0], st), st, node, True, 'max')

    def np_np_min(self, args, kw, st, node):
        return self.arr_extreme(self.as_array(args[0], st), st, node, False, 'min')

    def nonzero_of(self, cond_at, n, st):
        """strictly increasing indices exactly where cond_at holds"""
        res, m = st.heap.fresh_list('int', 'nz')
        R = st.heap.lists[res.ref].leaves[0]
        inv = z3.Function(fresh_name('nzinv'), z3.IntSort(), z3.IntSort())
        i, j, j2 = z3.Int(fresh_name('ni')), z3.Int(fresh_name('nj')), z3.Int(fresh_name('nj'))
        st.assume(z3.And(m >= 0, m <= n))
        st.assume(z3.ForAll([j], z3.Implies(z3.And(j >= 0, j < m), z3.And(R[j] >= 0, R[j] < n, cond_at(R[j])))))
        st.assume(z3.ForAll([j, j2], z3.Implies(z3.And(j >= 0, j < j2, j2 < m), R[j] < R[j2])))
        st.assume(z3.ForAll([i], z3.Implies(z3.And(i >= 0, i < n, cond_at(i)), z3.And(inv(i) >= 0, inv(i) < m, R[inv(i)] == i))))
        return VList(res.ref, nd=True)

    def np_np_nonzero(self, args, kw, st, node):
        c = self.acell(args[0], st)
        A = c.leaves[0]
        cond = (lambda i: A[i]) if c.etype == 'bool' else (lambda i: A[i] != 0)
        return VTuple([self.nonzero_of(cond, c.length, st)])

    def np_np_flatnonzero(self, args, kw, st, node):
        return self.np_np_nonzero(args, kw, st, node).items[0]

    def np_np_where(self, args, kw, st, node):
        if len(args) != 1:
            return None
        return self.np_np_nonzero(args, kw, st, node)

    def np_np_bincount(self, args, kw, st, node):
        """len = max(max(x)+1, minlength); counts are abstract: bc[v] >= 0 and bc[v] > 0 iff v occurs in x (enough for presence
        reasoning; true cardinalities are NOT modelled)."""
        x = self.as_array(args[0], st)
        if 'weights' in kw:
            return None
        c = self.acell(x, st)
        if c.etype != 'int':
            return None
        X = c.leaves[0]
        q = z3.Int(fresh_name('q'))
        self.oblige(st, 'pre', 'np.bincount.non-negative-input', z3.ForAll([q], z3.Implies(z3.And(q >= 0, q < c.length), X[q] >= 0)), node, raises='ValueError')
        ml = as_int(kw['minlength']) if 'minlength' in kw else I(0)
        res, n = st.heap.fresh_list('int', 'bc')
        B = st.heap.lists[res.ref].leaves[0]
        k, v = z3.Int(fresh_name('k')), z3.Int(fresh_name('v'))
        occ = z3.Function(fresh_name('occ'), z3.IntSort(), z3.IntSort())
        st.assume(n >= ml)
        st.assume(z3.ForAll([k], z3.Implies(z3.And(k >= 0, k < c.length), z3.And(X[k] < n, B[X[k]] > 0))))
        st.assume(z3.Or(n == ml, z3.And(n >= 1, occ(n - 1) >= 0, occ(n - 1) < c.length, X[occ(n - 1)] == n - 1)))
        st.assume(z3.ForAll([v], z3.Implies(z3.And(v >= 0, v < n), z3.And(B[v] >= 0, z3.Implies(B[v] > 0, z3.And(occ(v) >= 0, occ(v) < c.length, X[occ(v)] == v))))))
        return VList(res.ref, nd=True)

    def np_np_isin(self, args, kw, st, node):
        if type(args[0]).__name__ == 'VMat':
            return self.mat_isin(args[0], args[1], st, node, kw)
        a, b = self.as_array(args[0], st), self.as_array(args[1], st)
        ca, cb = self.acell(a, st), self.acell(b, st)
        if ca.etype != 'int' or cb.etype not in ('int', None):
            return None
        if 'assume_unique' in kw and not z3.is_false(z3.simplify(self.truth(kw['assume_unique'], st))):
            i, j = z3.Int(fresh_name('i')), z3.Int(fresh_name('j'))
            for c_, nm in ((ca, 'first'), (cb, 'second')):
                self.oblige(st, 'pre', 'np.isin.assume_unique-%s-argument-unique' % nm,
                            z3.ForAll([i, j], z3.Implies(z3.And(i >= 0, i < j, j < c_.length), c_.leaves[0][i] != c_.leaves[0][j])), node)
        if cb.etype is None:
            return self.pointwise(st, 'bool', ca.length, lambda k: z3.BoolVal(False), 'isin')
        A, B = ca.leaves[0], cb.leaves[0]
        res, leaves = self.new_arr(st, 'bool', ca.length, 'isin')
        R = leaves[0]
        wit = z3.Function(fresh_name('isin_at'), z3.IntSort(), z3.IntSort())
        k, j = z3.Int(fresh_name('k')), z3.Int(fresh_name('j'))
        st.assume(z3.ForAll([k], z3.Implies(z3.And(k >= 0, k < ca.length, R[k]), z3.And(wit(k) >= 0, wit(k) < cb.length, B[wit(k)] == A[k]))))
        st.assume(z3.ForAll([k, j], z3.Implies(z3.And(k >= 0, k < ca.length, j >= 0, j < cb.length, B[j] == A[k]), R[k])))
        return res

    def np_np_unique(self, args, kw, st, node):
        x = self.as_array(args[0], st)
        c = self.acell(x, st)
        if c.etype != 'int' or kw:
            return None
        X = c.leaves[0]
        res, m = st.heap.fresh_list('int', 'uniq')
        U = st.heap.lists[res.ref].leaves[0]
        pos = z3.Function(fresh_name('upos'), z3.IntSort(), z3.IntSort())
        src = z3.Function(fresh_name('usrc'), z3.IntSort(), z3.IntSort())
        k, j, j2 = z3.Int(fresh_name('k')), z3.Int(fresh_name('j')), z3.Int(fresh_name('j'))
        st.assume(z3.And(m >= 0, m <= c.length, (m == 0) == (c.length == 0)))
        st.assume(z3.ForAll([j, j2], z3.Implies(z3.And(j >= 0, j < j2, j2 < m), U[j] < U[j2])))
        st.assume(z3.ForAll([j], z3.Implies(z3.And(j >= 0, j < m), z3.And(src(j) >= 0, src(j) < c.length, X[src(j)] == U[j]))))
        st.assume(z3.ForAll([k], z3.Implies(z3.And(k >= 0, k < c.length), z3.And(pos(k) >= 0, pos(k) < m, U[pos(k)] == X[k]))))
        if 'unique-count' not in getattr(self.cur, 'theory', ()):
            return VList(res.ref, nd=True)
        # counting fact (pigeonhole, not derivable by instantiation): as many distinct values as elements  <=>  no value occurs twice
        d1, d2 = z3.Int(fresh_name('dup')), z3.Int(fresh_name('dup'))
        i2, j3 = z3.Int(fresh_name('i')), z3.Int(fresh_name('j'))
        st.assume(z3.Or(m == c.length, z3.And(d1 >= 0, d1 < d2, d2 < c.length, X[d1] == X[d2])))
        st.assume(z3.Or(m != c.length, z3.ForAll([i2, j3], z3.Implies(z3.And(i2 >= 0, i2 < j3, j3 < c.length), X[i2] != X[j3]))))
        return VList(res.ref, nd=True)

    def np_np_cumsum(self, args, kw, st, node):
        x = self.as_array(args[0], st)
        c = self.acell(x, st)
        if c.etype != 'int':
            return None
        ps = lambda k: as_int(self.call_builtin('psum', [x, VInt(k + 1)], {}, st, node))
        return self.pointwise(st, 'int', c.length, ps, 'cumsum')

    def np_np_argsort(self, args, kw, st, node):
        """permutation (ghost inverse) putting the keys in non-decreasing order; ties keep input order only for stable kinds"""
        x = self.as_array(args[0], st)
        c = self.acell(x, st)
        if c.etype not in ('int', 'real'):
            return None
        X, n = c.leaves[0], c.length
        kind = kw.get('kind')
        stable = isinstance(kind, VStr) and kind.s in ('stable', 'mergesort')
        res, leaves = self.new_arr(st, 'int', n, 'argsort')
        P = leaves[0]
        inv = z3.Function(fresh_name('asinv'), z3.IntSort(), z3.IntSort())
        i, j = z3.Int(fresh_name('i')), z3.Int(fresh_name('j'))
        st.assume(z3.ForAll([i], z3.Implies(z3.And(i >= 0, i < n), z3.And(P[i] >= 0, P[i] < n, inv(P[i]) == i))))
        st.assume(z3.ForAll([i], z3.Implies(z3.And(i >= 0, i < n), z3.And(inv(i) >= 0, inv(i) < n, P[inv(i)] == i, X[P[inv(i)]] == X[i]))))   # (last conjunct: trigger on reads of the key)
        st.assume(z3.ForAll([i, j], z3.Implies(z3.And(i >= 0, i < j, j < n), X[P[i]] <= X[P[j]])))
        if stable:
            st.assume(z3.ForAll([i, j], z3.Implies(z3.And(i >= 0, i < j, j < n, X[P[i]] == X[P[j]]), P[i] < P[j])))
        res.inv = inv
        return res

    def np_np_sort(self, args, kw, st, node):
        """np.sort(x) of a 1-D array = x gathered by a sorting permutation (the values do not depend on how ties are ordered)"""
        x = self.as_array(args[0], st)
        c = self.acell(x, st)
        if c.etype not in ('int', 'real') or kw or len(args) != 1:
            return None
        perm = self.np_np_argsort([x], {'kind': VStr('stable')}, st, node)
        return self.nd_subscript(x, perm, st, node)

    def np_np_argmax(self, args, kw, st, node):
        x = self.as_array(args[0], st)
        c = self.acell(x, st)
        if c.etype not in ('int', 'real') or kw:
            return None
        X, n = c.leaves[0], c.length
        self.oblige(st, 'pre', 'np.argmax.non-empty', n >= 1, node, raises='ValueError')
        r = z3.Int(fresh_name('argmax'))
        k = z3.Int(fresh_name('k'))
        st.assume(z3.And(r >= 0, r < n))
        st.assume(z3.ForAll([k], z3.Implies(z3.And(k >= 0, k < n), X[k] <= X[r])))
        st.assume(z3.ForAll([k], z3.Implies(z3.And(k >= 0, k < r), X[k] < X[r])))      # first maximiser
        return VInt(r)

    def np_np_intersect1d(self, args, kw, st, node):
        a, b = self.as_array(args[0], st), self.as_array(args[1], st)
        ca, cb = self.acell(a, st), self.acell(b, st)
        if ca.etype != 'int' or cb.etype != 'int' or kw:
            return None
        A, B = ca.leaves[0], cb.leaves[0]
        res, m = st.heap.fresh_list('int', 'isect')
        R = st.heap.lists[res.ref].leaves[0]
        ia = z3.Function(fresh_name('ia'), z3.IntSort(), z3.IntSort())
        ib = z3.Function(fresh_name('ib'), z3.IntSort(), z3.IntSort())
        pos = z3.Function(fresh_name('ipos'), z3.IntSort(), z3.IntSort(), z3.IntSort())
        i, j, p, q = z3.Int(fresh_name('i')), z3.Int(fresh_name('j')), z3.Int(fresh_name('p')), z3.Int(fresh_name('q'))
        st.assume(z3.And(m >= 0, m <= ca.length, m <= cb.length))
        st.assume(z3.ForAll([i, j], z3.Implies(z3.And(i >= 0, i < j, j < m), R[i] < R[j])))
        st.assume(z3.ForAll([i], z3.Implies(z3.And(i >= 0, i < m), z3.And(ia(i) >= 0, ia(i) < ca.length, A[ia(i)] == R[i], ib(i) >= 0, ib(i) < cb.length, B[ib(i)] == R[i]))))
        st.assume(z3.ForAll([p, q], z3.Implies(z3.And(p >= 0, p < ca.length, q >= 0, q < cb.length, A[p] == B[q]), z3.And(pos(p, q) >= 0, pos(p, q) < m, R[pos(p, q)] == A[p]))))
        if 'intersect1d-L1' not in getattr(self.cur, 'theory', ()):
            return VList(res.ref, nd=True)
        # consequence of the three facts above by lemma L1 (lean/L1_sorted_same_members.lean: strictly sorted lists with the same members
        # are equal), which instantiation cannot find (induction): a strictly increasing first argument contained in the second is returned as is
        i2, j2, k2, e2 = z3.Int(fresh_name('i')), z3.Int(fresh_name('j')), z3.Int(fresh_name('k')), z3.Int(fresh_name('e'))
        inc = z3.ForAll([i2, j2], z3.Implies(z3.And(i2 >= 0, i2 < j2, j2 < ca.length), A[i2] < A[j2]))
        sub = z3.ForAll([k2], z3.Implies(z3.And(k2 >= 0, k2 < ca.length), z3.Exists([e2], z3.And(e2 >= 0, e2 < cb.length, B[e2] == A[k2]))))
        st.assume(z3.Implies(z3.And(inc, sub), z3.And(m == ca.length, z3.ForAll([k2], z3.Implies(z3.And(k2 >= 0, k2 < m), R[k2] == A[k2])))))
        self.used('np.intersect1d returns a strictly increasing subset argument unchanged (lemma L1, Lean-checked)')
        return VList(res.ref, nd=True)

    def rag_psum(self, rc, st):
        """PS(p) = total length of rows 0..p-1 of a list of arrays (uninterpreted + defining recurrence + monotonicity)"""
        PS = z3.Function('rpsum', z3.ArraySort(z3.IntSort(), z3.IntSort()), z3.IntSort(), z3.IntSort())
        key = ('rpsum', rc.lens.get_id())
        if not any(getattr(t, '_ax_key', None) == key for t in st.pc):
            p, q = z3.Int(fresh_name('p')), z3.Int(fresh_name('q'))
            ax = z3.And(PS(rc.lens, z3.IntVal(0)) == 0,
                        z3.ForAll([p], z3.Implies(z3.And(p >= 0, p < rc.count), PS(rc.lens, p + 1) == PS(rc.lens, p) + rc.lens[p])),
                        z3.ForAll([p, q], z3.Implies(z3.And(p >= 0, p <= q, q <= rc.count), PS(rc.lens, p) <= PS(rc.lens, q))))
            axs = [ax]
            l0 = rc.lens
            while z3.is_store(l0):
                # prefix determinacy (generic fold lemma, as for ops_fold): entries at or beyond index i do not affect PS(., p) for p <= i
                i_, l1 = l0.children()[1], l0.children()[0]
                p2 = z3.Int(fresh_name('p'))
                axs.append(z3.ForAll([p2], z3.Implies(z3.And(p2 >= 0, p2 <= i_), PS(l0, p2) == PS(l1, p2))))
                l0 = l1
            ax = z3.And(axs) if len(axs) > 1 else ax
            ax._ax_key = key
            ax._label = 'theory:rpsum'
            st.pc.append(ax)
        return lambda t: PS(rc.lens, t)

    def concat_rag(self, rag, st, node):
        self.used('np.concatenate of a list of 1-D arrays')
        rc = st.heap.rags[rag.ref]
        self.oblige(st, 'pre', 'np.concatenate.at-least-one-array', rc.count >= 1, node, raises='ValueError')
        PS = self.rag_psum(rc, st)
        n = PS(rc.count)
        res, leaves = self.new_arr(st, rc.etype, n, 'concat')
        R = leaves[0]
        row = z3.Function(fresh_name('crow'), z3.IntSort(), z3.IntSort())
        off = z3.Function(fresh_name('coff'), z3.IntSort(), z3.IntSort())
        p, i, f = z3.Int(fresh_name('p')), z3.Int(fresh_name('i')), z3.Int(fresh_name('f'))
        st.assume(z3.ForAll([p, i], z3.Implies(z3.And(p >= 0, p < rc.count, i >= 0, i < rc.lens[p]),
                                               z3.And(R[PS(p) + i] == rc.data[p][i], row(PS(p) + i) == p, off(PS(p) + i) == i))))
        st.assume(z3.ForAll([f], z3.Implies(z3.And(f >= 0, f < n), z3.And(row(f) >= 0, row(f) < rc.count, off(f) >= 0, off(f) < rc.lens[row(f)],
                                                                       PS(row(f)) + off(f) == f, R[f] == rc.data[row(f)][off(f)]))))
        return res

    def np_np_concatenate(self, args, kw, st, node):
        if args and isinstance(args[0], VRag):
            return self.concat_rag(args[0], st, node)
        return None

    def np_np_isnan(self, args, kw, st, node):
        # reals carry no NaN (A-REAL; NaN-related clauses are bounded only)
        c = self.acell(self.as_array(args[0], st), st)
        return self.pointwise(st, 'bool', c.length, lambda k: z3.BoolVal(False), 'isnan')

    # methods of arrays ---------------------------------------------------------------------------------------------
    def nd_method(self, arr, name, args, kw, st, node):
        self.used('ndarray.' + name)
        c = self.acell(arr, st)
        if name == 'max':
            return self.arr_extreme(arr, st, node, True, 'max')
        if name == 'min':
            return self.arr_extreme(arr, st, node, False, 'min')
        if name in ('copy', 'ravel', 'flatten', 'squeeze'):
            r = st.heap.alloc_list(c.etype, c.length, c.leaves)
            return VList(r.ref, nd=True, width=arr.width)
        if name == 'astype':
            # integer/bool conversions between integer types without overflow (A-NOOVF)
            r = st.heap.alloc_list(c.etype, c.length, c.leaves)
            return VList(r.ref, nd=True, width=arr.width)
        if name == 'any':
            return self.np_np_any([arr], {}, st, node)
        if name == 'all':
            return self.np_np_all([arr], {}, st, node)
        if name == 'tolist':
            r = st.heap.alloc_list(c.etype, c.length, c.leaves)
            return VList(r.ref, nd=False)
        raise Unsupported('ndarray.%s' % name)
