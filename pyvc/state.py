"""Execution state, obligations and the decide/fork mechanism of the pyvc executor."""
import z3
from .values import *  # noqa


class Fork(Exception):
    """Raised by the evaluator when it needs a decision on `cond` that the path condition does not
    settle; the statement executor splits the state and re-executes the statement on both sides."""
    def __init__(self, cond):
        self.cond = cond


class Unsupported(Exception):
    """Construct outside the supported subset: the function falls back to tier B (never silently skipped)."""


class Ob:
    __slots__ = ('name', 'kind', 'label', 'hyps', 'goal', 'line', 'func', 'using', 'hints', 'result', 'backend', 'secs', 'model', 'uid')

    def __init__(self, name, kind, label, hyps, goal, line, func):
        self.name, self.kind, self.label, self.hyps, self.goal, self.line, self.func = name, kind, label, hyps, goal, line, func
        self.result = None
        self.backend = None
        self.secs = 0.0
        self.model = None
        self.using = None
        self.hints = None


class State:
    def __init__(self, engine):
        self.eng = engine
        self.env = {}
        self.pc = []            # list of z3 Bool terms (assumptions along this path)
        self.heap = Heap()
        self.ghost = {}
        self.status = 'run'     # run | return | raise | break | continue
        self.retval = None
        self.exc = None         # exception class name
        self.old = None         # entry snapshot (env, heap) for old(...)
        self.spec = 0           # >0 while evaluating a specification expression
        self.nofork = 0
        self.specfork = 0       # >0 inside an inlined spec function: case splits allowed, results merged with ite
        self.decisions = []
        self.path = ''          # textual trace of branch decisions (debug)

    def copy(self):
        s = State.__new__(State)
        s.eng = self.eng
        s.env = dict(self.env)
        s.pc = list(self.pc)
        s.heap = self.heap.copy()
        s.ghost = dict(self.ghost)
        s.status, s.retval, s.exc = self.status, self.retval, self.exc
        s.old = self.old
        s.spec = self.spec
        s.nofork = self.nofork
        s.specfork = self.specfork
        s.decisions = list(self.decisions)
        s.path = self.path
        return s

    def assume(self, t):
        if z3.is_true(t):
            return
        self.pc.append(t)

    # -- decisions --------------------------------------------------------------------------
    def entails(self, cond, timeout=300):
        """True if pc |= cond is established (sound: uses only a subset of pc)."""
        c = z3.simplify(cond)
        if z3.is_true(c):
            return True
        if z3.is_false(c):
            return False
        return self.eng.quick_entails(self.pc, c, timeout)

    def feasible(self):
        return self.eng.quick_feasible(self.pc)

    def decide(self, cond):
        """Python bool for cond if the path condition settles it, else Fork (or, in spec mode, error)."""
        c = z3.simplify(cond)
        if z3.is_true(c):
            return True
        if z3.is_false(c):
            return False
        for d in self.decisions:      # (quantified conditions are invisible to the quantifier-free entailment check)
            if d.eq(c):
                return True
            if z3.is_not(d) and d.arg(0).eq(c):
                return False
        if self.entails(c):
            return True
        if self.entails(z3.Not(c)):
            return False
        if (self.spec and not self.specfork) or self.nofork:
            raise Unsupported('expression needs a case split on %s where forking is not possible' % c)
        raise Fork(c)
