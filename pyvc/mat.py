"""Rank-2 arrays (matrices) for the symbolic executor: an n x w array is a list of n rows that all have length w
(the ragged-list cell with a constant length function), so `M[s][j]`, `len(M)` in contracts read as for lists of arrays.

Everything here is ASSUMED NumPy semantics (A-LIB, listed in the evidence of the properties that use it):
  * `.shape/.ndim/.dtype`, `np.zeros((n, w))`, `M[:, a:b]` column slices;
  * `M.flatten() / .astype(int) / .reshape(M0.shape)`: a flat view keeps the element at (s, j) at flat position s*w + j; the executor never
    computes with flat positions: between flatten() and the reshape back to the same shape only *elementwise* operations are accepted
    (A-FLAT), which commute with that bijection;
  * `np.isin(M, ids)`, `~mask`, `M[mask] = scalar`, `np.all(mask)`: elementwise;
  * `np.tile(v[:, np.newaxis], (1, w))`: the matrix whose row s is constant v[s];
  * `out[X, C, ...] = D` with index matrices X, C of D's shape: every (s, j) writes D[s][j] to out[X[s][j]][C[s][j]]; all other cells keep
    their value; when several (s, j) address the same cell the cell receives the value of ONE of them (NumPy leaves the order open).
"""
import ast
import z3
from .values import *  # noqa
from .state import Unsupported
from .expr import I, as_int, as_real, const_int, zmax


class VMat(VRag):
    """depth None: rank 2 (cells are numbers).  depth p: rank 3 of shape (n, w, p); a cell (s, j) is the opaque vector M[s, j, :] (sort Elem)"""
    def __init__(self, ref, flat=False, depth=None):
        VRag.__init__(self, ref)
        self.flat = flat
        self.depth = depth


class VMatMask(V):
    """elementwise Boolean matrix pred(M[s][j]) over a snapshot of M (lazy: never materialised)"""
    def __init__(self, n, w, data, pred):
        self.n, self.w, self.data, self.pred = n, w, data, pred


class VCol(V):
    """v[:, np.newaxis]: a column vector"""
    def __init__(self, lst):
        self.lst = lst


_SORT = {'int': z3.IntSort(), 'real': z3.RealSort(), 'bool': z3.BoolSort(), 'elem': Elem}
ZERO_CELL = z3.Function('zero_cell', z3.IntSort(), Elem)     # the all-zero vector of a given length
NAN_CELL = z3.Function('nan_cell', z3.IntSort(), Elem)       # the all-NaN vector of a given length


class MatrixTheory:

    def mcell(self, m, st):
        rc = st.heap.rags[m.ref]
        if not z3.is_K(rc.lens):
            raise Unsupported('not a matrix')
        return rc.etype, rc.count, rc.lens.arg(0), rc.data

    def new_mat(self, st, etype, n, w, base='mat', data=None, flat=False, depth=None):
        r = st.heap.new_ref()
        if data is None:
            data = z3.Array(fresh_name(base + '.rows'), z3.IntSort(), z3.ArraySort(z3.IntSort(), _SORT[etype]))
        st.heap.rags[r] = RagCell(etype, n, z3.K(z3.IntSort(), w), data)
        return VMat(r, flat=flat, depth=depth)

    def fresh_mat(self, etype, base, st, flat=False, cube=False):
        n, w = z3.Int(fresh_name(base + '.n')), z3.Int(fresh_name(base + '.w'))
        st.assume(z3.And(n >= 0, w >= 0))
        depth = None
        if cube:
            depth = z3.Int(fresh_name(base + '.p'))
            st.assume(depth >= 0)
        return self.new_mat(st, etype, n, w, base, flat=flat, depth=depth)

    def _rng(self, s, j, n, w):
        return z3.And(s >= 0, s < n, j >= 0, j < w)

    # ---- attributes / methods ----------------------------------------------------------------------------
    def mat_getattr(self, base, attr, st, node):
        et, n, w, data = self.mcell(base, st)
        self.used('rank-2 arrays (pyvc/mat.py)')
        if attr == 'shape':
            if base.flat:
                raise Unsupported('.shape of a flattened matrix')
            return VTuple([VInt(n), VInt(w)] + ([VInt(base.depth)] if base.depth is not None else []))
        if attr == 'ndim':
            return VInt(1 if base.flat else (2 if base.depth is None else 3))
        if attr == 'dtype':
            return VFunc('matdtype', et)
        if attr in ('flatten', 'ravel', 'astype', 'reshape', 'copy', 'max', 'min'):
            return VFunc('matmethod', attr, self_val=base)
        raise Unsupported('attribute %s of a matrix' % attr)

    def mat_method(self, m, name, args, kw, st, node):
        et, n, w, data = self.mcell(m, st)
        if name in ('flatten', 'ravel'):
            self.used('flatten()/reshape() keep elementwise correspondence (A-FLAT)')
            return self.new_mat(st, et, n, w, data=data, flat=True, depth=m.depth)
        if name == 'copy':
            return self.new_mat(st, et, n, w, data=data, flat=m.flat, depth=m.depth)
        if name == 'astype':
            if et == 'real':
                self.used('astype(float dtype) on a real matrix keeps the (real) values (A-REAL: floats as reals, no rounding)')
                return self.new_mat(st, et, n, w, data=data, flat=m.flat, depth=m.depth)
            if et != 'int':
                raise Unsupported('astype on a non-numeric matrix')
            self.used('astype(integer dtype) keeps integer values (A-NOOVF)')
            return self.new_mat(st, et, n, w, data=data, flat=m.flat)
        if name in ('max', 'min'):
            ax = kw.get('axis', args[0] if args else None)
            if m.flat or m.depth is not None or et not in ('int', 'real') or ax is None or const_int(as_int(ax)) != 0:
                raise Unsupported('matrix reduction other than M.max(axis=0) / M.min(axis=0)')
            return self.mat_colreduce(m, name == 'max', st, node)
        if name == 'reshape':
            shp = args[0] if len(args) == 1 else VTuple(list(args))
            if not (isinstance(shp, VTuple) and len(shp.items) == 2) or m.depth is not None:
                raise Unsupported('reshape to a non rank-2 shape')
            a, b = as_int(shp.items[0]), as_int(shp.items[1])
            # only the reshape back to the shape it was flattened from is modelled
            self.oblige(st, 'pre', 'reshape.same-shape-as-before-flattening', z3.And(a == n, b == w), node, raises='ValueError')
            return self.new_mat(st, et, n, w, data=data, flat=False)
        raise Unsupported('matrix method %s' % name)

    # ---- elementwise predicates ----------------------------------------------------------------------------
    def mat_isin(self, m, ids, st, node, kw=None):
        et, n, w, data = self.mcell(m, st)
        ids = self.as_array(ids, st)
        c = st.heap.lists[ids.ref]
        if et != 'int' or c.etype not in ('int', None):
            return None
        kw = kw or {}
        if any(k not in ('assume_unique',) for k in kw):
            return None
        if 'assume_unique' in kw and not z3.is_false(z3.simplify(self.truth(kw['assume_unique'], st))):
            # NumPy's sort-based path is only correct when BOTH arguments have no repeated element
            s1, j1, s2, j2 = (z3.Int(fresh_name(x)) for x in ('s', 'j', 's', 'j'))
            self.oblige(st, 'pre', 'np.isin.assume_unique-first-argument-unique',
                        z3.ForAll([s1, j1, s2, j2], z3.Implies(z3.And(self._rng(s1, j1, n, w), self._rng(s2, j2, n, w), z3.Or(s1 != s2, j1 != j2)), data[s1][j1] != data[s2][j2])), node)
            if c.etype is not None:
                a1, a2 = z3.Int(fresh_name('a')), z3.Int(fresh_name('b'))
                self.oblige(st, 'pre', 'np.isin.assume_unique-second-argument-unique',
                            z3.ForAll([a1, a2], z3.Implies(z3.And(a1 >= 0, a1 < a2, a2 < c.length), c.leaves[0][a1] != c.leaves[0][a2])), node)
        p = z3.Function(fresh_name('isin_p'), z3.IntSort(), z3.BoolSort())
        if c.etype is None:
            v = z3.Int(fresh_name('v'))
            st.assume(z3.ForAll([v], z3.Not(p(v))))
        else:
            B = c.leaves[0]
            wit = z3.Function(fresh_name('isin_at'), z3.IntSort(), z3.IntSort())
            s, j, k = z3.Int(fresh_name('s')), z3.Int(fresh_name('j')), z3.Int(fresh_name('k'))
            # membership of the matrix elements only (the predicate is applied to nothing else)
            st.assume(z3.ForAll([s, j], z3.Implies(z3.And(self._rng(s, j, n, w), p(data[s][j])),
                                                   z3.And(wit(data[s][j]) >= 0, wit(data[s][j]) < c.length, B[wit(data[s][j])] == data[s][j]))))
            st.assume(z3.ForAll([s, j, k], z3.Implies(z3.And(self._rng(s, j, n, w), k >= 0, k < c.length, B[k] == data[s][j]), p(data[s][j]))))
        return VMatMask(n, w, data, lambda v: p(v))

    def mat_invert(self, mask):
        return VMatMask(mask.n, mask.w, mask.data, lambda v, f=mask.pred: z3.Not(f(v)))

    def mat_all(self, mask, st):
        s, j = z3.Int(fresh_name('s')), z3.Int(fresh_name('j'))
        return VBool(z3.ForAll([s, j], z3.Implies(self._rng(s, j, mask.n, mask.w), mask.pred(mask.data[s][j]))))

    # ---- construction ------------------------------------------------------------------------------------------
    def mat_zeros(self, shape2, dtype, st, node):
        n, w = as_int(shape2[0]), as_int(shape2[1])
        if len(shape2) == 3:
            p = as_int(shape2[2])
            self.oblige(st, 'pre', 'np.zeros.non-negative-shape', z3.And(n >= 0, w >= 0, p >= 0), node, raises='ValueError')
            self.used('rank-3 arrays as matrices of opaque trailing vectors (pyvc/mat.py)')
            return self.new_mat(st, 'elem', n, w, data=z3.K(z3.IntSort(), z3.K(z3.IntSort(), ZERO_CELL(p))), depth=p)
        self.oblige(st, 'pre', 'np.zeros.non-negative-shape', z3.And(n >= 0, w >= 0), node, raises='ValueError')
        et = dtype.name if isinstance(dtype, VFunc) and dtype.kind == 'matdtype' else 'int'
        zero = {'int': z3.IntVal(0), 'real': z3.RealVal(0), 'bool': z3.BoolVal(False)}[et]
        self.used('rank-2 arrays (pyvc/mat.py)')
        return self.new_mat(st, et, n, w, data=z3.K(z3.IntSort(), z3.K(z3.IntSort(), zero)))

    def mat_empty(self, shape3, st, node):
        n, w, p = (as_int(x) for x in shape3)
        self.oblige(st, 'pre', 'np.empty.non-negative-shape', z3.And(n >= 0, w >= 0, p >= 0), node, raises='ValueError')
        self.used('rank-3 arrays as matrices of opaque trailing vectors (pyvc/mat.py)')
        return self.new_mat(st, 'elem', n, w, 'empty', depth=p)

    def mat_tile(self, col, reps, st, node):
        if isinstance(col, VList) and col.nd and col.width is None and isinstance(reps, VTuple) and len(reps.items) == 2 and const_int(as_int(reps.items[1])) == 1:
            # np.tile(v, (n, 1)): n copies of the row v
            c = st.heap.lists[col.ref]
            if c.etype not in _SORT:
                return None
            n = as_int(reps.items[0])
            self.oblige(st, 'pre', 'np.tile.non-negative-repetitions', n >= 0, node, raises='ValueError')
            self.used('rank-2 arrays (pyvc/mat.py)')
            m = self.new_mat(st, c.etype, n, c.length, 'tile')
            md = self.mcell(m, st)[3]
            s, j = z3.Int(fresh_name('s')), z3.Int(fresh_name('j'))
            st.assume(z3.ForAll([s, j], z3.Implies(self._rng(s, j, n, c.length), md[s][j] == c.leaves[0][j])))
            return m
        if not (isinstance(col, VCol) and isinstance(reps, VTuple) and len(reps.items) == 2 and const_int(as_int(reps.items[0])) == 1):
            return None
        c = st.heap.lists[col.lst.ref]
        w = as_int(reps.items[1])
        self.oblige(st, 'pre', 'np.tile.non-negative-repetitions', w >= 0, node, raises='ValueError')
        m = self.new_mat(st, c.etype, c.length, w, 'tile')
        _, n, _, data = self.mcell(m, st)
        s, j = z3.Int(fresh_name('s')), z3.Int(fresh_name('j'))
        st.assume(z3.ForAll([s, j], z3.Implies(self._rng(s, j, n, w), data[s][j] == c.leaves[0][s])))
        return m

    # ---- indexing ---------------------------------------------------------------------------------------------------
    @staticmethod
    def _is_ellipsis(e):
        return isinstance(e, ast.Constant) and e.value is Ellipsis

    @staticmethod
    def _full(e):
        return isinstance(e, ast.Slice) and e.lower is None and e.upper is None and e.step is None

    def mat_subscript_ast(self, m, sl_node, st, node):
        """M[:, a:b] / M[:, a:b, ...]"""
        if m.flat:
            raise Unsupported('indexing a flattened matrix')
        elts = list(sl_node.elts) if isinstance(sl_node, ast.Tuple) else None
        if elts and len(elts) == 3 and m.depth is not None and self._full(elts[1]) and self._full(elts[2]) and not isinstance(elts[0], ast.Slice):
            # A[i, :, :] of a rank-3 array: block i (its w opaque rows)
            i_ = as_int(self.ev(elts[0], st))
            et_, n_, w_, data_ = self.mcell(m, st)
            self.oblige(st, 'index', 'block-index-in-range', z3.And(i_ >= -n_, i_ < n_), node, raises='IndexError')
            return self.rag_row(m, z3.If(i_ < 0, i_ + n_, i_), st)
        if elts and len(elts) == 2 and (self._full(elts[0]) or self._is_ellipsis(elts[0])) and not isinstance(elts[1], ast.Slice) and not self._is_ellipsis(elts[1]):
            v_ = self.ev(elts[1], st)
            if isinstance(v_, VList):
                return self.mat_select_cols(m, v_, st, node)
        if elts and self._is_ellipsis(elts[-1]):
            elts = elts[:-1]
        if not elts or len(elts) != 2 or not self._full(elts[0]) or not isinstance(elts[1], ast.Slice) or elts[1].step is not None:
            raise Unsupported('matrix index other than M[:, a:b]')
        et, n, w, data = self.mcell(m, st)
        lo = as_int(self.ev(elts[1].lower, st)) if elts[1].lower is not None else I(0)
        hi = as_int(self.ev(elts[1].upper, st)) if elts[1].upper is not None else w
        # Python slice normalisation of the column bounds
        nlo = z3.If(lo < 0, zmax(lo + w, I(0)), z3.If(lo > w, w, lo))
        nhi = z3.If(hi < 0, zmax(hi + w, I(0)), z3.If(hi > w, w, hi))
        nw = zmax(nhi - nlo, I(0))
        if z3.is_int_value(z3.simplify(nlo)) and z3.simplify(nlo).as_long() == 0:
            return self.new_mat(st, et, n, z3.simplify(nw), data=data, depth=m.depth)     # leading columns: same cells
        r = self.new_mat(st, et, n, z3.simplify(nw), 'cols', depth=m.depth)
        _, _, _, rd = self.mcell(r, st)
        s, j = z3.Int(fresh_name('s')), z3.Int(fresh_name('j'))
        st.assume(z3.ForAll([s, j], z3.Implies(self._rng(s, j, n, nw), rd[s][j] == data[s][j + nlo])))
        return r

    def mat_gather_rows(self, m, idx, st, node):
        """M[index_array]: row i of the result is row index_array[i] of M (negative indices count from the end)"""
        if m.flat:
            raise Unsupported('indexing a flattened matrix')
        et, n, w, data = self.mcell(m, st)
        c = st.heap.lists[idx.ref]
        if c.etype is None:
            return self.new_mat(st, et, I(0), w, 'rows', depth=m.depth)
        if c.etype != 'int':
            raise Unsupported('matrix rows indexed by a non-integer array')
        self.used('M[index_array] row gather')
        X = c.leaves[0]
        i = z3.Int(fresh_name('i'))
        self.oblige(st, 'index', 'row-indices-in-range', z3.ForAll([i], z3.Implies(z3.And(i >= 0, i < c.length), z3.And(X[i] >= -n, X[i] < n))), node, raises='IndexError')
        r = self.new_mat(st, et, c.length, w, 'rows', depth=m.depth)
        _, _, _, rd = self.mcell(r, st)
        st.assume(z3.ForAll([i], z3.Implies(z3.And(i >= 0, i < c.length), rd[i] == data[z3.If(X[i] < 0, X[i] + n, X[i])])))
        return r

    def list_gather_by_matrix(self, base, m, st, node):
        """x[M] for a 1-D array x and an integer index matrix M (also a flattened view of one): the result has M's shape and holds
        x[M[s, j]] at (s, j); negative indices count from the end; every index must lie in [-len(x), len(x))"""
        et, n, w, data = self.mcell(m, st)
        if et != 'int' or m.depth is not None:
            raise Unsupported('1-D array indexed by a non-integer / rank-3 array')
        cb = self.acell(base, st)
        if cb.etype is None or len(cb.leaves) != 1:
            raise Unsupported('gather from an untyped / tuple list by an index matrix')
        self.used('x[index matrix] elementwise gather (negative indices wrap)')
        N, X = cb.length, cb.leaves[0]
        s, c = z3.Int(fresh_name('s')), z3.Int(fresh_name('c'))
        self.oblige(st, 'index', 'gather-indices-in-range', z3.ForAll([s, c], z3.Implies(self._rng(s, c, n, w), z3.And(data[s][c] >= -N, data[s][c] < N))), node, raises='IndexError')
        r = self.new_mat(st, cb.etype, n, w, 'gathered', flat=m.flat)
        rd = self.mcell(r, st)[3]
        s2, c2 = z3.Int(fresh_name('s')), z3.Int(fresh_name('c'))
        fact = z3.ForAll([s2, c2], z3.Implies(self._rng(s2, c2, n, w), rd[s2][c2] == X[z3.If(data[s2][c2] < 0, data[s2][c2] + N, data[s2][c2])]))
        try:
            fact._label = 'theory:index'
        except Exception:
            pass
        st.assume(fact)
        return r

    def mat_colreduce(self, m, is_max, st, node):
        """M.max(axis=0) / M.min(axis=0): per column, a value attained in that column that bounds the whole column"""
        et, n, w, data = self.mcell(m, st)
        self.oblige(st, 'pre', 'reduction-over-at-least-one-row', n >= 1, node, raises='ValueError')
        self.used('M.max(axis=0) / M.min(axis=0) (column extremes)')
        r, leaves = self.new_arr(st, et, w, 'colmax' if is_max else 'colmin')
        R = leaves[0]
        at = z3.Function(fresh_name('ext_at'), z3.IntSort(), z3.IntSort())
        s, c = z3.Int(fresh_name('s')), z3.Int(fresh_name('c'))
        st.assume(z3.ForAll([s, c], z3.Implies(self._rng(s, c, n, w), (R[c] >= data[s][c]) if is_max else (R[c] <= data[s][c]))))
        st.assume(z3.ForAll([c], z3.Implies(z3.And(c >= 0, c < w), z3.And(at(c) >= 0, at(c) < n, R[c] == data[at(c)][c]))))
        return r

    def mat_abs(self, m, st, node):
        et, n, w, data = self.mcell(m, st)
        if m.flat or m.depth is not None or et not in ('int', 'real'):
            return None
        self.used('np.abs on a matrix (elementwise)')
        r = self.new_mat(st, et, n, w, 'abs')
        rd = self.mcell(r, st)[3]
        s, c = z3.Int(fresh_name('s')), z3.Int(fresh_name('c'))
        st.assume(z3.ForAll([s, c], z3.Implies(self._rng(s, c, n, w), rd[s][c] == z3.If(data[s][c] >= 0, data[s][c], -data[s][c]))))
        return r

    def mat_select_cols(self, m, sel_v, st, node):
        """M[:, mask] (boolean vector: order-preserving column selection, same enumeration as x[mask]) / M[:, idx] (column gather)"""
        et, n, w, data = self.mcell(m, st)
        if m.flat or m.depth is not None:
            raise Unsupported('column selection on a flattened / rank-3 array')
        ci = st.heap.lists[sel_v.ref]
        s, j = z3.Int(fresh_name('s')), z3.Int(fresh_name('j'))
        if ci.etype == 'bool':
            self.used('M[:, mask]: order-preserving column selection (same ghost enumeration as x[mask])')
            self.oblige(st, 'index', 'mask-same-length', ci.length == w, node, raises='IndexError')
            M_ = ci.leaves[0]
            cnt, sel, inv, ax = self.mask_maps(M_, w, lambda i_: M_[i_], st)
            if not any(t is ax for t in st.pc):
                st.pc.append(ax)
            r = self.new_mat(st, et, n, cnt, 'cols')
            rd = self.mcell(r, st)[3]
            st.assume(z3.ForAll([s, j], z3.Implies(self._rng(s, j, n, cnt), rd[s][j] == data[s][sel(j)])))
            return r
        if ci.etype == 'int' or ci.etype is None:
            self.used('M[:, idx]: column gather')
            if ci.etype is None:
                return self.new_mat(st, et, n, I(0), 'cols')
            X = ci.leaves[0]
            self.oblige(st, 'index', 'column-indices-in-range', z3.ForAll([j], z3.Implies(z3.And(j >= 0, j < ci.length), z3.And(X[j] >= 0, X[j] < w))), node, raises='IndexError')
            r = self.new_mat(st, et, n, ci.length, 'cols')
            rd = self.mcell(r, st)[3]
            st.assume(z3.ForAll([s, j], z3.Implies(self._rng(s, j, n, ci.length), rd[s][j] == data[s][X[j]])))
            return r
        raise Unsupported('column selection by %r' % (ci.etype,))

    def mat_set_rows(self, m, idx, val, st, tgt):
        """M[idx, ...] = V with idx a full slice or an index array: whole rows are replaced"""
        et, n, w, data = self.mcell(m, st)
        if not isinstance(val, VMat) or m.flat or val.flat or (m.depth is None) != (val.depth is None):
            return False
        vt, vn, vw, vd = self.mcell(val, st)
        if vt != et:
            return False
        same = z3.And(vw == w, m.depth == val.depth) if m.depth is not None else (vw == w)
        if isinstance(idx, VSlice):
            if not all(isinstance(x, VNone) for x in (idx.start, idx.stop, idx.step)):
                return False
            self.oblige(st, 'pre', 'row-assignment.shapes-agree', z3.And(vn == n, same), tgt, raises='ValueError')
            st.heap.rags[m.ref] = RagCell(et, n, z3.K(z3.IntSort(), w), vd)
            return True
        if not isinstance(idx, VList):
            return False
        c = st.heap.lists[idx.ref]
        if c.etype is None:
            self.oblige(st, 'pre', 'row-assignment.shapes-agree', z3.And(vn == 0, same), tgt, raises='ValueError')
            return True
        if c.etype != 'int':
            return False
        self.used('M[index_array, ...] = V row scatter (one writer wins on repeated indices)')
        X = c.leaves[0]
        i, r = z3.Int(fresh_name('i')), z3.Int(fresh_name('r'))
        self.oblige(st, 'pre', 'row-assignment.shapes-agree', z3.And(vn == c.length, same), tgt, raises='ValueError')
        self.oblige(st, 'index', 'row-assignment.indices-in-range', z3.ForAll([i], z3.Implies(z3.And(i >= 0, i < c.length), z3.And(X[i] >= 0, X[i] < n))), tgt, raises='IndexError')
        nd = z3.Array(fresh_name('rowset.rows'), z3.IntSort(), z3.ArraySort(z3.IntSort(), _SORT[et]))
        hit = z3.Function(fresh_name('row_written'), z3.IntSort(), z3.BoolSort())
        wr = z3.Function(fresh_name('row_writer'), z3.IntSort(), z3.IntSort())
        st.assume(z3.ForAll([i], z3.Implies(z3.And(i >= 0, i < c.length), hit(X[i]))))
        st.assume(z3.ForAll([r], z3.Implies(z3.And(r >= 0, r < n, hit(r)), z3.And(wr(r) >= 0, wr(r) < c.length, X[wr(r)] == r, nd[r] == vd[wr(r)]))))
        st.assume(z3.ForAll([r], z3.Implies(z3.And(r >= 0, r < n, z3.Not(hit(r))), nd[r] == data[r])))
        st.heap.rags[m.ref] = RagCell(et, n, z3.K(z3.IntSort(), w), nd)
        return True

    def mat_setitem(self, m, tgt, val, st):
        et, n, w, data = self.mcell(m, st)
        sl = tgt.slice
        s, j = z3.Int(fresh_name('s')), z3.Int(fresh_name('j'))
        if isinstance(sl, ast.Tuple):
            elts = list(sl.elts)
            if elts and self._is_ellipsis(elts[-1]):
                elts = elts[:-1]
            if len(elts) == 3 and m.depth is not None and self._full(elts[1]) and not isinstance(elts[0], ast.Slice):
                i0_ = self.ev(elts[0], st)
                if isinstance(i0_, VInt) and self._full(elts[2]) and isinstance(val, VList):
                    elts = [elts[0]]          # A[i, :, :] = block: the same as A[i] = block
                elif isinstance(i0_, VInt) and not isinstance(elts[2], ast.Slice):
                    # A[i, :, ids] = X: in block i, the columns ids of every row are replaced; rows are opaque: row' = set_cols(row, ids, X, s)
                    ids_ = self.ev(elts[2], st)
                    self.used('A[i, :, ids] = X (column update of one block; opaque row-wise operation set_cols)')
                    self.oblige(st, 'index', 'block-index-in-range', z3.And(i0_.t >= 0, i0_.t < n), tgt, raises='IndexError')
                    SC = z3.Function('set_cols', Elem, Elem, Elem, z3.IntSort(), Elem)
                    idt = flatten('elem', ids_)[0] if isinstance(ids_, (VElem, VNone)) else z3.Const(fresh_name('ids'), Elem)
                    vt = flatten('elem', val)[0] if isinstance(val, (VElem, VNone)) else z3.Const(fresh_name('val'), Elem)
                    newrow = z3.Array(fresh_name('blk.rows'), z3.IntSort(), Elem)
                    s_ = z3.Int(fresh_name('s'))
                    st.assume(z3.ForAll([s_], z3.Implies(z3.And(s_ >= 0, s_ < w), newrow[s_] == SC(data[i0_.t][s_], idt, vt, s_))))
                    st.heap.rags[m.ref] = RagCell(et, n, z3.K(z3.IntSort(), w), z3.Store(data, i0_.t, newrow))
                    return True
            if len(elts) == 1:
                i0_ = self.ev(elts[0], st)
                if isinstance(i0_, VInt) and isinstance(val, VList):
                    # M[i, ...] = block: the same as M[i] = block
                    cv = st.heap.lists[val.ref]
                    if cv.etype != et:
                        raise Unsupported('row assignment of %s values into a %s array' % (cv.etype, et))
                    self.used('M[i] = block (row / block assignment)')
                    self.oblige(st, 'index', 'row-index-in-range', z3.And(i0_.t >= 0, i0_.t < n), tgt, raises='IndexError')
                    self.oblige(st, 'pre', 'row-assignment.same-length', cv.length == w, tgt, raises='ValueError')
                    st.heap.rags[m.ref] = RagCell(et, n, z3.K(z3.IntSort(), w), z3.Store(data, i0_.t, cv.leaves[0]))
                    return True
                return self.mat_set_rows(m, i0_, val, st, tgt)
            if len(elts) != 2:
                return False
            X, C = self.ev(elts[0], st), self.ev(elts[1], st)
            if not (isinstance(X, VMat) and isinstance(C, VMat) and isinstance(val, VMat)) or m.flat or X.flat or C.flat or val.flat:
                return False
            _, xn, xw, xd = self.mcell(X, st)
            _, cn, cw, cd = self.mcell(C, st)
            vt, vn, vw, vd = self.mcell(val, st)
            if vt != et or (m.depth is None) != (val.depth is None):
                raise Unsupported('scatter of %s values into a %s matrix' % (vt, et))
            if m.depth is not None:
                self.oblige(st, 'pre', 'scatter.trailing-dimension-agrees', m.depth == val.depth, tgt, raises='ValueError')
            self.used('out[X, C] = D scatter with index matrices (one writer wins on collisions)')
            self.oblige(st, 'pre', 'scatter.index-and-value-shapes-agree', z3.And(xn == cn, xw == cw, xn == vn, xw == vw), tgt, raises='IndexError')
            self.oblige(st, 'index', 'scatter.row-indices-in-range', z3.ForAll([s, j], z3.Implies(self._rng(s, j, xn, xw), z3.And(xd[s][j] >= 0, xd[s][j] < n))), tgt, raises='IndexError')
            self.oblige(st, 'index', 'scatter.column-indices-in-range', z3.ForAll([s, j], z3.Implies(self._rng(s, j, xn, xw), z3.And(cd[s][j] >= 0, cd[s][j] < w))), tgt, raises='IndexError')
            nd = z3.Array(fresh_name('scatter.rows'), z3.IntSort(), z3.ArraySort(z3.IntSort(), _SORT[et]))
            ws = z3.Function(fresh_name('writer_s'), z3.IntSort(), z3.IntSort(), z3.IntSort())
            wj = z3.Function(fresh_name('writer_j'), z3.IntSort(), z3.IntSort(), z3.IntSort())
            hit = z3.Function(fresh_name('written'), z3.IntSort(), z3.IntSort(), z3.BoolSort())
            r, k = z3.Int(fresh_name('r')), z3.Int(fresh_name('k'))
            # every source position marks its target cell as written
            st.assume(z3.ForAll([s, j], z3.Implies(self._rng(s, j, xn, xw), hit(xd[s][j], cd[s][j]))))
            # a written cell holds the value of one of its writers; an unwritten cell keeps its value
            st.assume(z3.ForAll([r, k], z3.Implies(z3.And(self._rng(r, k, n, w), hit(r, k)),
                                                   z3.And(self._rng(ws(r, k), wj(r, k), xn, xw), xd[ws(r, k)][wj(r, k)] == r, cd[ws(r, k)][wj(r, k)] == k,
                                                          nd[r][k] == vd[ws(r, k)][wj(r, k)]))))
            st.assume(z3.ForAll([r, k], z3.Implies(z3.And(self._rng(r, k, n, w), z3.Not(hit(r, k))), nd[r][k] == data[r][k])))
            st.heap.rags[m.ref] = RagCell(et, n, z3.K(z3.IntSort(), w), nd)
            return True
        if isinstance(sl, ast.Slice):
            if self._full(sl) and m.depth is not None and isinstance(val, VFunc) and val.name == 'np.nan':
                # M[:] = np.nan: every cell becomes the all-NaN vector
                self.used('M[:] = np.nan fills every cell')
                st.heap.rags[m.ref] = RagCell(et, n, z3.K(z3.IntSort(), w), z3.K(z3.IntSort(), z3.K(z3.IntSort(), NAN_CELL(m.depth))))
                return True
            return False
        idx = self.ev(sl, st)
        if isinstance(idx, VInt) and isinstance(val, VList) and not m.flat:
            # M[i] = v: the whole row i (for a rank-3 array: the (w, p) block i, given as w opaque rows)
            cv = st.heap.lists[val.ref]
            if cv.etype != et:
                raise Unsupported('row assignment of %s values into a %s array' % (cv.etype, et))
            i_ = idx.t
            self.used('M[i] = block (row / block assignment)')
            self.oblige(st, 'index', 'row-index-in-range', z3.And(i_ >= 0, i_ < n), tgt, raises='IndexError')
            self.oblige(st, 'pre', 'row-assignment.same-length', cv.length == w, tgt, raises='ValueError')
            st.heap.rags[m.ref] = RagCell(et, n, z3.K(z3.IntSort(), w), z3.Store(data, i_, cv.leaves[0]))
            return True
        if isinstance(idx, VMatMask):
            if not (idx.data.eq(data)):
                raise Unsupported('mask computed from another (or an older) matrix')
            if et == 'int':
                v = as_int(val)
            elif et == 'real':
                v = as_real(val)
            else:
                return False
            self.used('M[mask] = scalar (elementwise)')
            nd = z3.Array(fresh_name('masked.rows'), z3.IntSort(), z3.ArraySort(z3.IntSort(), _SORT[et]))
            st.assume(z3.ForAll([s, j], z3.Implies(self._rng(s, j, n, w), nd[s][j] == z3.If(idx.pred(data[s][j]), v, data[s][j]))))
            st.heap.rags[m.ref] = RagCell(et, n, z3.K(z3.IntSort(), w), nd)
            return True
        return False
