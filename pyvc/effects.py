"""Effect / frame checker (DESIGN 2.6): "creates nothing except ..., leaves every pre-existing file byte-identical".

For an entry point (e.g. phylib/io/model.py::load_model) the checker walks the REAL source reachable from it through the phylib call graph
(re-read from /repo on every run) and classifies EVERY call expression:
  * write primitive (closed list below)      -> the written path expression must match the frame declared in the contract
  * call of another phylib function            -> analysed in turn (same rules)
  * call on the pure list (A-PURE)             -> no effect
  * anything else                              -> obligation fails ("unclassified call"): nothing is silently assumed pure
Each classified call site is one obligation; the back end is this syntactic walker ("effects-walker"), not an SMT solver.
This decides the frame for ALL inputs and configurations under: A-PURE (the pure list, printed in the evidence), A-FS (distinct path
expressions name distinct files; no hard/symbolic links are created: os.link / os.symlink are themselves forbidden primitives)."""
import ast, os, re
from . import front

# ---- write primitives: name -> index of the path argument(s) --------------------------------------------------------------
WRITE_PRIMS = {
    'np.save': [0], 'np.savez': [0], 'np.savetxt': [0], 'write_array': [0], 'np.memmap': [0],
    'shutil.copy': [1], 'shutil.copyfile': [1], 'shutil.copy2': [1], 'shutil.move': [0, 1], 'shutil.rmtree': [0], 'shutil.copytree': [1],
    'os.remove': [0], 'os.unlink': [0], 'os.rename': [0, 1], 'os.replace': [0, 1], 'os.makedirs': [0], 'os.mkdir': [0], 'os.rmdir': [0],
    'joblib.dump': [1], 'dump': [1], 'sio.savemat': [0],
}
FORBIDDEN = {'os.link', 'os.symlink', 'os.system', 'subprocess.call', 'subprocess.run', 'subprocess.Popen', 'exec', 'eval'}
WRITE_METHODS = {'write_text', 'write_bytes', 'unlink', 'rename', 'replace', 'mkdir', 'rmdir', 'touch', 'tofile', 'symlink_to', 'hardlink_to', 'link_to'}
# pure: by dotted prefix / bare name / method name (A-PURE)
PURE_PREFIX = ('np.', 'numpy.', 'logger.', 'logging.', 'op.', 'os.path.', 'math.', 'mp.', 'uuid.', 'ast.', 'sio.loadmat', 'scipy.', 'hashlib.', 're.', 'json.loads', 'base64.', 'csv.reader', 'csv.writer', 'itertools.')
PURE_NAMES = {'len', 'int', 'float', 'str', 'list', 'dict', 'set', 'tuple', 'sorted', 'isinstance', 'getattr', 'hasattr', 'range', 'zip', 'enumerate', 'map', 'sum', 'min', 'max', 'abs',
              'any', 'all', 'print', 'Path', 'Bunch', 'next', 'iter', 'reversed', 'round', 'bool', 'type', 'super', 'repr', 'format', 'itemgetter', 'partial', 'ceil', 'floor', 'reduce',
              'block_diag', 'tqdm', 'slice', 'IOError', 'ValueError', 'NotImplementedError', 'RuntimeError', 'AssertionError', 'Exception', 'KeyError', 'linear_positions', 'dedent',
              '_is_integer', '_as_array', '_as_scalar', '_as_scalars', 'filter', 'id', 'vars'}
PURE_METHODS = {'exists', 'glob', 'resolve', 'is_symlink', 'is_dir', 'is_file', 'stat', 'with_suffix', 'joinpath', 'read_text', 'read_bytes', 'iterdir', 'absolute', 'relative_to', 'samefile',
                'squeeze', 'astype', 'reshape', 'flatten', 'ravel', 'transpose', 'copy', 'max', 'min', 'sum', 'mean', 'any', 'all', 'argmax', 'argmin', 'tolist', 'item', 'tobytes', 'view',
                'items', 'keys', 'values', 'get', 'pop', 'update', 'append', 'extend', 'index', 'format', 'split', 'join', 'strip', 'lower', 'upper', 'startswith', 'endswith', 'decode', 'encode',
                'isdigit', 'isdecimal', 'replace_', 'debug', 'info', 'warning', 'error', 'log', 'setdefault', 'sort', 'insert', 'remove', 'count', 'add', 'union', 'difference',
                'close', 'flush', 'read', 'readline', 'seek', 'tell', 'hexdigest', 'from_bytes', 'iter_chunks', 'start_thread_pool', 'stop_thread_pool', 'set_cache_size', 'decompress_chunks',
                'group', 'match', 'choice', 'cumsum', 'dot', 'swapaxes', 'fill', 'clip', 'nonzero', 'writerow', 'writerows', 'lstrip', 'rstrip', 'rsplit', 'zfill', 'ljust', 'clear',
                'write', 'writelines', 'is_complete', 'increment', 'set_progress_message', 'set_complete_message', 'set_complete', 'iter_content', 'raise_for_status', '__getitem__'}


def dotted(node):
    if isinstance(node, ast.Name):
        return node.id
    if isinstance(node, ast.Attribute):
        b = dotted(node.value)
        return (b + '.' + node.attr) if b else None
    return None


def norm(node):
    try:
        return ' '.join(ast.unparse(node).split())
    except Exception:
        return '<expr>'


class Walker:
    def __init__(self, receivers=None, extra_pure=(), dynamic=None, allow=()):
        self.dynamic = dynamic or {}            # callee text -> list of (file, qualname) it may stand for (dynamic dispatch made explicit by the contract)
        self.allow = set(allow)                 # (function qualname, primitive) pairs accepted with a stated assumption
        self.receivers = receivers or {}        # 'self.model' -> ('phylib/io/model.py', 'TemplateModel') : static receiver types given by the contract
        self.extra_pure = set(extra_pure)
        self.sites = []                         # classified call sites
        self.writes = []                        # (file, qual, line, prim, path expr text, guard text)
        self.unclassified = []
        self.visited = set()
        self.functions = []
        self.wrappers = {}

    # -- symbol resolution ---------------------------------------------------------------------------------------------
    def module_index(self, relpath):
        src, tree = front.parse_module(relpath)
        funcs, classes, imports = {}, {}, {}
        for n in tree.body:
            if isinstance(n, ast.FunctionDef):
                funcs[n.name] = n
            elif isinstance(n, ast.ClassDef):
                classes[n.name] = {m.name: m for m in n.body if isinstance(m, ast.FunctionDef)}
                classes[n.name]['__bases__'] = [b.id for b in n.bases if isinstance(b, ast.Name)]
            elif isinstance(n, ast.ImportFrom) and n.module:
                mod = n.module
                if n.level:      # relative import inside phylib/io or phylib/utils
                    base = os.path.dirname(relpath)
                    for _ in range(n.level - 1):
                        base = os.path.dirname(base)
                    path = os.path.join(base, mod.replace('.', '/') + '.py')
                elif mod.startswith('phylib'):
                    path = mod.replace('.', '/') + '.py'
                    if not os.path.exists(os.path.join(front.REPO, path)):
                        path = mod.replace('.', '/') + '/__init__.py'
                else:
                    path = None
                for a in n.names:
                    imports[a.asname or a.name] = (path, a.name)
        return funcs, classes, imports

    def resolve(self, relpath, cls, name):
        """(file, qualname, FunctionDef) of a phylib function called as bare `name` or `self.name` in (relpath, cls)"""
        funcs, classes, imports = self.module_index(relpath)
        if cls and name.startswith('self.') and name.count('.') == 1:
            m = name.split('.')[1]
            c = cls
            seen = set()
            while c and c not in seen:
                seen.add(c)
                if c in classes and m in classes[c]:
                    return relpath, '%s.%s' % (c, m), classes[c][m]
                c = (classes.get(c, {}).get('__bases__') or [None])[0]
            return None
        if '.' not in name:
            if name in funcs:
                return relpath, name, funcs[name]
            if name in classes and '__init__' in classes[name]:
                return relpath, '%s.__init__' % name, classes[name]['__init__']
            if name in imports and imports[name][0]:
                path, orig = imports[name]
                if path.endswith('__init__.py'):
                    # re-exported name: look it up in the package's own imports
                    f2, c2, i2 = self.module_index(path)
                    if orig in i2 and i2[orig][0]:
                        return self.resolve(i2[orig][0], None, i2[orig][1])
                    return None
                return self.resolve(path, None, orig)
        return None

    # -- walking ---------------------------------------------------------------------------------------------------------------
    def walk(self, relpath, qual, outer_guard=''):
        key = (relpath, qual)
        if key in self.visited:
            return
        self.visited.add(key)
        fn, seg, sha, span = front.find_function(relpath, qual)
        self.functions.append({'function': '%s::%s' % (relpath, qual), 'sha256': sha, 'lines': list(span)})
        cls = qual.split('.')[0] if '.' in qual else None
        params = [a.arg for a in fn.args.args if a.arg != 'self'] + [a.arg for a in fn.args.kwonlyargs]
        self._ctx = (fn, params)
        writable_vars = {}      # name -> path expr text, for arrays opened through a writable memory map
        guards = [outer_guard] if outer_guard else []

        def guard_text():
            return ' and '.join(guards)

        def visit(node):
            if isinstance(node, (ast.FunctionDef, ast.Lambda)) and node is not fn:
                for ch in ast.iter_child_nodes(node):
                    visit(ch)
                return
            if isinstance(node, ast.If):
                visit(node.test)
                guards.append(norm(node.test))
                for s in node.body:
                    visit(s)
                guards.pop()
                guards.append('not (%s)' % norm(node.test))
                for s in node.orelse:
                    visit(s)
                guards.pop()
                return
            if isinstance(node, ast.Try):
                for s in node.body:
                    visit(s)
                for h in node.handlers:
                    guards.append('except %s' % (norm(h.type) if h.type is not None else 'BaseException'))
                    for s in h.body:
                        visit(s)
                    guards.pop()
                for s in node.orelse + node.finalbody:
                    visit(s)
                return
            if isinstance(node, ast.Assign) and isinstance(node.value, ast.Call):
                w = self.writable_open(node.value)
                if w is not None:
                    for t in node.targets:
                        if isinstance(t, ast.Name):
                            writable_vars[t.id] = w
            if isinstance(node, (ast.Assign, ast.AugAssign)):
                targets = node.targets if isinstance(node, ast.Assign) else [node.target]
                for t in targets:
                    if isinstance(t, ast.Subscript):
                        b = t.value
                        while isinstance(b, ast.Subscript):
                            b = b.value
                        if isinstance(b, ast.Name) and b.id in writable_vars:
                            self.writes.append({'file': relpath, 'function': qual, 'line': node.lineno, 'primitive': 'store through writable memory map', 'path': writable_vars[b.id], 'guard': guard_text()})
            if isinstance(node, ast.With):
                for item in node.items:
                    if isinstance(item.context_expr, ast.Call):
                        self.classify(item.context_expr, relpath, qual, cls, guard_text())
            if isinstance(node, ast.Call):
                self.classify(node, relpath, qual, cls, guard_text())
            for ch in ast.iter_child_nodes(node):
                visit(ch)
        for s in fn.body:
            visit(s)

    def path_text(self, node, line):
        """text of a path expression; a bare local name is replaced by the right-hand side of its nearest preceding assignment"""
        fn, params = self._ctx
        if isinstance(node, ast.Name) and node.id not in params:
            best = None
            for n in ast.walk(fn):
                if isinstance(n, ast.Assign) and n.lineno < line and any(isinstance(t, ast.Name) and t.id == node.id for t in n.targets):
                    if best is None or n.lineno > best.lineno:
                        best = n
            if best is not None:
                return norm(best.value)
            for n in ast.walk(fn):
                if isinstance(n, (ast.For, ast.comprehension)) and isinstance(n.target, ast.Name) and n.target.id == node.id:
                    return 'for-each(%s)' % norm(n.iter)
        return norm(node)

    def root_param(self, node):
        """name of the single parameter a path expression is built from (path.parent, path / 'x', Path(path)), else None"""
        fn, params = self._ctx
        names = {n.id for n in ast.walk(node) if isinstance(n, ast.Name)}
        hit = [p_ for p_ in params if p_ in names]
        local = {n_ for n_ in names if n_ not in params and n_ not in ('Path', 'str', 'op', 'os')}
        return hit[0] if len(hit) == 1 and not local else None

    def add_write(self, relpath, qual, line, prim, node, guard):
        fn, params = self._ctx
        txt = self.path_text(node, line)
        rec = {'file': relpath, 'function': qual, 'line': line, 'primitive': prim, 'path': txt, 'guard': guard}
        rp = self.root_param(node)
        if rp is not None:
            # the function only forwards (a path derived from) a path it was given: the write is attributed to its call sites
            self.wrappers.setdefault((relpath, qual), []).append((params.index(rp), rp, prim, norm(node)))
            rec['forwarded_param'] = rp
        self.writes.append(rec)

    def writable_open(self, call):
        """path text if the call opens a writable memory map (np.load / _read_array / np.memmap with a writable mode)"""
        name = dotted(call.func) or ''
        modes = [k for k in call.keywords if k.arg in ('mmap_mode', 'mode')]
        if modes and isinstance(modes[0].value, ast.Constant) and modes[0].value.value in ('r+', 'w+'):
            if name in ('np.load', 'self._read_array', 'read_array', 'np.memmap', '_memmap_flat') and call.args:
                return norm(call.args[0])
        return None

    def call_target(self, target, call, relpath, qual, line, guard):
        saved = self._ctx
        self.walk(target[0], target[1], guard)
        self._ctx = saved
        for idx, pname, prim, template in list(self.wrappers.get(target, [])):
            arg = None
            if idx < len(call.args) and not any(isinstance(a, ast.Starred) for a in call.args[:idx + 1]):
                arg = call.args[idx]
            for k in call.keywords:
                if k.arg == pname:
                    arg = k.value
            if arg is not None:
                if template == pname:
                    self.add_write(relpath, qual, line, '%s via %s' % (prim, target[1]), arg, guard)
                else:
                    # path derived from the forwarded parameter: substitute the caller's argument expression
                    try:
                        sub = ast.parse(re.sub(r'\b%s\b' % re.escape(pname), '(' + self.path_text(arg, line).replace('\\', '\\\\') + ')', template), mode='eval').body
                    except SyntaxError:
                        sub = arg
                    self.add_write(relpath, qual, line, '%s via %s' % (prim, target[1]), sub, guard)
            else:
                self.unclassified.append({'file': relpath, 'function': qual, 'line': line, 'call': target[1], 'class': 'UNCLASSIFIED (path argument of a write wrapper not found)'})

    def classify(self, call, relpath, qual, cls, guard):
        name = dotted(call.func)
        line = call.lineno
        site = {'file': relpath, 'function': qual, 'line': line, 'call': name or norm(call.func)[:60]}
        if name is None and isinstance(call.func, ast.Attribute) and isinstance(call.func.value, ast.Call) and dotted(call.func.value.func) == 'super':
            funcs, classes, imports = self.module_index(relpath)
            base = (classes.get(cls, {}).get('__bases__') or ['object'])[0] if cls else 'object'
            r = self.resolve(relpath, base, 'self.' + call.func.attr) if base != 'object' else None
            site['class'] = ('phylib call -> %s::%s' % (r[0], r[1])) if r else 'pure (object.%s)' % call.func.attr
            self.sites.append(site)
            if r:
                self.call_target((r[0], r[1]), call, relpath, qual, line, guard)
            return
        if name is None:
            # call of a computed callee, e.g. getattr(np, 'is' + w)(out), self.get_spikes_per_cluster(cluster), f(arg)
            f = call.func
            if isinstance(f, ast.Call) and dotted(f.func) == 'getattr' and f.args and dotted(f.args[0]) in ('np', 'arr'):
                site['class'] = 'pure (numpy attribute)'
            elif isinstance(f, ast.Attribute) and f.attr in PURE_METHODS:
                site['class'] = 'pure method (A-PURE)'
            elif isinstance(f, ast.Attribute) and f.attr in WRITE_METHODS:
                site['class'] = 'write'
                self.add_write(relpath, qual, line, '.' + f.attr, f.value, guard)
            else:
                site['class'] = 'UNCLASSIFIED'
                self.unclassified.append(site)
            self.sites.append(site)
            return
        if name in FORBIDDEN:
            if (qual, name) in self.allow:
                site['class'] = 'allowed by stated assumption'
            else:
                site['class'] = 'FORBIDDEN primitive'
                self.unclassified.append(site)
            self.sites.append(site)
            return
        if name in self.dynamic:
            site['class'] = 'dynamic call -> ' + ', '.join('%s::%s' % t for t in self.dynamic[name])
            self.sites.append(site)
            for t in self.dynamic[name]:
                self.call_target(t, call, relpath, qual, line, guard)
            return
        if name in self.extra_pure:
            site['class'] = 'pure (stated in the contract)'
            self.sites.append(site)
            return
        if name == 'open' or name.endswith('.open'):
            mode = None
            margs = call.args[1:] if name == 'open' else call.args
            if margs and isinstance(margs[0], ast.Constant):
                mode = margs[0].value
            for k in call.keywords:
                if k.arg == 'mode' and isinstance(k.value, ast.Constant):
                    mode = k.value.value
            if mode is None and (margs or any(k.arg == 'mode' for k in call.keywords)):
                site['class'] = 'UNCLASSIFIED (open with computed mode)'
                self.unclassified.append(site)
            elif mode is not None and any(ch in mode for ch in 'wax+'):
                site['class'] = 'write'
                self.add_write(relpath, qual, line, 'open(%r)' % mode, call.args[0] if name == 'open' else call.func.value, guard)
            else:
                site['class'] = 'pure (read-only open)'
            self.sites.append(site)
            return
        if name in WRITE_PRIMS:
            w = self.writable_open(call)
            if name == 'np.memmap' and w is None:
                site['class'] = 'pure (read-only memory map)'
            else:
                site['class'] = 'write'
                for i in WRITE_PRIMS[name]:
                    if i < len(call.args):
                        self.add_write(relpath, qual, line, name, call.args[i], guard)
            self.sites.append(site)
            return
        # receiver with a declared static type
        for recv, (rfile, rcls) in self.receivers.items():
            if name.startswith(recv + '.') and name.count('.') == recv.count('.') + 1:
                r = self.resolve(rfile, rcls, 'self.' + name.split('.')[-1])
                if r is not None:
                    site['class'] = 'phylib call -> %s::%s' % (r[0], r[1])
                    self.sites.append(site)
                    self.call_target((r[0], r[1]), call, relpath, qual, line, guard)
                    return
        r = self.resolve(relpath, cls, name)
        if r is not None:
            site['class'] = 'phylib call -> %s::%s' % (r[0], r[1])
            self.sites.append(site)
            self.call_target((r[0], r[1]), call, relpath, qual, line, guard)
            return
        last = name.split('.')[-1]
        if '.' in name and last in WRITE_METHODS:
            site['class'] = 'write'
            self.add_write(relpath, qual, line, '.' + last, call.func.value, guard)
        elif name.startswith(PURE_PREFIX) or name in PURE_NAMES or name in self.extra_pure or ('.' in name and last in PURE_METHODS) or name in ('self.__dict__.update',):
            site['class'] = 'pure (A-PURE)'
        else:
            site['class'] = 'UNCLASSIFIED'
            self.unclassified.append(site)
        self.sites.append(site)


def check_frame(entry, frame, receivers=None, extra_pure=(), dynamic=None, allow=(), must_precede=None):
    """entry = (file, qualname); frame = list of {'path': regex over the written path expression, 'guard': optional regex over the guard text,
    'what': text}.  Returns dict(obligations=[...], failed=[...], functions=[...], pure_list=...)"""
    w = Walker(receivers=receivers, extra_pure=extra_pure, dynamic=dynamic, allow=allow)
    w.walk(*entry)
    obligations, failed = [], []
    for s in w.sites:
        ok = not s['class'].startswith(('UNCLASSIFIED', 'FORBIDDEN'))
        name = 'effects.%s.%s@%s:%d.classified' % (entry[1], s['call'], os.path.basename(s['file']), s['line'])
        obligations.append({'name': name, 'ok': ok, 'detail': s})
        if not ok:
            failed.append({'name': name, 'detail': s})
    seen_w = set()
    for wr in w.writes:
        if wr.get('forwarded_param'):
            continue        # attributed to the call sites of this wrapper
        kw_ = (wr['file'], wr['line'], wr['primitive'], wr['path'])
        if kw_ in seen_w:
            continue
        seen_w.add(kw_)
        allowed = None
        for fr in frame:
            if re.fullmatch(fr['path'], wr['path']) and (not fr.get('guard') or re.search(fr['guard'], wr['guard'] or '')) \
                    and (not fr.get('function') or re.fullmatch(fr['function'], wr['function'])):
                allowed = fr
                break
        name = 'effects.%s.write@%s:%d.%s.in-frame' % (entry[1], os.path.basename(wr['file']), wr['line'], wr['primitive'])
        obligations.append({'name': name, 'ok': allowed is not None, 'detail': dict(wr, allowed_by=allowed['what'] if allowed else None)})
        if allowed is None:
            failed.append({'name': name, 'detail': wr})
    if must_precede:
        fn = front.find_function(*entry)[0]
        guard_line = None
        for n in ast.walk(fn):
            if isinstance(n, ast.If) and re.search(must_precede['test'], norm(n.test)) and any(isinstance(b, ast.Raise) and must_precede['raises'] in norm(b) for b in n.body):
                guard_line = n.lineno if guard_line is None else min(guard_line, n.lineno)
        first_effect = min([x['line'] for x in w.writes if x['function'] == entry[1]] +
                           [x['line'] for x in w.sites if x['function'] == entry[1] and x['class'].startswith(('phylib call', 'dynamic', 'write'))] + [10 ** 9])
        ok = guard_line is not None and guard_line < first_effect
        ob = {'name': 'effects.%s.refusing-guard-precedes-every-effect' % entry[1], 'ok': ok, 'detail': {'guard_line': guard_line, 'first_effect_line': first_effect, 'guard': must_precede}}
        obligations.append(ob)
        if not ok:
            failed.append({'name': ob['name'], 'detail': ob['detail']})
    return {'obligations': obligations, 'failed': failed, 'functions': w.functions,
            'n_sites': len(w.sites), 'n_writes': len(w.writes)}
