"""Expression evaluation of the pyvc executor: one evaluator for code expressions (parsed from /repo)
and specification expressions (contract strings).  Python semantics assumed are those of DESIGN 2.3:
mathematical ints, floor division / sign-of-divisor modulo, value semantics of `or`/`and`."""
import ast
import z3
from .values import *  # noqa
from .state import Fork, Unsupported, State


IS_EMPTY = z3.Function('is_empty', Elem, z3.BoolSort())
STRCAT = z3.Function('strcat', Elem, Elem, Elem)


def I(x):
    return x if z3.is_expr(x) else z3.IntVal(x)


def _floordiv(a, b):
    # floor(a/b) for b != 0 using z3's Euclidean division: for b>0 equal; for b<0: floor(a/b) = -ceil(a/(-b)) ... use identity floor(a/b) = ediv(a,b) if b>0 else -ediv(a,-b) - (1 if a % (-b) != 0 else 0)
    nb = -b
    return z3.If(b > 0, a / b, z3.If(a % nb == 0, -(a / nb), -(a / nb) - 1))


def py_mod(a, b):
    # Python: a - b*floor(a/b); sign of divisor.  z3 a % b is in [0, |b|).
    nb = -b
    return z3.If(b > 0, a % b, z3.If(a % nb == 0, z3.IntVal(0), (a % nb) - nb))


def zmin(a, b):
    return z3.If(a <= b, a, b)


def zmax(a, b):
    return z3.If(a >= b, a, b)


def is_num(v):
    return isinstance(v, (VInt, VReal, VBool))


def as_int(v):
    if isinstance(v, VInt):
        return v.t
    if isinstance(v, VBool):
        return z3.If(v.t, z3.IntVal(1), z3.IntVal(0))
    raise Unsupported('expected int, got %r' % (v,))


def as_real(v):
    if isinstance(v, VReal):
        return v.t
    if isinstance(v, (VInt, VBool)):
        return z3.ToReal(as_int(v))
    raise Unsupported('expected number, got %r' % (v,))


def const_int(t):
    t = z3.simplify(t)
    if z3.is_int_value(t):
        return t.as_long()
    return None


def _lab(t, name):
    try:
        if getattr(t, '_label', None) is None:
            t._label = name
    except Exception:
        pass
    return t


def _label_new(st, mark, name):
    for t_ in st.pc[mark:]:
        _lab(t_, name)


class Evaluator:
    """Mixin of Engine: expression evaluation."""

    # ---- truthiness ---------------------------------------------------------------------
    def truth(self, v, st):
        if isinstance(v, VBool):
            return v.t
        if isinstance(v, VInt):
            return v.t != 0
        if isinstance(v, VReal):
            return v.t != 0
        if isinstance(v, VNone):
            return z3.BoolVal(False)
        if isinstance(v, VStr):
            return z3.BoolVal(bool(v.s))
        if isinstance(v, VList) and v.nd:
            # numpy: truth value of an array with more than one element is ambiguous (ValueError); empty arrays are falsy
            cell = st.heap.lists[v.ref]
            self.oblige(st, 'truth', 'array-truth-value-unambiguous', cell.length <= 1, None, raises='ValueError')
            if cell.etype == 'bool':
                return z3.And(cell.length == 1, cell.leaves[0][0])
            if cell.etype == 'int':
                return z3.And(cell.length == 1, cell.leaves[0][0] != 0)
            raise Unsupported('truthiness of an array of %r' % (cell.etype,))
        if isinstance(v, VList):
            return st.heap.lists[v.ref].length > 0
        if isinstance(v, VTuple):
            return z3.BoolVal(len(v.items) > 0)
        if isinstance(v, VElem):
            # opaque objects are falsy iff None or "empty" (empty string / empty container): is_empty is uninterpreted
            return z3.And(v.t != NONE_ELEM, z3.Not(IS_EMPTY(v.t)))
        if isinstance(v, (VObj, VFunc, VSlice)):
            return z3.BoolVal(True)
        raise Unsupported('truthiness of %r' % (v,))

    # ---- equality -----------------------------------------------------------------------
    def eq(self, a, b, st):
        if isinstance(a, VNone) or isinstance(b, VNone):
            if isinstance(a, VNone) and isinstance(b, VNone):
                return z3.BoolVal(True)
            o = b if isinstance(a, VNone) else a
            if isinstance(o, VElem):
                return o.t == NONE_ELEM
            return z3.BoolVal(False)
        if is_num(a) and is_num(b):
            if isinstance(a, VReal) or isinstance(b, VReal):
                return as_real(a) == as_real(b)
            if isinstance(a, VBool) and isinstance(b, VBool):
                return a.t == b.t
            return as_int(a) == as_int(b)
        if isinstance(a, VElem) and isinstance(b, VElem):
            return a.t == b.t
        if isinstance(a, VElem) and isinstance(b, VStr):
            return a.t == str_elem(b.s)
        if isinstance(a, VStr) and isinstance(b, VElem):
            return b.t == str_elem(a.s)
        if isinstance(a, VStr) and isinstance(b, VStr):
            return z3.BoolVal(a.s == b.s)
        if isinstance(a, VTuple) and isinstance(b, VTuple):
            if len(a.items) != len(b.items):
                return z3.BoolVal(False)
            return z3.And([self.eq(x, y, st) for x, y in zip(a.items, b.items)]) if a.items else z3.BoolVal(True)
        if isinstance(a, VRec) and isinstance(b, VRec):
            if set(a.fields) != set(b.fields):
                return z3.BoolVal(False)
            return z3.And([self.eq(a.fields[k], b.fields[k], st) for k in sorted(a.fields)]) if a.fields else z3.BoolVal(True)
        if isinstance(a, VSlice) and isinstance(b, VSlice):
            return z3.And(self.eq(a.start, b.start, st), self.eq(a.stop, b.stop, st), self.eq(a.step, b.step, st))
        if isinstance(a, VList) and isinstance(b, VList):
            return self.list_eq(a, b, st)
        if isinstance(a, (VObj, VList)) and isinstance(b, (VObj, VList)):
            return z3.BoolVal(a.ref == b.ref)
        if type(a) is not type(b):
            return z3.BoolVal(False)
        raise Unsupported('equality of %r and %r' % (a, b))

    def list_eq(self, a, b, st):
        ca, cb = st.heap.lists[a.ref], st.heap.lists[b.ref]
        if a.ref == b.ref:
            return z3.BoolVal(True)
        if ca.etype != cb.etype:
            raise Unsupported('list equality with different element types')
        k = z3.Int(fresh_name('k'))
        body = z3.And([x[k] == y[k] for x, y in zip(ca.leaves, cb.leaves)]) if ca.leaves else z3.BoolVal(True)
        return z3.And(ca.length == cb.length, z3.ForAll([k], z3.Implies(z3.And(k >= 0, k < ca.length), body)))

    def list_eq_cells(self, ca, cb):
        if ca is cb:
            return z3.BoolVal(True)
        if ca.etype != cb.etype:
            return z3.BoolVal(False)
        if ca.etype is None:
            return ca.length == cb.length
        k = z3.Int(fresh_name('k'))
        body = z3.And([x[k] == y[k] for x, y in zip(ca.leaves, cb.leaves)]) if ca.leaves else z3.BoolVal(True)
        return z3.And(ca.length == cb.length, z3.ForAll([k], z3.Implies(z3.And(k >= 0, k < ca.length), body)))

    def identical(self, a, b, st):
        if isinstance(a, VNone) or isinstance(b, VNone):
            return self.eq(a, b, st)
        if isinstance(a, (VObj, VList)) and isinstance(b, (VObj, VList)):
            return z3.BoolVal(a.ref == b.ref)
        if isinstance(a, VElem) and isinstance(b, VElem):
            return a.t == b.t
        if isinstance(a, VBool) and isinstance(b, VBool):
            return a.t == b.t
        if type(a) is not type(b):
            return z3.BoolVal(False)
        raise Unsupported('identity of %r and %r' % (a, b))

    # ---- lists --------------------------------------------------------------------------
    def list_len(self, v, st):
        return st.heap.lists[v.ref].length

    def norm_index(self, idx, n, st, node, what='index'):
        """Normalise a Python index against length n; emits the in-range obligation."""
        c = const_int(idx)
        if c is not None:
            i = I(c) if c >= 0 else n + c
        elif st.spec:
            # contract language: x[e] with a non-constant e is the element at POSITION e (no wrap-around; constants like -1 do count from the end)
            i = idx
        elif st.entails(idx >= 0):
            i = idx
        elif st.entails(idx < 0):
            i = idx + n
        else:
            i = z3.If(idx < 0, idx + n, idx)
        self.oblige(st, 'index', what + '-in-range', z3.And(i >= 0, i < n), node, raises='IndexError')
        return i

    def list_get(self, lv, idx, st, node):
        cell = st.heap.lists[lv.ref]
        i = self.norm_index(idx, cell.length, st, node)
        return build(cell.etype, iter([a[i] for a in cell.leaves]))

    def list_set(self, lv, idx, val, st, node):
        cell = st.heap.lists[lv.ref]
        i = self.norm_index(idx, cell.length, st, node)
        fl = flatten(cell.etype, val)
        st.heap.lists[lv.ref] = ListCell(cell.etype, cell.length, [z3.Store(a, i, x) for a, x in zip(cell.leaves, fl)])

    def list_literal(self, vals, st, etype=None):
        if not vals and etype is None:
            return st.heap.alloc_list(None, z3.IntVal(0), [])
        et = etype or infer_etype(vals[0])
        sorts = leaf_sorts(et)
        leaves = [z3.K(z3.IntSort(), self.default_of(s)) for s in sorts]
        for k, v in enumerate(vals):
            fl = flatten(et, v)
            leaves = [z3.Store(a, k, x) for a, x in zip(leaves, fl)]
        return st.heap.alloc_list(et, z3.IntVal(len(vals)), leaves)

    def default_of(self, sort):
        if sort == z3.IntSort():
            return z3.IntVal(0)
        if sort == z3.BoolSort():
            return z3.BoolVal(False)
        if sort == z3.RealSort():
            return z3.RealVal(0)
        return z3.Const('dflt_' + str(sort), sort)

    def ensure_etype(self, lv, val, st):
        cell = st.heap.lists[lv.ref]
        if cell.etype is None:
            et = infer_etype(val)
            sorts = leaf_sorts(et)
            st.heap.lists[lv.ref] = ListCell(et, cell.length, [z3.K(z3.IntSort(), self.default_of(s)) for s in sorts])

    def list_append(self, lv, val, st):
        self.ensure_etype(lv, val, st)
        cell = st.heap.lists[lv.ref]
        fl = flatten(cell.etype, val)
        st.heap.lists[lv.ref] = ListCell(cell.etype, cell.length + 1, [z3.Store(a, cell.length, x) for a, x in zip(cell.leaves, fl)])

    def list_concat(self, a, b, st, into=None):
        """New list a + b (or, with into=a ref, in-place extend)."""
        ca, cb = st.heap.lists[a.ref], st.heap.lists[b.ref]
        if ca.etype is None and cb.etype is None:
            et = None
        else:
            et = ca.etype if ca.etype is not None else cb.etype
            if ca.etype is not None and cb.etype is not None and ca.etype != cb.etype:
                raise Unsupported('concatenating lists of different element types')
        if et is None:
            res = st.heap.alloc_list(None, z3.IntVal(0), [])
        else:
            n = ca.length + cb.length
            res, ln = st.heap.fresh_list(et, 'cat')
            rc = st.heap.lists[res.ref]
            st.assume(ln == n)
            k = z3.Int(fresh_name('k'))
            if ca.etype is not None:
                st.assume(z3.ForAll([k], z3.Implies(z3.And(k >= 0, k < ca.length),
                                                    z3.And([r[k] == x[k] for r, x in zip(rc.leaves, ca.leaves)]))))
            if cb.etype is not None:
                k2 = z3.Int(fresh_name('k'))
                st.assume(z3.ForAll([k2], z3.Implies(z3.And(k2 >= 0, k2 < cb.length),
                                                     z3.And([r[ca.length + k2] == x[k2] for r, x in zip(rc.leaves, cb.leaves)]))))
                # reverse direction trigger: every index of the result beyond len(a) comes from b
                k3 = z3.Int(fresh_name('k'))
                st.assume(z3.ForAll([k3], z3.Implies(z3.And(k3 >= ca.length, k3 < n),
                                                     z3.And([r[k3] == x[k3 - ca.length] for r, x in zip(rc.leaves, cb.leaves)]))))
        oa, ob = st.heap.origins.get(a.ref), st.heap.origins.get(b.ref)
        on = None
        if et is not None and (oa is not None or ca.etype is None) and (ob is not None or cb.etype is None) and (oa is not None or ob is not None):
            # both parts are selections (of the same source, by construction of the caller's spec): positions keep their source index
            on = z3.Array(fresh_name('origin'), z3.IntSort(), z3.IntSort())
            q1, q2 = z3.Int(fresh_name('k')), z3.Int(fresh_name('k'))
            if oa is not None:
                st.assume(z3.ForAll([q1], z3.Implies(z3.And(q1 >= 0, q1 < ca.length), on[q1] == oa[q1])))
            if ob is not None:
                st.assume(z3.ForAll([q2], z3.Implies(z3.And(q2 >= ca.length, q2 < ca.length + cb.length), on[q2] == ob[q2 - ca.length])))
        srcs = getattr(st.heap, 'origin_src', {})
        sa, sb = srcs.get(a.ref), srcs.get(b.ref)
        if on is not None and oa is not None and ob is not None and sa != sb:
            on = None           # selections of two different lists: positions have no common source
        src_ref = sa if oa is not None else sb
        if into is not None:
            st.heap.lists[into.ref] = st.heap.lists[res.ref]
            st.heap.origins.pop(into.ref, None)
            srcs.pop(into.ref, None)
            if on is not None:
                st.heap.origins[into.ref] = on
                srcs[into.ref] = src_ref
            return into
        if on is not None:
            st.heap.origins[res.ref] = on
            srcs[res.ref] = src_ref
        return res

    def list_slice(self, lv, sl, st, node):
        cell = st.heap.lists[lv.ref]
        n = cell.length
        if not isinstance(sl.step, VNone) and const_int(as_int(sl.step)) == -1 and isinstance(sl.start, VNone) and isinstance(sl.stop, VNone):
            # x[::-1]: reversal
            if cell.etype is None:
                return st.heap.alloc_list(None, z3.IntVal(0), [])
            res, rl = st.heap.fresh_list(cell.etype, 'rev')
            rc = st.heap.lists[res.ref]
            st.assume(_lab(rl == n, 'theory:slice'))
            k = z3.Int(fresh_name('k'))
            st.assume(_lab(z3.ForAll([k], z3.Implies(z3.And(k >= 0, k < n), z3.And([r[k] == x[n - 1 - k] for r, x in zip(rc.leaves, cell.leaves)]))), 'theory:slice'))
            k2 = z3.Int(fresh_name('k'))
            st.assume(_lab(z3.ForAll([k2], z3.Implies(z3.And(k2 >= 0, k2 < n), z3.And([r[n - 1 - k2] == x[k2] for r, x in zip(rc.leaves, cell.leaves)]))), 'theory:slice'))
            return VList(res.ref, nd=lv.nd, width=lv.width)
        if not (isinstance(sl.step, VNone) or const_int(as_int(sl.step)) == 1):
            raise Unsupported('list slice with step != 1')

        def clipb(b, default):
            if isinstance(b, VNone):
                return default
            t = as_int(b)
            c = const_int(t)
            if c is not None and c >= 0:
                return zmin(I(c), n)
            if c is not None and c < 0:
                return zmax(n + c, I(0))
            t2 = z3.If(t < 0, t + n, t)
            return zmin(zmax(t2, I(0)), n)
        a = clipb(sl.start, I(0))
        b = clipb(sl.stop, n)
        ln = zmax(b - a, I(0))
        if cell.etype is None:
            return st.heap.alloc_list(None, z3.IntVal(0), [])
        res, rl = st.heap.fresh_list(cell.etype, 'sl')
        rc = st.heap.lists[res.ref]
        st.assume(_lab(rl == ln, 'theory:slice'))
        k = z3.Int(fresh_name('k'))
        if rc.leaves:
            st.assume(_lab(z3.ForAll([k], z3.Implies(z3.And(k >= 0, k < ln), z3.And([r[k] == x[a + k] for r, x in zip(rc.leaves, cell.leaves)]))), 'theory:slice'))
        # small concrete-length slices get ground facts too (helps `i0, i1 = bounds[c:c+2]`)
        for j in range(0, 3):
            st.assume(z3.Implies(ln > j, z3.And([r[j] == x[a + j] for r, x in zip(rc.leaves, cell.leaves)]) if rc.leaves else z3.BoolVal(True)))
        return VList(res.ref, nd=lv.nd, width=lv.width)

    def range_to_list(self, r, st):
        """list(range(a, b, s)) for s > 0 (obligation) without multiplication by symbolic step (DESIGN 2.3)."""
        a, b, s = r.start, r.stop, r.step
        res, n = st.heap.fresh_list('int', 'rng')
        arr = st.heap.lists[res.ref].leaves[0]
        cs = const_int(s)
        st.assume(n >= 0)
        st.assume((n == 0) == (a >= b))
        if cs == 1:
            st.assume(z3.Implies(a < b, n == b - a))
        k = z3.Int(fresh_name('k'))
        st.assume(z3.Implies(n > 0, arr[0] == a))
        if cs is not None:
            st.assume(z3.ForAll([k], z3.Implies(z3.And(k >= 0, k < n), arr[k] == a + k * cs)))
        else:
            st.assume(z3.ForAll([k], z3.Implies(z3.And(k >= 0, k + 1 < n), arr[k + 1] == arr[k] + s)))
        st.assume(z3.Implies(n > 0, z3.And(arr[n - 1] < b, b <= arr[n - 1] + s)))
        # transitive form (sound consequence of r[j] - r[i] == s*(j-i) with s >= 1): later elements are at least one step further
        i, j = z3.Int(fresh_name('i')), z3.Int(fresh_name('j'))
        st.assume(z3.ForAll([i, j], z3.Implies(z3.And(0 <= i, i < j, j < n), arr[i] + s <= arr[j])))
        return res

    # ---- expression dispatcher ---------------------------------------------------------------
    def ev(self, node, st):
        m = getattr(self, 'ev_' + type(node).__name__, None)
        if m is None:
            raise Unsupported('expression %s at line %s' % (type(node).__name__, getattr(node, 'lineno', '?')))
        return m(node, st)

    def ev_Constant(self, node, st):
        v = node.value
        if isinstance(v, bool):
            return VBool(v)
        if isinstance(v, int):
            return VInt(v)
        if isinstance(v, float):
            return VReal(z3.RealVal(repr(v)))
        if v is None:
            return VNone()
        if isinstance(v, str):
            return VStr(v)
        raise Unsupported('constant %r' % (v,))

    def ev_Name(self, node, st):
        n = node.id
        if n in st.env:
            return st.env[n]
        if n in st.ghost:
            return st.ghost[n]
        if n in self.BUILTINS:
            return VFunc('builtin', n)
        if n in ('np', 'numpy', 'mp', 'mtscomp', 'copy', 'math'):
            return VModule(n)
        g = self.resolve_global(n, st)
        if g is not None:
            return g
        if n == 'Path':
            return VFunc('module', 'pathlib.Path')
        if n in ('_as_array',):
            return VFunc('module', n)
        raise Unsupported('unknown name %r (line %s)' % (n, getattr(node, 'lineno', '?')))

    def ev_Tuple(self, node, st):
        return VTuple([self.ev(e, st) for e in node.elts])

    def ev_List(self, node, st):
        return self.list_literal([self.ev(e, st) for e in node.elts], st)

    def ev_UnaryOp(self, node, st):
        v = self.ev(node.operand, st)
        if isinstance(node.op, ast.Not):
            return VBool(z3.Not(self.truth(v, st)))
        if isinstance(node.op, ast.USub):
            if isinstance(v, VReal):
                return VReal(-v.t)
            return VInt(-as_int(v))
        if isinstance(node.op, ast.UAdd):
            return v
        if isinstance(node.op, ast.Invert) and type(v).__name__ == 'VMatMask':
            return self.mat_invert(v)
        if isinstance(node.op, ast.Invert) and isinstance(v, VList) and v.nd and st.heap.lists[v.ref].etype == 'bool':
            c_ = st.heap.lists[v.ref]
            self.used('~ on a boolean array (elementwise not)')
            return self.pointwise(st, 'bool', c_.length, lambda k_: z3.Not(c_.leaves[0][k_]), 'inv')
        raise Unsupported('unary op')

    def ev_BoolOp(self, node, st):
        vals = [self.ev(node.values[0], st)]
        is_or = isinstance(node.op, ast.Or)
        # Python value semantics with short circuit; later operands are evaluated lazily only when needed.
        cur = vals[0]
        for nxt_node in node.values[1:]:
            t = self.truth(cur, st)
            ts = z3.simplify(t)
            if z3.is_true(ts):
                if is_or:
                    return cur
                cur = self.ev(nxt_node, st)
                continue
            if z3.is_false(ts):
                if is_or:
                    cur = self.ev(nxt_node, st)
                    continue
                return cur
            if st.spec or isinstance(cur, VBool):
                # pure boolean combination (specs, and code conditions on bools): no fork needed if rhs is bool-like
                save = len(st.pc)
                # evaluate rhs under the assumption that it is reached (sound for obligations inside rhs)
                st.pc.append(z3.Not(t) if is_or else t)
                try:
                    nxt = self.ev(nxt_node, st)
                finally:
                    del st.pc[save]      # keep definitional axioms appended meanwhile
                if isinstance(cur, VBool) and isinstance(nxt, (VBool,)):
                    cur = VBool(z3.Or(cur.t, nxt.t) if is_or else z3.And(cur.t, nxt.t))
                    continue
                if isinstance(cur, VBool) and st.spec:
                    cur = VBool(z3.Or(cur.t, self.truth(nxt, st)) if is_or else z3.And(cur.t, self.truth(nxt, st)))
                    continue
            d = st.decide(t)     # may Fork
            if d:
                if is_or:
                    return cur
                cur = self.ev(nxt_node, st)
            else:
                if is_or:
                    cur = self.ev(nxt_node, st)
                else:
                    return cur
        return cur

    def ev_IfExp(self, node, st):
        c = self.truth(self.ev(node.test, st), st)
        cs = z3.simplify(c)
        if z3.is_true(cs):
            return self.ev(node.body, st)
        if z3.is_false(cs):
            return self.ev(node.orelse, st)
        if st.spec:
            a = self.ev(node.body, st)
            b = self.ev(node.orelse, st)
            return self.merge_if(c, a, b, st)
        if st.decide(c):
            return self.ev(node.body, st)
        return self.ev(node.orelse, st)

    def merge_if(self, c, a, b, st):
        if isinstance(a, VInt) and isinstance(b, VInt):
            return VInt(z3.If(c, a.t, b.t))
        if isinstance(a, VBool) and isinstance(b, VBool):
            return VBool(z3.If(c, a.t, b.t))
        if is_num(a) and is_num(b):
            return VReal(z3.If(c, as_real(a), as_real(b)))
        if isinstance(a, VElem) and isinstance(b, VElem):
            return VElem(z3.If(c, a.t, b.t))
        if isinstance(a, VTuple) and isinstance(b, VTuple) and len(a.items) == len(b.items):
            return VTuple([self.merge_if(c, x, y, st) for x, y in zip(a.items, b.items)])
        raise Unsupported('conditional expression over %r / %r in a specification' % (a, b))

    def ev_BinOp(self, node, st):
        a = self.ev(node.left, st)
        b = self.ev(node.right, st)
        return self.binop(node.op, a, b, st, node)

    def binop(self, op, a, b, st, node):
        if isinstance(a, VList) and isinstance(b, VList) and isinstance(op, ast.Add) and not a.nd and not b.nd:
            return self.list_concat(a, b, st)
        if isinstance(a, VTuple) and isinstance(b, VTuple) and isinstance(op, ast.Add):
            return VTuple(a.items + b.items)
        if isinstance(a, VStr) and isinstance(op, ast.Mod) and a.s == '__%s__' and isinstance(b, (VElem, VStr)):
            return VDunder(b)
        if isinstance(a, VStr) and isinstance(op, ast.Mod):
            return VStr(a.s % (b.s if isinstance(b, VStr) else '?')) if isinstance(b, VStr) else VStr(a.s)
        if isinstance(a, VStr) and isinstance(b, VStr) and isinstance(op, ast.Add):
            return VStr(a.s + b.s)
        if isinstance(op, ast.Add) and isinstance(a, (VElem, VStr)) and isinstance(b, (VElem, VStr)):
            return VElem(STRCAT(flatten('elem', a)[0], flatten('elem', b)[0]))
        if isinstance(op, ast.Div) and isinstance(a, VElem) and isinstance(b, (VElem, VStr)):
            PJ = z3.Function('pathjoin', Elem, Elem, Elem)
            return VElem(PJ(a.t, flatten('elem', b)[0]), kind='Path')
        if not (is_num(a) and is_num(b)):
            mark_ = len(st.pc)
            h = self.binop_hook(op, a, b, st, node)
            _label_new(st, mark_, 'theory:elementwise')
            if h is not None:
                return h
            raise Unsupported('binary %s on %r, %r (line %s)' % (type(op).__name__, a, b, getattr(node, 'lineno', '?')))
        real = isinstance(a, VReal) or isinstance(b, VReal)
        if isinstance(op, ast.Add):
            return VReal(as_real(a) + as_real(b)) if real else VInt(as_int(a) + as_int(b))
        if isinstance(op, ast.Sub):
            return VReal(as_real(a) - as_real(b)) if real else VInt(as_int(a) - as_int(b))
        if isinstance(op, ast.Mult):
            if real and not z3.is_rational_value(z3.simplify(as_real(a))) and not z3.is_rational_value(z3.simplify(as_real(b))):
                return VReal(self.real_product(as_real(a), as_real(b), st))
            return VReal(as_real(a) * as_real(b)) if real else VInt(as_int(a) * as_int(b))
        if isinstance(op, ast.Div):
            self.oblige(st, 'div0', 'divisor-nonzero', as_real(b) != 0, node, raises='ZeroDivisionError')
            return VReal(as_real(a) / as_real(b))
        if isinstance(op, ast.FloorDiv):
            if real:
                raise Unsupported('floor division of reals')
            self.oblige(st, 'div0', 'divisor-nonzero', as_int(b) != 0, node, raises='ZeroDivisionError')
            cb = const_int(as_int(b))
            if cb is not None and cb > 0:
                return VInt(as_int(a) / as_int(b))
            return VInt(_floordiv(as_int(a), as_int(b)))
        if isinstance(op, ast.Mod):
            if real:
                raise Unsupported('modulo of reals')
            self.oblige(st, 'div0', 'divisor-nonzero', as_int(b) != 0, node, raises='ZeroDivisionError')
            cb = const_int(as_int(b))
            if cb is not None and cb > 0:
                return VInt(as_int(a) % as_int(b))
            if st.entails(as_int(b) > 0):
                return VInt(as_int(a) % as_int(b))
            return VInt(py_mod(as_int(a), as_int(b)))
        if isinstance(op, ast.Pow):
            cb = const_int(as_int(b)) if not isinstance(b, VReal) else None
            if cb is not None and 0 <= cb <= 4:
                r = z3.RealVal(1) if real else z3.IntVal(1)
                base = as_real(a) if real else as_int(a)
                for _ in range(cb):
                    r = r * base
                return VReal(r) if real else VInt(r)
            raise Unsupported('power with non-literal exponent')
        raise Unsupported('binary operator %s' % type(op).__name__)

    def real_product(self, x, y, st):
        """Product of two symbolic reals, kept out of non-linear arithmetic: an uninterpreted rmul(x, y) with ground instances of
        sound consequences of rmul(x,y) == x*y (sign rules, multiplication by 0 / 1, scaling by a fraction)."""
        RM = z3.Function('rmul', z3.RealSort(), z3.RealSort(), z3.RealSort())
        p = RM(x, y)
        key = ('rmul', x.get_id(), y.get_id())
        if not any(getattr(t, '_ax_key', None) == key for t in st.pc):
            ax = z3.And(
                z3.Implies(z3.And(x >= 0, y >= 0), p >= 0), z3.Implies(z3.And(x <= 0, y <= 0), p >= 0),
                z3.Implies(z3.And(x >= 0, y <= 0), p <= 0), z3.Implies(z3.And(x <= 0, y >= 0), p <= 0),
                z3.Implies(x == 0, p == 0), z3.Implies(y == 0, p == 0), z3.Implies(x == 1, p == y), z3.Implies(y == 1, p == x),
                z3.Implies(z3.And(x >= 0, x <= 1, y >= 0), p <= y), z3.Implies(z3.And(y >= 0, y <= 1, x >= 0), p <= x),
                z3.Implies(z3.And(x >= 1, y >= 0), p >= y), z3.Implies(z3.And(y >= 1, x >= 0), p >= x))
            ax._ax_key = key
            st.pc.append(ax)
        return p

    def binop_hook(self, op, a, b, st, node):
        return None

    def ev_Compare(self, node, st):
        left = self.ev(node.left, st)
        terms = []
        for op, rn in zip(node.ops, node.comparators):
            right = self.ev(rn, st)
            t = self.compare(op, left, right, st, node)
            if isinstance(t, tuple):
                if len(node.ops) != 1:
                    raise Unsupported('chained comparison with an ndarray')
                return t[1]
            terms.append(t)
            left = right
        return VBool(z3.And(terms) if len(terms) > 1 else terms[0])

    def compare(self, op, a, b, st, node):
        if isinstance(op, ast.Eq) and isinstance(a, VElem) and a.kind == 'ndarray' and isinstance(b, VInt):
            f = z3.Function('mask_eq', Elem, z3.IntSort(), Elem)
            return ('val', VElem(f(a.t, b.t), kind='ndarray'))
        if isinstance(op, (ast.Eq, ast.NotEq, ast.Lt, ast.LtE, ast.Gt, ast.GtE)):
            mark_ = len(st.pc)
            r_ = self.nd_compare(op, a, b, st, node)
            _label_new(st, mark_, 'theory:elementwise')
            if r_ is not None:
                return ('val', r_)
        if isinstance(op, ast.Eq):
            return self.eq(a, b, st)
        if isinstance(op, ast.NotEq):
            return z3.Not(self.eq(a, b, st))
        if isinstance(op, ast.Is):
            return self.identical(a, b, st)
        if isinstance(op, ast.IsNot):
            return z3.Not(self.identical(a, b, st))
        if isinstance(op, (ast.In, ast.NotIn)):
            t = self.contains(b, a, st)
            return t if isinstance(op, ast.In) else z3.Not(t)
        if not (is_num(a) and is_num(b)):
            raise Unsupported('ordering comparison of %r and %r (line %s)' % (a, b, getattr(node, 'lineno', '?')))
        if isinstance(a, VReal) or isinstance(b, VReal):
            x, y = as_real(a), as_real(b)
        else:
            x, y = as_int(a), as_int(b)
        if isinstance(op, ast.Lt):
            return x < y
        if isinstance(op, ast.LtE):
            return x <= y
        if isinstance(op, ast.Gt):
            return x > y
        if isinstance(op, ast.GtE):
            return x >= y
        raise Unsupported('comparison operator')

    def contains(self, container, item, st):
        if isinstance(container, VTuple):
            return z3.Or([self.eq(item, x, st) for x in container.items]) if container.items else z3.BoolVal(False)
        if isinstance(container, VList):
            cell = st.heap.lists[container.ref]
            if cell.etype is None:
                return z3.BoolVal(False)
            k = z3.Int(fresh_name('k'))
            el = build(cell.etype, iter([a[k] for a in cell.leaves]))
            return z3.Exists([k], z3.And(k >= 0, k < cell.length, self.eq(item, el, st)))
        if isinstance(container, VRange):
            cs = const_int(container.step)
            if cs == 1:
                x = as_int(item)
                return z3.And(container.start <= x, x < container.stop)
        raise Unsupported('membership test in %r' % (container,))

    def ev_Slice(self, node, st):
        return VSlice(*[self.ev(x, st) if x is not None else VNone() for x in (node.lower, node.upper, node.step)])

    def ev_Subscript(self, node, st):
        base = self.ev(node.value, st)
        if type(base).__name__ == 'VMat' and isinstance(node.slice, ast.Tuple):
            mark_ = len(st.pc)
            r_ = self.mat_subscript_ast(base, node.slice, st, node)
            _label_new(st, mark_, 'theory:index')
            return r_
        if isinstance(base, VObj) and isinstance(node.slice, ast.Tuple) and len(node.slice.elts) == 2 \
                and isinstance(node.slice.elts[1], ast.Constant) and node.slice.elts[1].value is Ellipsis:
            # obj[i, ...]: the trailing Ellipsis selects everything in the remaining dimensions = obj[i]
            return self.subscript(base, self.ev(node.slice.elts[0], st), st, node)
        if isinstance(base, VList) and isinstance(node.slice, ast.Tuple) and len(node.slice.elts) == 2 \
                and isinstance(node.slice.elts[1], ast.Constant) and node.slice.elts[1].value is Ellipsis \
                and isinstance(node.slice.elts[0], ast.Attribute) and node.slice.elts[0].attr == 'newaxis':
            # x[np.newaxis, ...]: the same block with a leading axis of length 1 (only ever assigned into one slot of a larger array)
            return base
        if isinstance(base, VList) and isinstance(node.slice, ast.Tuple) and len(node.slice.elts) == 2 and isinstance(node.slice.elts[0], ast.Slice) \
                and isinstance(node.slice.elts[1], ast.Constant) and node.slice.elts[1].value is Ellipsis:
            # x[a:b, ...]: the trailing Ellipsis selects everything in the remaining dimensions = x[a:b]
            e0 = node.slice.elts[0]
            sl0 = VSlice(*[self.ev(x, st) if x is not None else VNone() for x in (e0.lower, e0.upper, e0.step)])
            return self.subscript(base, sl0, st, node)
        if isinstance(base, VFunc) and base.kind == 'module' and base.name == 'np.r_' and isinstance(node.slice, ast.Tuple):
            # np.r_[a, b, ...]: concatenation of 1-D arrays and scalars
            cur = None
            for e in node.slice.elts:
                v = self.ev(e, st)
                piece = self.as_array(v, st) if isinstance(v, VList) else self.list_literal([v], st)
                cur = piece if cur is None else self.list_concat(cur, piece, st)
            self.used('np.r_ (concatenation)')
            return VList(cur.ref, nd=True)
        if isinstance(node.slice, ast.Slice):
            sl = VSlice(*[self.ev(x, st) if x is not None else VNone() for x in (node.slice.lower, node.slice.upper, node.slice.step)])
        else:
            sl = self.ev(node.slice, st)
        return self.subscript(base, sl, st, node)

    def subscript(self, base, sl, st, node):
        if isinstance(base, VTuple):
            if isinstance(sl, VSlice):
                def c(x):
                    return None if isinstance(x, VNone) else const_int(as_int(x))
                a, b, s = c(sl.start), c(sl.stop), c(sl.step)
                for x, y in ((sl.start, a), (sl.stop, b), (sl.step, s)):
                    if not isinstance(x, VNone) and y is None:
                        raise Unsupported('symbolic tuple slice')
                return VTuple(base.items[slice(a, b, s)])
            c = const_int(as_int(sl))
            if c is None:
                raise Unsupported('symbolic tuple index')
            if not -len(base.items) <= c < len(base.items):
                self.oblige(st, 'index', 'tuple-index-in-range', z3.BoolVal(False), node, raises='IndexError')
                raise Unsupported('tuple index out of range')
            return base.items[c]
        if isinstance(base, VList):
            if isinstance(sl, VSlice):
                return self.list_slice(base, sl, st, node)
            if isinstance(sl, VList):
                mark_ = len(st.pc)
                h = self.nd_subscript(base, sl, st, node)
                for t_ in st.pc[mark_:]:
                    if getattr(t_, '_label', None) is None:
                        try:
                            t_._label = 'theory:index'
                        except Exception:
                            pass
                if h is not None:
                    return h
                raise Unsupported('index array on %r (line %s)' % (base, getattr(node, 'lineno', '?')))
            if isinstance(sl, VTuple):
                h = self.subscript_hook(base, sl, st, node)
                if h is not None:
                    return h
                raise Unsupported('multi-dimensional index on %r (line %s)' % (base, getattr(node, 'lineno', '?')))
            if type(sl).__name__ == 'VMat':
                return self.list_gather_by_matrix(base, sl, st, node)
            return self.list_get(base, as_int(sl), st, node)
        if isinstance(base, VRange) and not isinstance(sl, VSlice):
            i = as_int(sl)
            return VInt(base.start + i * base.step)
        if type(base).__name__ == 'VMat' and isinstance(sl, VList):
            return self.mat_gather_rows(base, sl, st, node)
        if isinstance(base, VRag):
            k_ = as_int(sl)
            self.oblige(st, 'index', 'key-or-index-exists', z3.And(k_ >= 0, k_ < st.heap.rags[base.ref].count), node, raises='KeyError')
            return self.rag_row(base, k_, st)
        if isinstance(base, VObj):
            m = self.resolve_method(base, '__getitem__', st)
            if m is not None:
                return self.call(m, [sl], {}, st, node)
        h = self.subscript_hook(base, sl, st, node)
        if h is not None:
            return h
        raise Unsupported('subscript of %r (line %s)' % (base, getattr(node, 'lineno', '?')))

    def subscript_hook(self, base, sl, st, node):
        # rows[i, :] on a block of opaque rows: row i
        if isinstance(base, VList) and base.nd and base.width is not None and isinstance(sl, VTuple) and len(sl.items) == 2 and isinstance(sl.items[0], VInt) \
                and isinstance(sl.items[1], VSlice) and all(isinstance(x, VNone) for x in (sl.items[1].start, sl.items[1].stop, sl.items[1].step)):
            return self.list_get(base, sl.items[0].t, st, node)
        if isinstance(base, VList) and base.nd and base.width is None and isinstance(sl, VTuple) and len(sl.items) == 2 and isinstance(sl.items[0], VSlice) \
                and all(isinstance(x, VNone) for x in (sl.items[0].start, sl.items[0].stop, sl.items[0].step)) \
                and (isinstance(sl.items[1], VNone) or (isinstance(sl.items[1], VFunc) and sl.items[1].name == 'np.newaxis')) \
                and st.heap.lists[base.ref].etype in ('int', 'real', 'bool'):
            from .mat import VCol
            return VCol(base)
        # P[:, c] on an array whose rows are fixed-width tuples of numbers (e.g. channel positions): column c as a 1-D array
        if isinstance(base, VList) and isinstance(sl, VTuple) and len(sl.items) == 2 and isinstance(sl.items[0], VSlice) \
                and all(isinstance(x, VNone) for x in (sl.items[0].start, sl.items[0].stop, sl.items[0].step)) and isinstance(sl.items[1], VInt):
            cell = st.heap.lists[base.ref]
            cidx = const_int(sl.items[1].t)
            if isinstance(cell.etype, tuple) and cell.etype[0] == 'tuple' and cidx is not None and 0 <= cidx < len(cell.etype[1]) \
                    and all(t in ('int', 'real') for t in cell.etype[1]):
                r = st.heap.alloc_list(cell.etype[1][cidx], cell.length, [cell.leaves[cidx]])
                return VList(r.ref, nd=True)
        # rows[:, cols] on a block of opaque rows: row-wise column selection (definition of op_row('cols', cols, row))
        if isinstance(base, VList) and isinstance(sl, VTuple) and len(sl.items) == 2 and isinstance(sl.items[0], VSlice) \
                and all(isinstance(x, VNone) for x in (sl.items[0].start, sl.items[0].stop, sl.items[0].step)):
            return self.map_rows(base, VStr('cols'), sl.items[1], st)
        return None

    def map_rows(self, rows, op, arg, st, width=None):
        cell = st.heap.lists[rows.ref]
        if cell.etype != 'elem':
            return None
        OPR = z3.Function('op_row', Elem, Elem, Elem, Elem)
        res, n = st.heap.fresh_list('elem', 'rows')
        st.assume(n == cell.length)
        k = z3.Int(fresh_name('k'))
        ra = st.heap.lists[res.ref].leaves[0]
        st.assume(z3.ForAll([k], z3.Implies(z3.And(k >= 0, k < n), ra[k] == OPR(flatten('elem', op)[0], flatten('elem', arg)[0], cell.leaves[0][k]))))
        if isinstance(op, VStr) and op.s == 'cols' and isinstance(arg, VElem) and arg.kind == 'ndarray':
            width = z3.Function('elem_len', Elem, z3.IntSort())(arg.t)       # rows[:, index_array] has len(index_array) columns
        return VList(res.ref, nd=True, width=width if width is not None else rows.width)

    def ev_Attribute(self, node, st):
        base = self.ev(node.value, st)
        return self.getattr_(base, node.attr, st, node)

    def getattr_(self, base, attr, st, node):
        if isinstance(base, VSlice):
            return {'start': base.start, 'stop': base.stop, 'step': base.step}[attr]
        if isinstance(base, VObj):
            fields = st.heap.objs[base.ref]
            if attr in fields:
                return fields[attr]
            m = self.resolve_method(base, attr, st)
            if m is not None:
                return m
            raise Unsupported('attribute %s of %r' % (attr, base))
        if isinstance(base, VModule):
            return VFunc('module', base.name + '.' + attr)
        if isinstance(base, VFunc) and base.kind == 'module' and base.name in ('np.random', 'np.linalg', 'os.path'):
            return VFunc('module', base.name + '.' + attr)
        if isinstance(base, VElem):
            m = self.resolve_elem_attr(base, attr, st)
            if m is not None:
                return m
            if attr == 'shape':
                # an opaque 2-D array (a memory-mapped part of a recording): (n_rows, n_cols), both non-negative
                nr = z3.Function('n_rows', Elem, z3.IntSort())(base.t)
                nc = z3.Function('n_cols', Elem, z3.IntSort())(base.t)
                st.assume(z3.And(nr >= 0, nc >= 0))
                return VTuple([VInt(nr), VInt(nc)])
            if attr in ('name', 'stem', 'parent', 'suffix', '__class__', '__name__', '__qualname__'):
                f_ = z3.Function('path_' + attr, Elem, Elem)
                return VElem(f_(base.t))
        if isinstance(base, VList) and base.nd and attr == 'shape' and base.width is not None:
            return VTuple([VInt(st.heap.lists[base.ref].length), VInt(base.width)])
        if isinstance(base, VList) and base.nd and attr in ('max', 'min', 'copy', 'astype', 'any', 'all', 'tolist', 'ravel', 'flatten', 'squeeze'):
            return VFunc('ndmethod', attr, self_val=base)
        if isinstance(base, VList) and base.nd and attr == 'size' and base.width is None:
            return VInt(st.heap.lists[base.ref].length)
        if isinstance(base, VList) and base.nd and attr == 'shape' and base.width is None:
            return VTuple([VInt(st.heap.lists[base.ref].length)])
        if isinstance(base, VList) and base.nd and attr == 'ndim':
            return VInt(1 if base.width is None else 2)
        if isinstance(base, VList) and base.nd and attr == 'dtype':
            return VElem(z3.Const('some_dtype', Elem))
        if isinstance(base, VAssoc) and attr in ('values', 'keys', 'append'):
            return VFunc('assocmethod', attr, self_val=base)
        if type(base).__name__ == 'VMat':
            return self.mat_getattr(base, attr, st, node)
        if isinstance(base, VRag) and attr in ('append', 'items'):
            return VFunc('ragmethod', attr, self_val=base)
        if isinstance(base, VBlocks) and attr == 'append':
            return VFunc('blocksmethod', attr, self_val=base)
        if isinstance(base, VList) and attr in ('append', 'extend'):
            return VFunc('listmethod', attr, self_val=base)
        if isinstance(base, VRec) and attr in ('get', 'pop'):
            return VFunc('recmethod', attr, self_val=base)
        if isinstance(base, VRec) and attr in base.fields:
            return base.fields[attr]
        raise Unsupported('attribute %s of %r (line %s)' % (attr, base, getattr(node, 'lineno', '?')))

    # ---- quantifiers / comprehensions -----------------------------------------------------------
    def quantify(self, node, st, universal):
        """all(...) / any(...) over a generator expression with range / list iterators."""
        if not isinstance(node, ast.GeneratorExp):
            v = self.ev(node, st)
            if isinstance(v, VList):
                cell = st.heap.lists[v.ref]
                k = z3.Int(fresh_name('k'))
                el = build(cell.etype, iter([a[k] for a in cell.leaves])) if cell.etype else VNone()
                body = self.truth(el, st)
                rng = z3.And(k >= 0, k < cell.length)
                return VBool(z3.ForAll([k], z3.Implies(rng, body)) if universal else z3.Exists([k], z3.And(rng, body)))
            raise Unsupported('all/any over %r' % (v,))
        bound = []
        guards = []
        saved = dict(st.env)
        # lint: a quantifier must not re-bind the variable of an enclosing quantifier (string templates make this capture easy to write
        # and the resulting clause silently means something else)
        qstack = getattr(self, '_qvars', None)
        if qstack is None:
            qstack = self._qvars = []
        mine = set()
        for comp_ in node.generators:
            for n_ in ast.walk(comp_.target):
                if isinstance(n_, ast.Name):
                    mine.add(n_.id)
        clash = [n_ for n_ in mine if any(n_ in s_ for s_ in qstack)]
        if clash and st.spec:
            raise Unsupported('contract text: quantifier re-binds %s, already bound by an enclosing quantifier (variable capture)' % sorted(clash))
        qstack.append(mine)
        st.spec += 1
        tmp_marks = []

        def push_guard(g):
            st.pc.append(g)
            tmp_marks.append(g)
        try:
            for comp in node.generators:
                it = self.ev(comp.iter, st)
                if isinstance(it, VFunc) and it.kind == 'elems':
                    ke = z3.Const(fresh_name(comp.target.id if isinstance(comp.target, ast.Name) else 'q'), Elem)
                    bound.append(ke)
                    self.bind_target(comp.target, VElem(ke), st)
                    for cond in comp.ifs:
                        guards.append(self.truth(self.ev(cond, st), st))
                    continue
                k = z3.Int(fresh_name(comp.target.id if isinstance(comp.target, ast.Name) else 'q'))
                bound.append(k)
                if isinstance(it, VRange):
                    if const_int(it.step) != 1:
                        raise Unsupported('quantifier over stepped range')
                    guards.append(z3.And(it.start <= k, k < it.stop))
                    push_guard(guards[-1])
                    self.bind_target(comp.target, VInt(k), st)
                elif isinstance(it, VList):
                    cell = st.heap.lists[it.ref]
                    guards.append(z3.And(k >= 0, k < cell.length))
                    push_guard(guards[-1])
                    self.bind_target(comp.target, build(cell.etype, iter([a[k] for a in cell.leaves])), st)
                else:
                    raise Unsupported('quantifier over %r' % (it,))
                for cond in comp.ifs:
                    guards.append(self.truth(self.ev(cond, st), st))
            body = self.truth(self.ev(node.elt, st), st)
        finally:
            qstack.pop()
            st.spec -= 1
            st.env = saved
            for g in tmp_marks:
                for i in range(len(st.pc) - 1, -1, -1):
                    if st.pc[i] is g:
                        del st.pc[i]
                        break
        g = z3.And(guards) if len(guards) > 1 else (guards[0] if guards else z3.BoolVal(True))
        if universal:
            return VBool(z3.ForAll(bound, z3.Implies(g, body)))
        return VBool(z3.Exists(bound, z3.And(g, body)))

    def ev_Dict(self, node, st):
        if not node.keys:
            # {}: an empty int -> array dictionary (the only dict literal the engine models)
            keys = st.heap.alloc_list('int', z3.IntVal(0), [z3.K(z3.IntSort(), z3.IntVal(0))])
            rv, cnt, lens = st.heap.fresh_rag('int', 'dict')
            st.assume(cnt == 0)
            return VAssoc(keys, rv)
        raise Unsupported('dict literal with entries')

    def assoc_comp(self, node, st):
        """{K(i): A[lo(i):hi(i)] for i in range(n)} with integer keys and slices of one 1-D array as values"""
        comp = node.generators[0]
        it = self.ev(comp.iter, st)
        if not (isinstance(it, VRange) and const_int(it.step) == 1 and const_int(it.start) == 0 and isinstance(comp.target, ast.Name) and not comp.ifs):
            return None
        v = node.value
        if not (isinstance(v, ast.Subscript) and isinstance(v.slice, ast.Slice) and v.slice.step is None):
            return None
        src = self.ev(v.value, st)
        if not (isinstance(src, VList) and st.heap.lists[src.ref].etype in ('int', 'real')):
            return None
        cell = st.heap.lists[src.ref]
        n = zmax(it.stop, I(0))
        i = z3.Int(fresh_name('di'))
        saved = dict(st.env)
        st.pc.append(z3.And(i >= 0, i < n))
        gpos = len(st.pc) - 1
        try:
            st.nofork += 1
            try:
                st.env[comp.target.id] = VInt(i)
                key_i = as_int(self.ev(node.key, st))     # index obligations inside are generated for the symbolic position i
                lo_i = as_int(self.ev(v.slice.lower, st)) if v.slice.lower is not None else I(0)
                hi_i = as_int(self.ev(v.slice.upper, st)) if v.slice.upper is not None else cell.length
            finally:
                st.nofork -= 1
        finally:
            del st.pc[gpos]
            st.env = saved
        N = cell.length

        def clipb(t):
            t2 = z3.If(t < 0, t + N, t)
            return zmin(zmax(t2, I(0)), N)
        a_i, b_i = clipb(lo_i), clipb(hi_i)
        keys, kn = st.heap.fresh_list('int', 'dict.keys')
        K = st.heap.lists[keys.ref].leaves[0]
        rv, cnt, lens = st.heap.fresh_rag(cell.etype, 'dict')
        data = st.heap.rags[rv.ref].data
        j, i2 = z3.Int(fresh_name('dj')), z3.Int(fresh_name('di'))
        st.assume(_lab(z3.And(kn == n, cnt == n), 'theory:dictcomp'))
        st.assume(_lab(z3.ForAll([i], z3.Implies(z3.And(i >= 0, i < n), z3.And(K[i] == key_i, lens[i] == zmax(b_i - a_i, I(0))))), 'theory:dictcomp'))
        st.assume(_lab(z3.ForAll([i, j], z3.Implies(z3.And(i >= 0, i < n, j >= 0, j < zmax(b_i - a_i, I(0))), data[i][j] == cell.leaves[0][a_i + j])), 'theory:dictcomp'))
        # the dict model needs pairwise distinct keys (Python would silently keep the last value of a repeated key)
        self.oblige(st, 'model', 'dict-comprehension-keys-distinct',
                    z3.ForAll([i, i2], z3.Implies(z3.And(i >= 0, i < i2, i2 < n), key_i != z3.substitute(key_i, (i, i2)))), node)
        return VAssoc(VList(keys.ref), rv)

    def ev_DictComp(self, node, st):
        if len(node.generators) == 1:
            r = self.assoc_comp(node, st)
            if r is not None:
                return r
        """{key: [] for key in range(N)}: an int-keyed dict of (initially empty) lists = a list of N empty arrays"""
        if len(node.generators) == 1 and not node.generators[0].ifs and isinstance(node.value, ast.List) and not node.value.elts \
                and isinstance(node.key, ast.Name) and isinstance(node.generators[0].target, ast.Name) and node.key.id == node.generators[0].target.id:
            it = self.ev(node.generators[0].iter, st)
            if isinstance(it, VRange) and const_int(it.step) == 1 and const_int(it.start) == 0:
                rv, cnt, lens = st.heap.fresh_rag('int', 'dict')
                q = z3.Int(fresh_name('q'))
                st.assume(cnt == zmax(it.stop, I(0)))
                st.assume(z3.ForAll([q], z3.Implies(z3.And(q >= 0, q < cnt), lens[q] == 0)))
                return rv
        raise Unsupported('dict comprehension (only {k: [] for k in range(N)} is supported)')

    def ev_ListComp(self, node, st):
        """[elt for x in seq (if cond)*]: map -> pointwise definition; filter -> order-preserving selection with ghost maps
        sel (result index -> source index, strictly increasing) and inv (kept source index -> result index)."""
        if len(node.generators) != 1:
            raise Unsupported('list comprehension with several generators')
        comp = node.generators[0]
        src = self.ev(comp.iter, st)
        if isinstance(src, VRange):
            src = self.range_to_list(src, st)
        if isinstance(src, VGen):
            src = src.lst
        if isinstance(src, VRagItems):
            ritems = src
            n = st.heap.rags[src.rag.ref].count
            cell = None
        elif not isinstance(src, VList):
            raise Unsupported('list comprehension over %r' % (src,))
        else:
            ritems = None
            cell = st.heap.lists[src.ref]
            n = cell.length
            if cell.etype is None:
                return st.heap.alloc_list(None, z3.IntVal(0), [])
        saved = dict(st.env)

        def at(idx):
            # element expression and filter condition evaluated at source index idx (a term); obligations inside are kept
            if ritems is not None:
                self.bind_target(comp.target, VTuple([VInt(idx), self.rag_row(ritems.rag, idx, st)]), st)
            else:
                self.bind_target(comp.target, build(cell.etype, iter([a[idx] for a in cell.leaves])), st)
            conds = [self.truth(self.ev(c, st), st) for c in comp.ifs]
            val = self.ev(node.elt, st)
            return val, (z3.And(conds) if len(conds) > 1 else (conds[0] if conds else z3.BoolVal(True)))
        i = z3.Int(fresh_name('ci'))
        st.pc.append(z3.And(i >= 0, i < n))
        guard_pos = len(st.pc) - 1
        try:
            st.nofork += 1
            try:
                val_i, cond_i = at(i)
            finally:
                st.nofork -= 1
        finally:
            del st.pc[guard_pos]
            st.env = saved
        et = infer_etype(val_i)
        fl_i = flatten(et, val_i)
        if not comp.ifs:
            res, m = st.heap.fresh_list(et, 'comp')
            st.assume(m == n)
            rc = st.heap.lists[res.ref]
            if rc.leaves:
                st.assume(z3.ForAll([i], z3.Implies(z3.And(i >= 0, i < n), z3.And([r[i] == x for r, x in zip(rc.leaves, fl_i)]))))
            return res
        res, m = st.heap.fresh_list(et, 'comp')
        rc = st.heap.lists[res.ref]
        O = z3.Array(fresh_name('origin'), z3.IntSort(), z3.IntSort())
        st.heap.origins[res.ref] = O
        st.heap.origin_src = getattr(st.heap, 'origin_src', {})
        if isinstance(src, VList):
            st.heap.origin_src[res.ref] = src.ref
        sel = lambda t_: O[t_]
        inv = z3.Function(fresh_name('inv'), z3.IntSort(), z3.IntSort())
        j, j2 = z3.Int(fresh_name('cj')), z3.Int(fresh_name('cj'))
        st.assume(z3.And(m >= 0, m <= n))
        body = [sel(j) >= 0, sel(j) < n, z3.substitute(cond_i, (i, sel(j)))]
        body += [r[j] == z3.substitute(x, (i, sel(j))) for r, x in zip(rc.leaves, fl_i)]
        st.assume(z3.ForAll([j], z3.Implies(z3.And(j >= 0, j < m), z3.And(body))))
        st.assume(z3.ForAll([j, j2], z3.Implies(z3.And(j >= 0, j < j2, j2 < m), sel(j) < sel(j2))))
        st.assume(z3.ForAll([i], z3.Implies(z3.And(i >= 0, i < n, cond_i), z3.And(inv(i) >= 0, inv(i) < m, sel(inv(i)) == i))))
        return res

    def bind_target(self, target, val, st):
        if isinstance(target, ast.Name):
            st.env[target.id] = val
        elif isinstance(target, (ast.Tuple, ast.List)):
            items = self.unpack(val, len(target.elts), st, target)
            for t, v in zip(target.elts, items):
                self.bind_target(t, v, st)
        else:
            raise Unsupported('binding target %s' % type(target).__name__)

    def unpack(self, val, n, st, node):
        if isinstance(val, VTuple):
            if len(val.items) != n:
                self.oblige(st, 'unpack', 'unpack-length', z3.BoolVal(False), node, raises='ValueError')
                raise Unsupported('tuple unpack length mismatch')
            return val.items
        if isinstance(val, VList):
            cell = st.heap.lists[val.ref]
            self.oblige(st, 'unpack', 'unpack-length', cell.length == n, node, raises='ValueError')
            return [build(cell.etype, iter([a[j] for a in cell.leaves])) for j in range(n)]
        raise Unsupported('unpacking %r' % (val,))
