"""pyvc symbolic executor: generates verification conditions from the REAL function text in /repo
against sidecar contracts.  Callers are checked against callee contracts, never callee bodies; loops are
cut at invariants; nothing is unrolled."""
import ast, copy as _copy, os, time
import z3
from . import front
from .values import *  # noqa
from .state import State, Fork, Unsupported, Ob
from .expr import Evaluator, I, as_int, as_real, is_num, const_int, zmin, zmax
from .npth import NumpyTheory
from .mat import MatrixTheory, VMat, VMatMask, VCol
from .contract import REGISTRY, BY_NAME, Contract, CLASSES, UFUNCS
from . import values as _values
values_ctr = _values._ctr

EXC_PARENTS = {
    'Exception': None, 'AssertionError': 'Exception', 'ValueError': 'Exception', 'IndexError': 'LookupError',
    'LookupError': 'Exception', 'KeyError': 'LookupError', 'RuntimeError': 'Exception', 'NotImplementedError': 'RuntimeError',
    'OSError': 'Exception', 'IOError': 'Exception', 'FileNotFoundError': 'OSError', 'TypeError': 'Exception',
    'ZeroDivisionError': 'ArithmeticError', 'ArithmeticError': 'Exception', 'HTTPError': 'Exception',
    'StopIteration': 'Exception', 'AttributeError': 'Exception',
}


def exc_matches(exc, handler):
    if handler in ('IOError', 'OSError') and exc in ('IOError', 'OSError'):
        return True
    while exc is not None:
        if exc == handler:
            return True
        exc = EXC_PARENTS.get(exc)
    return False


_HQ = {}


def has_quant(t):
    k = t.get_id()
    hit = _HQ.get(k)
    if hit is not None and hit[0].eq(t):
        return hit[1]
    r = _has_quant(t)
    _HQ[k] = (t, r)      # keep t alive so that the id is not recycled
    return r


def _has_quant(t):
    seen = set()
    stack = [t]
    while stack:
        x = stack.pop()
        if x.get_id() in seen:
            continue
        seen.add(x.get_id())
        if z3.is_quantifier(x):
            return True
        stack.extend(x.children())
    return False


class Engine(MatrixTheory, NumpyTheory, Evaluator):
    BUILTINS = {'len', 'min', 'max', 'abs', 'int', 'range', 'list', 'tuple', 'isinstance', 'slice', 'all', 'any',
                'implies', 'old', 'enumerate', 'zip', 'ceil', 'floor', 'float', 'bool', 'str', 'dict', 'getattr',
                'round', 'iff', 'sorted', 'ite', 'map', 'super', 'fresh_obj', 'same_fields_except', 'is_fresh', 'psum', 'ops_fold', 'op_row', 'nblocks', 'flat', 'elems', 'is_list', 'is_none', 'smul', 'smul_def', 'sq', 'rpsum', 'same_rows', 'same_lengths', 'width', 'same_widths', 'depth', 'origin', 'empty', 'dkeys', 'dvals'}

    def __init__(self, spec_module_path=None):
        self.obs = []
        self.cur = None           # current contract
        self.cur_tag = ''
        self.cur_func_line = 0
        self.spec_funcs = {}
        self.assumed_used = set()
        self.notes = []
        self.n_paths = 0
        self.loop_nodes = {}
        self._qcache = {}
        if spec_module_path and os.path.exists(spec_module_path):
            tree = ast.parse(open(spec_module_path).read())
            for n in tree.body:
                if isinstance(n, ast.FunctionDef):
                    self.spec_funcs[n.name] = n

    # ---- cheap solver queries on the quantifier-free part of the path condition ----------------
    def _qf(self, pc):
        return [t for t in pc if not has_quant(t)]

    def quick_entails(self, pc, cond, timeout=300):
        s = z3.Solver()
        s.set('timeout', timeout)
        s.add(self._qf(pc))
        s.add(z3.Not(cond))
        return s.check() == z3.unsat

    def quick_feasible(self, pc, timeout=300):
        s = z3.Solver()
        s.set('timeout', timeout)
        s.add(self._qf(pc))
        return s.check() != z3.unsat

    # ---- obligations --------------------------------------------------------------------------------
    def oblige(self, st, kind, label, goal, node=None, raises=None):
        if st.spec:
            return
        g = z3.simplify(goal)
        line = (getattr(node, 'lineno', self.cur_func_line) - self.cur_func_line) if node is not None else 0
        name = '%s.%s.%s@L%d' % (self.cur_tag, kind, label, line)
        if z3.is_true(g):
            ob = Ob(name, kind, label, [], z3.BoolVal(True), line, self.cur.key)
            self.obs.append(ob)
            return
        # a raise that the contract allows is not an obligation: the path forks instead
        if raises and self.raise_allowed(raises) and kind != 'post':
            if st.decide(goal):
                return
            raise _Raise(raises)
        hyps = list(st.pc)
        d = str_distinct()
        if d is not None:
            hyps.append(d)
        ob = Ob(name, kind, label, hyps, goal, line, self.cur.key)
        want = getattr(self.cur, 'using', {}).get(label) or getattr(self.cur, 'using', {}).get(label.split('.', 1)[-1] if label.startswith('loop') else label)
        if want:
            # `using`: positions of the named facts (plus every quantifier-free fact) among the hypotheses: the prover tries this subset first
            ob.using = [i_ for i_, h_ in enumerate(hyps) if getattr(h_, '_label', None) in want or not has_quant(h_)]
        self.obs.append(ob)
        try:
            goal._label = label
        except Exception:
            pass
        st.assume(goal)

    def raise_allowed(self, exc):
        for e, cond, mode in self.cur.raises:
            if exc_matches(exc, e):
                return True
        return self._try_catch and any(exc_matches(exc, h) for hs in self._try_catch for h in hs)

    # ---- fresh symbolic values from type descriptors ---------------------------------------------
    def fresh_value(self, t, base, st):
        if t == 'int':
            return VInt(z3.Int(fresh_name(base)))
        if t == 'bool':
            return VBool(z3.Bool(fresh_name(base)))
        if t == 'real':
            return VReal(z3.Real(fresh_name(base)))
        if t == 'elem':
            return VElem(z3.Const(fresh_name(base), Elem))
        if t == 'none':
            return VNone()
        if t == 'str':
            return VElem(z3.Const(fresh_name(base), Elem))
        k = t[0]
        if k == 'opt':
            flag = z3.Bool(fresh_name(base + '.isnone'))
            if st.decide(flag):
                return VNone()
            return self.fresh_value(t[1], base, st)
        if k in ('list', 'arr'):
            lv, n = st.heap.fresh_list(t[1], base)
            st.assume(n >= 0)
            return VList(lv.ref, nd=(k == 'arr'))
        if k == 'block':
            # a 2-D array seen as a list of opaque rows of one (symbolic) width
            lv, n_ = st.heap.fresh_list(t[1], base)
            w_ = z3.Int(fresh_name(base + '.width'))
            st.assume(z3.And(n_ >= 0, w_ >= 0))
            return VList(lv.ref, nd=True, width=w_)
        if k == 'pairs':
            keys, kn = st.heap.fresh_list('int', base + '.keys')
            rv, cnt, lens = st.heap.fresh_rag(t[1], base)
            q = z3.Int(fresh_name('q'))
            st.assume(z3.And(kn >= 0, cnt == kn))
            st.assume(z3.ForAll([q], z3.Implies(z3.And(q >= 0, q < cnt), lens[q] >= 0)))
            return VAssoc(VList(keys.ref), rv, is_dict=False)
        if k == 'assoc':
            keys, kn = st.heap.fresh_list('int', base + '.keys')
            rv, cnt, lens = st.heap.fresh_rag(t[1], base)
            q, q2 = z3.Int(fresh_name('q')), z3.Int(fresh_name('q'))
            K_ = st.heap.lists[keys.ref].leaves[0]
            st.assume(z3.And(kn >= 0, cnt == kn))
            st.assume(z3.ForAll([q], z3.Implies(z3.And(q >= 0, q < cnt), lens[q] >= 0)))
            st.assume(z3.ForAll([q, q2], z3.Implies(z3.And(q >= 0, q < q2, q2 < kn), K_[q] != K_[q2])))     # a dict: keys pairwise distinct
            return VAssoc(VList(keys.ref), rv)
        if k in ('mat', 'flatmat', 'cube'):
            return self.fresh_mat(t[1], base, st, flat=(k == 'flatmat'), cube=(k == 'cube'))
        if k == 'rag':
            rv, cnt, lens = st.heap.fresh_rag(t[1], base)
            q = z3.Int(fresh_name('q'))
            st.assume(cnt >= 0)
            st.assume(z3.ForAll([q], z3.Implies(z3.And(q >= 0, q < cnt), lens[q] >= 0)))
            return rv
        if k == 'blocks':
            flat, n = st.heap.fresh_list(t[1], base + '.flat')
            st.assume(n >= 0)
            cnt = z3.Int(fresh_name(base + '.count'))
            st.assume(cnt >= 0)
            o = st.heap.alloc_obj('<blocks>', {'flat': flat, 'count': VInt(cnt)})
            return VBlocks(o.ref)
        if k == 'tuple':
            return VTuple([self.fresh_value(x, '%s.%d' % (base, i), st) for i, x in enumerate(t[1])])
        if k == 'slice':
            return VSlice(self.fresh_value(t[1], base + '.start', st), self.fresh_value(t[2], base + '.stop', st),
                          self.fresh_value(t[3], base + '.step', st))
        if k == 'rec':
            return VRec({n: self.fresh_value(x, '%s.%s' % (base, n), st) for n, x in t[1].items()})
        if k == 'obj':
            cls = t[1]
            fields = {}
            for fname, ft in self.class_fields(cls).items():
                fields[fname] = self.fresh_value(ft, '%s.%s' % (base, fname), st)
            return st.heap.alloc_obj(cls, fields)
        raise Unsupported('fresh value of type %r' % (t,))

    CLASS_FIELDS = {}     # class name -> {field: type descriptor}; filled from contracts' `fields`
    CLASS_FILE = {}

    def class_fields(self, cls):
        out = {}
        if cls in CLASSES:
            out.update({k: parse_type(v) for k, v in CLASSES[cls]['fields'].items()})
        if self.cur is not None and self.cur.qual.split('.')[0] == cls:
            out.update({k: parse_type(v) for k, v in self.cur.fields.items()})
        return out

    # ---- name resolution -------------------------------------------------------------------------
    def resolve_global(self, name, st):
        if name in UFUNCS:
            return VFunc('ufunc', name)
        if name in self.spec_funcs:
            return VFunc('spec', name)
        cs = [c for c in BY_NAME.get(name, []) if '.' not in c.qual]
        same = [c for c in cs if c.file == self.cur.file] or [c for c in cs if c.file == '<lib>'] or cs
        if same:
            return VFunc('contract', name, extra=same)
        if name in self.GLOBAL_CONSTS:
            return self.GLOBAL_CONSTS[name]
        if name in EXC_PARENTS:
            return VFunc('exc', name)
        return None

    GLOBAL_CONSTS = {}

    def resolve_method(self, obj, attr, st):
        cls = obj.cls
        seen = set()
        while cls and cls not in seen:
            seen.add(cls)
            cands = [c for c in BY_NAME.get('%s.%s' % (cls, attr), []) if c.qual == '%s.%s' % (cls, attr)]
            props = [c for c in cands if c.is_property]
            if props:
                return self.apply_contract(props[0], [obj], {}, st, None)
            cands = [c for c in cands if c.variant != 'setter']
            if cands:
                return VFunc('method', attr, self_val=obj, extra=cands)
            f = (CLASSES.get(cls) or {}).get('file')
            bases = front.class_bases(f, cls) if f else []
            cls = bases[0] if bases else None
        return None

    def resolve_elem_attr(self, base, attr, st):
        cands = [c for c in BY_NAME.get('elem.%s' % attr, []) if c.qual == 'elem.%s' % attr]
        if not cands:
            return None
        if cands[0].is_property:
            return self.apply_contract(cands[0], [base], {}, st, None)
        return VFunc('method', attr, self_val=base, extra=cands)

    # ---- calls -------------------------------------------------------------------------------------
    def ev_Call(self, node, st):
        # tqdm progress objects (drop list, A-LOG): the constructor result is an opaque token, update()/close() are no-ops; the argument
        # expressions of these calls are not evaluated (assumed effect-free and never raising)
        if isinstance(node.func, ast.Name) and node.func.id == 'tqdm' and 'tqdm' not in st.env:
            self.assumed_used.add('A-LOG tqdm progress object (no effect on results)')
            return VElem(z3.Const(fresh_name('tqdm'), Elem), kind='tqdm')
        if isinstance(node.func, ast.Attribute) and node.func.attr in ('update', 'close', 'set_description', 'refresh') and isinstance(node.func.value, ast.Name):
            v_ = st.env.get(node.func.value.id)
            if isinstance(v_, VElem) and getattr(v_, 'kind', None) == 'tqdm':
                return VNone()
        # special forms that must see unevaluated arguments
        if isinstance(node.func, ast.Name) and node.func.id not in st.env:
            fn = node.func.id
            if fn in ('all', 'any') and len(node.args) == 1:
                return self.quantify(node.args[0], st, fn == 'all')
            if fn == 'old':
                return self.eval_old(node.args[0], st)
            if fn == 'ite' and len(node.args) == 3 and st.spec:
                # ite(c, x, y) with a condition settled on this path: only the chosen branch is evaluated (the other may be ill-typed, e.g. None[...])
                c_ = z3.simplify(self.truth(self.ev(node.args[0], st), st))
                if z3.is_true(c_):
                    return self.ev(node.args[1], st)
                if z3.is_false(c_):
                    return self.ev(node.args[2], st)
            if fn == 'implies':
                a = self.truth(self.ev(node.args[0], st), st)
                if st.entails(z3.Not(a)):
                    return VBool(True)      # antecedent excluded on this path: the consequent need not even be well-typed
                save = len(st.pc)
                st.pc.append(a)
                try:
                    b = self.truth(self.ev(node.args[1], st), st)
                finally:
                    del st.pc[save]
                return VBool(z3.Implies(a, b))
        # super(Cls, self).__init__(...) / super().__init__(...)
        if isinstance(node.func, ast.Attribute) and isinstance(node.func.value, ast.Call) and isinstance(node.func.value.func, ast.Name) \
                and node.func.value.func.id == 'super':
            cls = self.cur.qual.split('.')[0]
            cfile = (CLASSES.get(cls) or {}).get('file') or self.cur.file
            bases = front.class_bases(cfile, cls)
            base = bases[0] if bases else 'object'
            cands = [c for c in BY_NAME.get('%s.%s' % (base, node.func.attr), []) if c.qual == '%s.%s' % (base, node.func.attr)]
            if cands:
                args = [self.ev(a, st) for a in node.args]
                return self.apply_contract(self.pick_variant(cands, [st.env['self']] + args, {}, st), [st.env['self']] + args, {}, st, node)
            if base == 'object':
                return VNone()      # object.__init__: no effect
            raise Unsupported('super().%s of %s without a contract for %s.%s' % (node.func.attr, cls, base, node.func.attr))
        f = self.ev(node.func, st)
        args = []
        for a in node.args:
            if isinstance(a, ast.Starred):
                v = self.ev(a.value, st)
                if isinstance(v, VTuple):
                    args.extend(v.items)
                else:
                    args.append(('*', v))
            else:
                args.append(self.ev(a, st))
        kw = {}
        for k in node.keywords:
            if k.arg is None:
                kw['**'] = self.ev(k.value, st)
            else:
                kw[k.arg] = self.ev(k.value, st)
        return self.call(f, args, kw, st, node)

    def call(self, f, args, kw, st, node):
        if isinstance(f, VFunc):
            if f.kind == 'builtin':
                return self.call_builtin(f.name, args, kw, st, node)
            if f.kind == 'contract':
                return self.apply_contract(self.pick_variant(f.extra, args, kw, st), args, kw, st, node)
            if f.kind == 'method':
                return self.apply_contract(self.pick_variant(f.extra, [f.self_val] + args, kw, st), [f.self_val] + args, kw, st, node)
            if f.kind == 'ndmethod':
                mark_ = len(st.pc)
                r_ = self.nd_method(f.self_val, f.name, args, kw, st, node)
                for t_ in st.pc[mark_:]:
                    if getattr(t_, '_label', None) is None:
                        try:
                            t_._label = 'theory:ndarray.' + f.name
                        except Exception:
                            pass
                return r_
            if f.kind == 'nddunder':
                # ndarray.__op__(arg) / ndarray.__op__(): row-wise (NumPy facts E1-E3, assumed; definition of op_row)
                self.assumed_used.add('<lib>::ndarray.__op__ is row-wise (E1-E3)')
                r = self.map_rows(f.self_val, f.extra, args[0] if args else VNone(), st)
                if r is None:
                    raise Unsupported('ndarray dunder on non-row data')
                return r
            if f.kind == 'assocmethod' and f.name == 'append':
                pr = args[0]
                if f.self_val.is_dict or not (isinstance(pr, VTuple) and len(pr.items) == 2 and isinstance(pr.items[1], VList)):
                    raise Unsupported('append on a dict / of a non (int, array) pair')
                self.list_append(f.self_val.keys, VInt(as_int(pr.items[0])), st)
                self.rag_append(f.self_val.vals, self.as_array(pr.items[1], st), st)
                return VNone()
            if f.kind == 'assocmethod':
                return f.self_val.vals if f.name == 'values' else f.self_val.keys
            if f.kind == 'matmethod':
                mark_ = len(st.pc)
                r_ = self.mat_method(f.self_val, f.name, args, kw, st, node)
                for t_ in st.pc[mark_:]:
                    if getattr(t_, '_label', None) is None:
                        try:
                            t_._label = 'theory:ndarray.' + f.name
                        except Exception:
                            pass
                return r_
            if f.kind == 'ragmethod' and f.name == 'items':
                return VRagItems(f.self_val)
            if f.kind == 'ragmethod':
                self.rag_append(f.self_val, self.as_array(args[0], st) if isinstance(args[0], VList) else args[0], st)
                return VNone()
            if f.kind == 'blocksmethod':
                blk = st.heap.objs[f.self_val.ref]
                rows = args[0]
                if not isinstance(rows, VList):
                    raise Unsupported('appending %r to a list of row blocks' % (rows,))
                self.list_concat(blk['flat'], rows, st, into=blk['flat'])
                blk['count'] = VInt(as_int(blk['count']) + 1)
                return VNone()
            if f.kind == 'spec':
                return self.inline_spec(f.name, args, kw, st)
            if f.kind == 'ufunc':
                asorts, rsort = UFUNCS[f.name]
                SM = {'int': z3.IntSort(), 'bool': z3.BoolSort(), 'real': z3.RealSort(), 'elem': Elem}
                fn = z3.Function(f.name, *([SM[a] for a in asorts] + [SM[rsort]]))
                ts = [flatten(a, v)[0] for a, v in zip(asorts, args)]
                return build(rsort, iter([fn(*ts)]))
            if f.kind == 'listmethod':
                return self.call_listmethod(f, args, st, node)
            if f.kind == 'recmethod':
                rec = f.self_val
                key = args[0]
                if not isinstance(key, VStr):
                    raise Unsupported('dict.get with symbolic key')
                if f.name == 'pop' and key.s in rec.fields:
                    new = VRec({k: v for k, v in rec.fields.items() if k != key.s})
                    for n_, v_ in list(st.env.items()):
                        if v_ is rec:
                            st.env[n_] = new
                if key.s in rec.fields:
                    return rec.fields[key.s]
                return args[1] if len(args) > 1 else VNone()
            if f.kind == 'module':
                return self.call_module(f.name, args, kw, st, node)
            if f.kind == 'exc':
                return VFunc('excinst', f.name)
        if isinstance(f, VElem):
            return self.call_opaque(f, args, kw, st, node)
        raise Unsupported('call of %r (line %s)' % (f, getattr(node, 'lineno', '?')))

    def call_module(self, name, args, kw, st, node):
        if name == 'math.ceil' or name == 'math.floor':
            return self.call_builtin(name.split('.')[1], args, kw, st, node)
        if name == 'copy.copy':
            return self.shallow_copy(args[0], st)
        if name == 'np.zeros' and args and isinstance(args[0], VTuple) and len(args[0].items) == 2:
            # a block of k all-zero rows of the given width (rows are opaque: ZERO_ROW(width))
            k, wdt = as_int(args[0].items[0]), as_int(args[0].items[1])
            self.oblige(st, 'pre', 'np.zeros.non-negative-shape', z3.And(k >= 0, wdt >= 0), node, raises='ValueError')
            res, n = st.heap.fresh_list('elem', 'zeros')
            st.assume(n == k)
            zr = z3.Function('zero_row', z3.IntSort(), Elem)
            q = z3.Int(fresh_name('k'))
            st.assume(z3.ForAll([q], z3.Implies(z3.And(q >= 0, q < n), st.heap.lists[res.ref].leaves[0][q] == zr(wdt))))
            return VList(res.ref, nd=True, width=wdt)
        if name in ('np.vstack', 'np.concatenate') and args and isinstance(args[0], VTuple) and all(isinstance(x, VList) for x in args[0].items):
            parts = args[0].items
            for x in parts[1:]:
                if parts[0].width is None or x.width is None:
                    raise Unsupported('np.vstack of row blocks of unknown width')
                self.oblige(st, 'pre', 'np.vstack.same-number-of-columns', parts[0].width == x.width, node, raises='ValueError')
            cur = parts[0]
            for x in parts[1:]:
                cur = self.list_concat(cur, x, st)
            return VList(cur.ref, nd=True, width=parts[0].width)
        if name in ('np.vstack', 'np.concatenate') and args and isinstance(args[0], VBlocks):
            blk = st.heap.objs[args[0].ref]
            self.oblige(st, 'pre', '%s.at-least-one-array' % name, as_int(blk['count']) >= 1, node, raises='ValueError')
            c = st.heap.lists[blk['flat'].ref]
            r = st.heap.alloc_list(c.etype, c.length, c.leaves)
            return VList(r.ref, nd=True)
        h = self.module_hook(name, args, kw, st, node)
        if h is not None:
            return h
        h = self.np_call(name, args, kw, st, node)
        if h is not None:
            return h
        raise Unsupported('library call %s (line %s)' % (name, getattr(node, 'lineno', '?')))

    def module_hook(self, name, args, kw, st, node):
        c = REGISTRY.get(('<lib>', name))
        if c is not None:
            self.assumed_used.add(c.key)
            return self.apply_contract(c, args, kw, st, node)
        return None

    def pick_variant(self, cands, args, kw, st):
        if not isinstance(cands, list):
            return cands
        if len(cands) == 1:
            c = cands[0]
            if any(str(t).startswith(('mat[', 'flatmat[', 'cube[')) for t in c.params.values()):
                env = self.bind_params(c, args, kw, st)
                if not all(self.value_matches(env[n], parse_type(t), st) for n, t in c.params.items() if n in env and str(t).startswith(('mat[', 'flatmat[', 'cube['))):
                    raise Unsupported('the only contract of %s in scope is for matrix arguments' % c.qual)
            return c
        for c in cands:
            try:
                env = self.bind_params(c, args, kw, st)
            except Unsupported:
                continue
            if all(self.value_matches(env[n], parse_type(t), st) for n, t in c.params.items() if n in env):
                # a variant whose precondition is plainly false for these (concrete) arguments is not the one meant, e.g. fn == 'x.npy'
                tmp = st.copy()
                tmp.env = dict(env)
                if 'G' in st.env:
                    tmp.env['G'] = st.env['G']
                try:
                    if any(z3.is_false(z3.simplify(self.spec_truth(e, tmp))) for lab, e in c.requires if 'G.' not in e and 'self.' not in e):
                        continue
                except Unsupported:
                    pass
                return c
        raise Unsupported('no contract variant of %s matches the argument types' % cands[0].qual)

    def value_matches(self, v, t, st):
        if t == 'int':
            return isinstance(v, VInt)
        if t == 'bool':
            return isinstance(v, VBool)
        if t == 'real':
            return isinstance(v, (VReal, VInt))
        if t in ('elem', 'str'):
            return isinstance(v, (VElem, VStr, VNone)) or t == 'elem'
        if t == 'none':
            return isinstance(v, VNone)
        k = t[0]
        if k == 'opt':
            return isinstance(v, VNone) or self.value_matches(v, t[1], st)
        if k in ('list', 'arr'):
            if not isinstance(v, VList):
                return False
            et = st.heap.lists[v.ref].etype
            return et is None or et in expand_opts(t[1])
        if k == 'tuple':
            return isinstance(v, VTuple) and len(v.items) == len(t[1]) and all(self.value_matches(x, y, st) for x, y in zip(v.items, t[1]))
        if k == 'slice':
            return isinstance(v, VSlice) and all(self.value_matches(x, y, st) for x, y in zip((v.start, v.stop, v.step), t[1:]))
        if k == 'block':
            return isinstance(v, VList) and v.nd and v.width is not None
        if k == 'assoc':
            return isinstance(v, VAssoc) and v.is_dict
        if k == 'pairs':
            return isinstance(v, VAssoc) and not v.is_dict
        if k in ('mat', 'flatmat', 'cube'):
            return isinstance(v, VMat) and v.flat == (k == 'flatmat') and st.heap.rags[v.ref].etype == t[1] and (v.depth is not None) == (k == 'cube')
        if k == 'rag':
            return isinstance(v, VRag) and not isinstance(v, VMat)
        if k == 'obj':
            return isinstance(v, VObj) and (t[1] is None or self.is_subclass(v.cls, t[1]))
        if k == 'rec':
            return isinstance(v, VRec)
        return False

    def shallow_copy(self, v, st):
        if isinstance(v, VObj):
            return st.heap.alloc_obj(v.cls, dict(st.heap.objs[v.ref]))
        if isinstance(v, VList):
            c = st.heap.lists[v.ref]
            return st.heap.alloc_list(c.etype, c.length, c.leaves)
        raise Unsupported('copy.copy of %r' % (v,))

    def call_listmethod(self, f, args, st, node):
        lv = f.self_val
        if f.name == 'append':
            self.list_append(lv, args[0], st)
            self.writeback(lv, st)
            return VNone()
        if f.name == 'extend':
            src = args[0]
            if isinstance(src, VTuple):
                for x in src.items:
                    self.list_append(lv, x, st)
                return VNone()
            if isinstance(src, VRange):
                src = self.range_to_list(src, st)
            if isinstance(src, VList):
                self.list_concat(lv, src, st, into=lv)
                return VNone()
        raise Unsupported('list.%s' % f.name)

    def call_builtin(self, name, args, kw, st, node):
        if name == 'len':
            v = args[0]
            if isinstance(v, VList):
                return VInt(st.heap.lists[v.ref].length)
            if isinstance(v, VTuple):
                return VInt(len(v.items))
            if isinstance(v, VRange):
                if const_int(v.step) == 1:
                    return VInt(zmax(v.stop - v.start, I(0)))
            if isinstance(v, VRag):
                return VInt(st.heap.rags[v.ref].count)
            if isinstance(v, VElem):
                f = z3.Function('elem_len', Elem, z3.IntSort())
                st.assume(f(v.t) >= 0)
                return VInt(f(v.t))
            h = self.len_hook(v, st)
            if h is not None:
                return h
            raise Unsupported('len of %r' % (v,))
        if name in ('min', 'max'):
            if len(args) == 1 and isinstance(args[0], VTuple):
                args = args[0].items
            if not all(is_num(a) for a in args):
                raise Unsupported('%s over non-numbers' % name)
            real = any(isinstance(a, VReal) for a in args)
            ts = [as_real(a) if real else as_int(a) for a in args]
            r = ts[0]
            for t in ts[1:]:
                r = (zmin if name == 'min' else zmax)(r, t)
            return VReal(r) if real else VInt(r)
        if name == 'abs':
            t = as_int(args[0])
            return VInt(z3.If(t >= 0, t, -t))
        if name == 'int':
            v = args[0]
            if isinstance(v, (VInt, VBool)):
                return VInt(as_int(v))
            if isinstance(v, VReal):
                # int() truncates toward zero
                return VInt(z3.If(v.t >= 0, z3.ToInt(v.t), -z3.ToInt(-v.t)))
            raise Unsupported('int(%r)' % (v,))
        if name == 'float':
            return VReal(as_real(args[0]))
        if name == 'bool':
            return VBool(self.truth(args[0], st))
        if name == 'round':
            v = args[0]
            if isinstance(v, VInt):
                return v
            # round-half-even; leave abstract but bounded: |round(x) - x| <= 1/2
            r = z3.Int(fresh_name('round'))
            st.assume(z3.And(z3.ToReal(r) - as_real(v) <= z3.RealVal('1/2'), as_real(v) - z3.ToReal(r) <= z3.RealVal('1/2')))
            return VInt(r)
        if name in ('ceil', 'floor'):
            v = args[0]
            if isinstance(v, VInt):
                return v
            fl = z3.ToInt(as_real(v))
            return VInt(fl if name == 'floor' else z3.If(z3.ToReal(fl) == as_real(v), fl, fl + 1))
        if name == 'range':
            ts = [as_int(a) for a in args]
            if len(ts) == 1:
                return VRange(I(0), ts[0], I(1))
            if len(ts) == 2:
                return VRange(ts[0], ts[1], I(1))
            self.oblige(st, 'pre', 'range-step-positive', ts[2] > 0, node)
            return VRange(ts[0], ts[1], ts[2])
        if name == 'list':
            if not args:
                return st.heap.alloc_list(None, z3.IntVal(0), [])
            v = args[0]
            if isinstance(v, VRag):
                return v          # list(d.values()): the list of arrays itself (never mutated afterwards by the modelled code)
            if isinstance(v, VList):
                c = st.heap.lists[v.ref]
                return st.heap.alloc_list(c.etype, c.length, c.leaves)
            if isinstance(v, VRange):
                return self.range_to_list(v, st)
            if isinstance(v, VTuple):
                return self.list_literal(v.items, st)
            if isinstance(v, VGen):
                return v.lst
            raise Unsupported('list(%r)' % (v,))
        if name == 'tuple':
            v = args[0]
            if isinstance(v, VTuple):
                return v
            raise Unsupported('tuple(%r)' % (v,))
        if name == 'slice':
            a = list(args) + [VNone()] * (3 - len(args))
            if len(args) == 1:
                a = [VNone(), args[0], VNone()]
            return VSlice(*a)
        if name == 'isinstance':
            return VBool(self.isinstance_(args[0], args[1], st))
        if name == 'enumerate' and args and isinstance(args[0], VFunc) and args[0].kind == 'zip':
            start = as_int(kw['start']) if 'start' in kw else (as_int(args[1]) if len(args) > 1 else I(0))
            return VFunc('enumzip', 'enumzip', self_val=start, extra=args[0].extra)
        if name in ('enumerate', 'zip'):
            seqs = [self.range_to_list(a, st) if isinstance(a, VRange) else a for a in args]
            start = as_int(kw['start']) if 'start' in kw else (as_int(args[1]) if name == 'enumerate' and len(args) > 1 else I(0))
            if name == 'enumerate':
                seqs = seqs[:1]
            return VFunc(name, name, self_val=start, extra=seqs)
        if name == 'iff':
            return VBool(self.truth(args[0], st) == self.truth(args[1], st))
        if name == 'ite':
            c0 = z3.simplify(self.truth(args[0], st))
            if z3.is_true(c0):
                return args[1]
            if z3.is_false(c0):
                return args[2]
            return self.merge_if(c0, args[1], args[2], st)
        if name == 'getattr':
            if isinstance(args[1], VDunder) and isinstance(args[0], VList):
                return VFunc('nddunder', 'dunder', self_val=args[0], extra=args[1].op)
            if isinstance(args[1], VStr) and isinstance(args[0], VElem) and len(args) > 2 and args[1].s.startswith('__'):
                # getattr(opaque, '__x__', default): an opaque value determined by the object and the default (A-PURE: no side effect)
                g_ = z3.Function('getattr_' + args[1].s.strip('_'), Elem, Elem, Elem)
                d_ = args[2]
                d_t = flatten('elem', d_)[0] if isinstance(d_, (VElem, VNone, VStr)) else z3.Const(fresh_name('dflt'), Elem)
                return VElem(g_(args[0].t, d_t))
            if isinstance(args[1], VStr):
                try:
                    return self.getattr_(args[0], args[1].s, st, node)
                except Unsupported:
                    if len(args) > 2:
                        return args[2]
                    raise
        if name == 'str' and len(args) == 1 and isinstance(args[0], VElem):
            # str(opaque): an opaque string determined by the object (A-PURE: __str__ has no side effect)
            return VElem(z3.Function('str_of', Elem, Elem)(args[0].t))
        if name == 'is_list':
            return VBool(isinstance(args[0], VList))
        if name == 'is_none':
            return VBool(isinstance(args[0], VNone))
        if name == 'elems':
            return VFunc('elems', 'elems')
        if name == 'nblocks':
            return st.heap.objs[args[0].ref]['count']
        if name == 'flat':
            return st.heap.objs[args[0].ref]['flat']
        if name == 'op_row':
            f = z3.Function('op_row', Elem, Elem, Elem, Elem)
            return VElem(f(*[flatten('elem', a)[0] for a in args]))
        if name == 'ops_fold':
            # fold of the deferred operator list over ONE row: ops_fold(ops, n, row) applies the first n operators in order.
            # Definitional axioms (unfold, base) are emitted per list term; prefix-determinacy for Store-built lists is the
            # generic fold lemma (bridging lemma L6, DESIGN 2.11).
            lv, n, row = args[0], as_int(args[1]), flatten('elem', args[2])[0]
            cell = st.heap.lists[lv.ref]
            if cell.etype != ('tuple', ['elem', 'elem']):
                raise Unsupported('ops_fold over a list that is not list[tuple[elem,elem]]')
            A, B = cell.leaves
            AS = z3.ArraySort(z3.IntSort(), Elem)
            F = z3.Function('ops_fold', AS, AS, z3.IntSort(), Elem, Elem)
            OPR = z3.Function('op_row', Elem, Elem, Elem, Elem)
            key = ('ops_fold', A.get_id(), B.get_id())
            if not any(getattr(t, '_ax_key', None) == key for t in st.pc):
                m, r = z3.Int(fresh_name('m')), z3.Const(fresh_name('r'), Elem)
                ax = [z3.ForAll([r], F(A, B, z3.IntVal(0), r) == r),
                      z3.ForAll([m, r], z3.Implies(m >= 1, F(A, B, m, r) == OPR(A[m - 1], B[m - 1], F(A, B, m - 1, r))))]
                a0, b0 = A, B
                while z3.is_store(a0) and z3.is_store(b0) and a0.children()[1].eq(b0.children()[1]):
                    i = a0.children()[1]
                    a1, b1 = a0.children()[0], b0.children()[0]
                    m2, r2 = z3.Int(fresh_name('m')), z3.Const(fresh_name('r'), Elem)
                    ax.append(z3.ForAll([m2, r2], z3.Implies(z3.And(m2 >= 0, m2 <= i), F(a0, b0, m2, r2) == F(a1, b1, m2, r2))))
                    a0, b0 = a1, b1
                t = z3.And(ax)
                t._ax_key = key
                st.pc.append(t)
            return VElem(F(A, B, n, row))
        if name == 'rpsum':
            # rpsum(list_of_arrays, p): number of elements in the first p arrays
            rc = st.heap.rags[args[0].ref]
            return VInt(self.rag_psum(rc, st)(as_int(args[1])))
        if name == 'dkeys':
            return args[0].keys
        if name == 'dvals':
            return args[0].vals
        if name == 'empty':
            # empty('int') / empty('elem'): a typed empty list (initial value of ghost traces)
            et_ = parse_type(args[0].s)
            return st.heap.alloc_list(et_, z3.IntVal(0), [z3.K(z3.IntSort(), self.default_of(s_)) for s_ in leaf_sorts(et_)])
        if name == 'origin':
            # origin(L, p): index, in the list L was selected from, of the element at position p (L built by filter comprehensions / their concatenation)
            # origin(L, p, S): the same, checked to be relative to the list S (L may also be S itself: the position)
            if len(args) > 2 and isinstance(args[2], VList) and args[2].ref == args[0].ref:
                return VInt(as_int(args[1]))
            O = st.heap.origins.get(args[0].ref)
            if O is None:
                raise Unsupported('origin() of a list that is not a selection')
            if len(args) > 2 and getattr(st.heap, 'origin_src', {}).get(args[0].ref) != getattr(args[2], 'ref', None):
                raise Unsupported('origin() relative to a list the value was not selected from')
            return VInt(O[as_int(args[1])])
        if name == 'depth':
            return VInt(args[0].depth)
        if name == 'width':
            return VInt(self.mcell(args[0], st)[2])
        if name == 'same_widths':
            return VBool(self.mcell(args[0], st)[2] == self.mcell(args[1], st)[2])
        if name == 'same_lengths':
            ra, rb = st.heap.rags[args[0].ref], st.heap.rags[args[1].ref]
            return VBool(z3.And(ra.count == rb.count, ra.lens == rb.lens))
        if name == 'same_rows':
            # same_rows(a, b): two lists of arrays with equal count, equal lengths and equal content
            ra, rb = st.heap.rags[args[0].ref], st.heap.rags[args[1].ref]
            q = z3.Int(fresh_name('q'))
            return VBool(z3.And(ra.count == rb.count, ra.lens == rb.lens, z3.ForAll([q], z3.Implies(z3.And(q >= 0, q < ra.count), ra.data[q] == rb.data[q]))))
        if name == 'sq':
            SQ = z3.Function('sq', z3.RealSort(), z3.RealSort())
            if not any(getattr(t_, '_ax_key', None) == 'sq' for t_ in st.pc):
                tq = z3.Real(fresh_name('t'))
                ax = z3.ForAll([tq], z3.And(SQ(tq) >= 0, (SQ(tq) == 0) == (tq == 0)))
                ax._ax_key = 'sq'
                st.pc.append(ax)
            return VReal(SQ(as_real(args[0])))
        if name == 'smul_def':
            # explicit instance of the DEFINITION smul(q, s) == q * s at ground terms chosen by the contract
            q, sv = as_int(args[0]), as_int(args[1])
            f = z3.Function('smul', z3.IntSort(), z3.IntSort(), z3.IntSort())
            st.pc.append(f(q, sv) == q * sv)
            return VBool(True)
        if name == 'smul':
            # q * s for a symbolic stride s, kept linear: uninterpreted with the recurrence that defines multiplication on q >= 0
            # (smul(0,s)=0, smul(q+1,s)=smul(q,s)+s) and its monotonicity consequence; the concrete side evaluates q*s.
            q, sv = as_int(args[0]), as_int(args[1])
            f = z3.Function('smul', z3.IntSort(), z3.IntSort(), z3.IntSort())
            key = ('smul', sv.get_id())
            if not any(getattr(t, '_ax_key', None) == key for t in st.pc):
                a, b = z3.Int(fresh_name('q')), z3.Int(fresh_name('q'))
                ax = z3.And(f(z3.IntVal(0), sv) == 0,
                            z3.ForAll([a], f(a + 1, sv) == f(a, sv) + sv),
                            z3.ForAll([a, b], z3.Implies(z3.And(a < b, sv >= 1), f(a, sv) + sv <= f(b, sv))))
                ax._ax_key = key
                st.pc.append(ax)
            cq = const_int(q)
            if cq is not None and 0 <= cq <= 3:
                return VInt(cq * sv)
            return VInt(f(q, sv))
        if name == 'psum':
            # prefix sum of the first k elements of an int list: uninterpreted with its recursive definition as axioms
            lv, k = args[0], as_int(args[1])
            cell = st.heap.lists[lv.ref]
            arr = cell.leaves[0]
            f = z3.Function('psum', z3.ArraySort(z3.IntSort(), z3.IntSort()), z3.IntSort(), z3.IntSort())
            key = ('psum', arr.get_id())
            if not any(getattr(t, '_psum_key', None) == key for t in st.pc):
                q = z3.Int(fresh_name('q'))
                ax = z3.And(f(arr, z3.IntVal(0)) == 0, z3.ForAll([q], z3.Implies(q >= 0, f(arr, q + 1) == f(arr, q) + arr[q])))
                ax._psum_key = key
                st.pc.append(ax)
            return VInt(f(arr, k))
        if name == 'is_fresh':
            v = args[0]
            return VBool(z3.BoolVal(isinstance(v, (VObj, VList)) and v.ref >= st.old['next_ref']))
        if name == 'same_fields_except':
            a, b = args[0], args[1]
            skip = {x.s for x in args[2:]}
            fa, fb = st.heap.objs[a.ref], st.heap.objs[b.ref]
            ts = [z3.BoolVal(set(fa) == set(fb))]
            for k in fa:
                if k in skip or k not in fb:
                    continue
                ts.append(self.identical_or_eq(fa[k], fb[k], st))
            return VBool(z3.And(ts))
        raise Unsupported('builtin %s (line %s)' % (name, getattr(node, 'lineno', '?')))

    def identical_or_eq(self, a, b, st):
        if isinstance(a, (VObj, VList)) or isinstance(b, (VObj, VList)):
            return self.identical(a, b, st)
        return self.eq(a, b, st)

    def len_hook(self, v, st):
        return None

    def isinstance_(self, v, t, st):
        names = []

        def collect(x):
            if isinstance(x, VTuple):
                for y in x.items:
                    collect(y)
            elif isinstance(x, VFunc):
                names.append(x.name)
            else:
                raise Unsupported('isinstance against %r' % (x,))
        collect(t)
        for n in names:
            n = n.split('.')[-1]
            if n == 'slice' and isinstance(v, VSlice):
                return z3.BoolVal(True)
            if n == 'tuple' and isinstance(v, VTuple):
                return z3.BoolVal(True)
            if n in ('list', 'ndarray') and isinstance(v, VList):
                return z3.BoolVal(True)
            if n in ('int', 'generic') and isinstance(v, VInt):
                return z3.BoolVal(True)
            if n == 'str' and isinstance(v, VStr):
                return z3.BoolVal(True)
            if n == 'dict' and isinstance(v, VRec):
                return z3.BoolVal(True)
            if n in ('float',) and isinstance(v, VReal):
                return z3.BoolVal(True)
            if isinstance(v, VObj) and self.is_subclass(v.cls, n):
                return z3.BoolVal(True)
        if isinstance(v, VElem):
            if v.kind is None:
                raise Unsupported('isinstance on an opaque value of undeclared kind')
            return z3.BoolVal(any(n.split('.')[-1] == v.kind for n in names))
        return z3.BoolVal(False)

    def is_subclass(self, cls, name):
        seen = set()
        while cls and cls not in seen:
            if cls == name:
                return True
            seen.add(cls)
            f = (CLASSES.get(cls) or {}).get('file')
            bases = front.class_bases(f, cls) if f else []
            cls = bases[0] if bases else None
        return False

    # ---- old(...) -----------------------------------------------------------------------------------
    def eval_old(self, node, st):
        if st.old is None:
            raise Unsupported('old() outside a postcondition')
        tmp = st.copy()
        tmp.env = dict(st.old['env'])
        tmp.heap = st.old['heap'].copy()
        tmp.ghost = dict(st.old['ghost'])
        tmp.spec = 1
        v = self.ev(node, tmp)
        # lists created while evaluating old(...) (e.g. old(list(x))) must be visible in st
        for r, c in tmp.heap.lists.items():
            if r not in st.heap.lists:
                st.heap.lists[r] = c
        for r, c in tmp.heap.objs.items():
            if r not in st.heap.objs:
                st.heap.objs[r] = c
        for t in tmp.pc[len(st.pc):]:
            st.assume(t)
        if isinstance(v, VList) and v.ref in st.old['heap'].lists:
            # a reference into the pre-state: hand out a frozen snapshot of its old content
            c = st.old['heap'].lists[v.ref]
            v = VList(st.heap.alloc_list(c.etype, c.length, c.leaves).ref, nd=v.nd)
        return v

    # ---- spec functions are inlined (they are definitions, not code under test) ------------------------
    def inline_spec(self, name, args, kw, st):
        fn = self.spec_funcs[name]
        sub = st.copy()
        sub.env = {}
        sub.spec = st.spec + 1
        params = [a.arg for a in fn.args.args]
        for p, v in zip(params, args):
            sub.env[p] = v
        for k, v in kw.items():
            sub.env[k] = v
        sub.heap = st.heap      # share: spec functions only read
        sub.status, sub.retval, sub.exc = 'run', None, None
        sub.specfork = 1
        sub.nofork = 0
        nd = len(sub.decisions)
        mark = len(self.obs)
        outs = self.exec_block(fn.body, [sub])
        del self.obs[mark:]     # specification functions generate no obligations
        rets = [o for o in outs if o.status == 'return']
        if not rets or len(rets) != len(outs):
            raise Unsupported('spec function %s must return on every path' % name)
        if len(rets) == 1:
            for t in rets[0].pc[len(st.pc):]:
                st.assume(t)
            return rets[0].retval
        val = rets[-1].retval
        for r in reversed(rets[:-1]):
            c = z3.And(r.decisions[nd:]) if len(r.decisions) - nd != 1 else r.decisions[nd]
            val = self.merge_if(c, r.retval, val, st)
        return val

    # ---- opaque callbacks (monitors) ----------------------------------------------------------------
    def call_opaque(self, f, args, kw, st, node):
        mon = self.cur.on_call
        if not mon:
            raise Unsupported('call of an opaque callable without an on_call monitor')
        sub_env = dict(st.env)
        st.env['callee'] = f
        st.env['call_args'] = VTuple([a for a in args if not isinstance(a, tuple)])
        st.env['call_star'] = VTuple([a[1] for a in args if isinstance(a, tuple)])
        st.env['call_kwargs'] = kw.get('**', VNone())
        for k, v in (mon.get('bind') or {}).items():
            st.env[k] = self.spec_eval(v, st)
        for lab, e in mon.get('requires', []):
            self.oblige(st, 'monitor', 'call.' + lab, self.spec_truth(e, st), node)
        ret = self.fresh_value(parse_type(mon.get('returns', 'elem')), 'ret', st)
        st.env['call_ret'] = ret
        for lab, e in mon.get('assume', []):
            # what the contract ASSUMES about the callback (part of the function's precondition: "given a callback that ...")
            st.assume(self.spec_truth(e, st))
            self.assumed_used.add('<callback>::' + lab)
        for g, e in (mon.get('updates') or {}).items():
            st.ghost[g] = self.spec_eval(e, st)
        for k in ('callee', 'call_args', 'call_star', 'call_kwargs', 'call_ret'):
            st.env.pop(k, None)
        for k in (mon.get('bind') or {}):
            st.env.pop(k, None)
        for k, v in sub_env.items():
            st.env[k] = v
        return ret

    # ---- spec expression helpers ---------------------------------------------------------------------
    def spec_eval(self, expr, st):
        node = ast.parse(expr, mode='eval').body
        st.spec += 1
        try:
            return self.ev(node, st)
        finally:
            st.spec -= 1

    def spec_truth(self, expr, st):
        return self.truth(self.spec_eval(expr, st), st)

    # ---- applying a callee contract ---------------------------------------------------------------------
    def bind_params(self, c, args, kw, st):
        names = list(c.params)
        if '.' in c.qual and 'self' not in names and c.file != '<lib>':
            names = ['self'] + names
        env = {}
        pos = [a for a in args if not isinstance(a, tuple)]
        if len(pos) > len(names) and not c.varargs:
            raise Unsupported('too many arguments for %s' % c.qual)
        for n, v in zip(names, pos):
            env[n] = v
        if c.varargs:
            stars = [a[1] for a in args if isinstance(a, tuple) and a[0] == '*']
            if stars and len(pos) <= len(names):
                env[c.varargs] = stars[0]         # f(*list_of_arrays): the star argument as a whole
            else:
                env[c.varargs] = VTuple(pos[len(names):])
        for k, v in kw.items():
            if k == '**':
                continue
            if k in names:
                env[k] = v
            elif c.kwargs:
                env.setdefault(c.kwargs, VRec({})).fields[k] = v
            else:
                raise Unsupported('unexpected keyword %s for %s' % (k, c.qual))
        for n in names:
            if n not in env:
                if n in c.defaults:
                    env[n] = self.spec_eval(c.defaults[n], st)
                else:
                    raise Unsupported('missing argument %s for %s' % (n, c.qual))
        return env

    def apply_contract(self, c, args, kw, st, node):
        if st.spec or not self.cur_tag or (isinstance(c.result, str) and 'opt[' in c.result):
            # (opt results fork on a fresh flag: the branch contradicting the ensures is infeasible by construction)
            return self._apply_contract(c, args, kw, st, node)
        line = (getattr(node, 'lineno', self.cur_func_line) - self.cur_func_line) if node is not None else 0
        self._canary_n = getattr(self, '_canary_n', 0) + 1
        nm = '%s.canary.%s@L%d#%d' % (self.cur_tag, c.qual, line, self._canary_n)
        before = Ob(nm + '.before', 'cover', 'consistent-before-call', list(st.pc), None, line, self.cur.key)
        res = self._apply_contract(c, args, kw, st, node)
        after = Ob(nm + '.after', 'cover', 'consistent-after-call', list(st.pc), None, line, self.cur.key)
        self.obs.append(before)
        self.obs.append(after)
        return res

    def _apply_contract(self, c, args, kw, st, node):
        if c.kind == 'assumed':
            self.assumed_used.add(c.key)
        env = self.bind_params(c, args, kw, st)
        if 'G' in st.env and 'G' not in env:
            env['G'] = st.env['G']
        saved_env, saved_ghost = st.env, st.ghost
        old = st.old
        st.env = dict(env)
        st.ghost = {}
        try:
            st.old = {'env': dict(env), 'heap': st.heap.copy(), 'ghost': {}, 'next_ref': st.heap.next_ref[0]}
            for n, e in c.let.items():
                st.env[n] = self.spec_eval(e, st)
            for lab, e in c.requires:
                g = self.spec_truth(e, st)
                self.oblige(st, 'pre', '%s.%s' % (c.qual, lab), g, node)
            # exceptional exits
            for exc, cond, mode in c.raises:
                ct = self.spec_truth(cond, st)
                if z3.is_false(z3.simplify(ct)):
                    continue
                st.env, st.ghost, st.old = saved_env, saved_ghost, old
                if mode == 'iff':
                    d = st.decide(ct)
                    if d:
                        raise _Raise(exc)
                else:
                    flag = z3.Bool(fresh_name('raises_' + exc))
                    d = st.decide(z3.And(ct, flag))
                    if d:
                        raise _Raise(exc)
                st.env = dict(env)
                st.ghost = {}
                st.old = {'env': dict(env), 'heap': st.heap.copy(), 'ghost': {}, 'next_ref': st.heap.next_ref[0]}
                for n, e in c.let.items():
                    st.env[n] = self.spec_eval(e, st)
            # havoc what the callee may modify (ghost fields assigned by the callee's contract included)
            for m in list(c.modifies) + [g for g in c.ghost_exit if g not in c.modifies]:
                self.havoc_target(m, st)
            # result
            if c.on_yield:
                res = self.generator_summary(c, st, node)
                return res
            if c.result is None:
                res = VNone()
            elif c.result_from and 'fields_of' in c.result_from:
                # a record built from keyword arguments (Bunch(**kw)): the result's fields ARE the given values (same references)
                kwv = env[c.result_from['fields_of']]
                res = st.heap.alloc_obj(c.result_from['cls'], dict(kwv.fields))
            elif c.result_from:
                src = env[c.result_from['copy_of']]
                res = st.heap.alloc_obj(src.cls, dict(st.heap.objs[src.ref]))
                ftypes = {k: parse_type(v) for k, v in c.fields.items()}
                for fname in c.result_from.get('fresh', []):
                    st.heap.objs[res.ref][fname] = self.fresh_value(ftypes[fname], '%s.res.%s' % (c.qual.split('.')[-1], fname), st)
            else:
                res = self.fresh_value(parse_type(c.result) if isinstance(c.result, str) else c.result, c.qual.split('.')[-1] + '.res', st)
            st.env['result'] = res
            for tgt, e in c.ghost_exit.items():
                st.assume(self.eq(self.spec_eval(tgt, st), self.spec_eval(e, st), st))
            for lab, e in c.ensures:
                t_ = self.spec_truth(e, st)
                try:
                    if getattr(t_, '_label', None) is None:
                        t_._label = '%s.%s' % (c.qual.split('.')[-1], lab)       # `using` can name a callee's postcondition: 'callee.label'
                except Exception:
                    pass
                st.assume(t_)
            for lab, e in c.defines:
                self.assumed_used.add('A-DEF %s: %s' % (c.key, lab))
                st.assume(self.spec_truth(e, st))
            return res
        finally:
            st.env, st.ghost, st.old = saved_env, saved_ghost, old

    def generator_summary(self, c, st, node):
        """The sequence of values a contracted generator yields, from its PROVED yield monitor: a list L of n >= 0 tuples and, per ghost
        variable g of the callee, a sequence G_g[0..n] with G_g[0] = init, and for every i < n: requires(L[i], G[i]) and
        G_g[i+1] = update_g(L[i], G[i]); at_exit(G[n]).  (st.env holds the callee's parameters; called from _apply_contract.)"""
        mon = c.on_yield
        names = list(mon.get('vars', []))
        types = mon.get('types') or ['int'] * len(names)
        if any(t != 'int' for t in types):
            raise Unsupported('generator summary: only integer yield values')
        self.assumed_used.add('generator summary of %s from its proved yield monitor' % c.key)
        et = ('tuple', ['int'] * len(names)) if len(names) > 1 else 'int'
        lst, n = st.heap.fresh_list(et, c.qual.split('.')[-1] + '.yields')
        st.assume(n >= 0)
        leaves = st.heap.lists[lst.ref].leaves
        garr = {g: z3.Array(fresh_name('gen_' + g), z3.IntSort(), z3.IntSort()) for g in c.ghost}
        for g, e in c.ghost.items():
            st.assume(garr[g][0] == as_int(self.spec_eval(e, st)))
        i = z3.Int(fresh_name('y'))
        rng = z3.And(i >= 0, i < n)
        saved = dict(st.env)
        st.pc.append(rng)
        gpos = len(st.pc) - 1
        facts = []
        try:
            for k_, nm in enumerate(names):
                st.env[nm] = VInt(leaves[k_][i])
            for g in c.ghost:
                st.env[g] = VInt(garr[g][i])
            st.ghost = dict((g, VInt(garr[g][i])) for g in c.ghost)
            for lab, e in mon.get('requires', []):
                facts.append(self.spec_truth(e, st))
            for g, e in (mon.get('updates') or {}).items():
                facts.append(garr[g][i + 1] == as_int(self.spec_eval(e, st)))
            for g in c.ghost:
                if g not in (mon.get('updates') or {}):
                    facts.append(garr[g][i + 1] == garr[g][i])
        finally:
            del st.pc[gpos]
            st.env = saved
        for f_ in facts:
            t_ = z3.ForAll([i], z3.Implies(rng, f_))
            try:
                t_._label = 'theory:generator'
            except Exception:
                pass
            st.assume(t_)
        # at exit
        for g in c.ghost:
            st.env[g] = VInt(garr[g][n])
        st.ghost = dict((g, VInt(garr[g][n])) for g in c.ghost)
        for lab, e in c.at_exit:
            st.assume(self.spec_truth(e, st))
        for g in c.ghost:
            st.env.pop(g, None)
        return VGen(lst)

    def rag_row(self, rag, k, st):
        """the k-th array of a list of arrays, as an array value that writes back into the list when mutated in place"""
        rc = st.heap.rags[rag.ref]
        row = st.heap.alloc_list(rc.etype, rc.lens[k], [rc.data[k]])
        v = VList(row.ref, nd=True)
        v.owner = (rag.ref, k)
        return v

    def writeback(self, v, st):
        own = getattr(v, 'owner', None)
        if own is None:
            return
        rref, k = own
        rc = st.heap.rags[rref]
        cell = st.heap.lists[v.ref]
        same_len = cell.length.eq(rc.lens[k]) or st.entails(cell.length == rc.lens[k])
        st.heap.rags[rref] = RagCell(rc.etype, rc.count, rc.lens if same_len else z3.Store(rc.lens, k, cell.length), z3.Store(rc.data, k, cell.leaves[0]))

    def rag_append(self, rag, row, st):
        rc = st.heap.rags[rag.ref]
        cell = st.heap.lists[row.ref]
        if cell.etype != rc.etype:
            raise Unsupported('appending an array of %r to a list of %r arrays' % (cell.etype, rc.etype))
        st.heap.rags[rag.ref] = RagCell(rc.etype, rc.count + 1, z3.Store(rc.lens, rc.count, cell.length), z3.Store(rc.data, rc.count, cell.leaves[0]))

    def havoc_target(self, m, st):
        parts = m.split('.')
        v = st.env[parts[0]]
        if len(parts) == 1:
            if isinstance(v, VList):
                cell = st.heap.lists[v.ref]
                tmp, n = st.heap.fresh_list(cell.etype, parts[0])
                st.assume(n >= 0)
                st.heap.lists[v.ref] = st.heap.lists.pop(tmp.ref)
                return
            raise Unsupported('modifies %s' % m)
        obj = v
        for p in parts[1:-1]:
            obj = st.heap.objs[obj.ref][p]
        cur = st.heap.objs[obj.ref].get(parts[-1])
        if isinstance(cur, VList):
            cell = st.heap.lists[cur.ref]
            tmp, n = st.heap.fresh_list(cell.etype, parts[-1])
            st.assume(n >= 0)
            st.heap.lists[cur.ref] = st.heap.lists.pop(tmp.ref)
        else:
            t = infer_etype(cur)
            st.heap.objs[obj.ref][parts[-1]] = self.fresh_value(t, parts[-1], st)

    # ====================================================================================================
    # statements
    # ====================================================================================================
    _try_catch = ()

    def exec_block(self, stmts, states):
        for stmt in stmts:
            if front.is_dropped_stmt(stmt):
                continue
            if self.cur is not None and self.cur.cuts and not any(s_.spec for s_ in states):
                self.apply_cuts(stmt, states, before=True)
            nxt = []
            for s in states:
                if s.status != 'run':
                    nxt.append(s)
                else:
                    nxt.extend(self.exec_stmt(stmt, s))
            states = nxt
            if self.cur is not None and self.cur.cuts and not any(s_.spec for s_ in states):
                self.apply_cuts(stmt, states)
        return states

    def apply_cuts(self, stmt, states, before=False):
        try:
            text = ' '.join(ast.unparse(stmt).split())
        except Exception:
            return
        for pref, lab, e in self.cur.cuts:
            if pref.startswith('before:') != before:
                continue
            if before:
                pref = pref[len('before:'):]
            if not text.startswith(' '.join(pref.split())):
                continue
            self._cuts_hit = getattr(self, '_cuts_hit', set()) | {(self.cur.key, lab)}
            for s in states:
                if s.status == 'run':
                    if lab.startswith('lemma:L3'):
                        # Lean-checked lemma L3 (lean/L3_step_exists.lean) instantiated for one integer array: between two positions holding
                        # different values there are two consecutive positions holding different values
                        lv_ = self.spec_eval(e, s)
                        cl_ = s.heap.lists[lv_.ref]
                        a_, b_, q_ = z3.Int(fresh_name('a')), z3.Int(fresh_name('b')), z3.Int(fresh_name('q'))
                        S_ = cl_.leaves[0]
                        ax_ = z3.ForAll([a_, b_], z3.Implies(z3.And(a_ >= 0, a_ < b_, b_ < cl_.length, S_[a_] != S_[b_]),
                                                             z3.Exists([q_], z3.And(a_ < q_, q_ <= b_, S_[q_ - 1] != S_[q_]))))
                        ax_._label = 'lemma:L3'
                        s.assume(ax_)
                        self.assumed_used.add('<lean>::L3 step-exists (machine-checked by setup)')
                    elif lab.startswith('lemma:L1'):
                        # Lean-checked lemma L1 (lean/L1_sorted_same_members.lean) for two integer lists: strictly increasing + same members => equal
                        pa_, pb_ = self.spec_eval(e, s).items
                        ca_, cb_ = s.heap.lists[pa_.ref], s.heap.lists[pb_.ref]
                        A_, B_ = ca_.leaves[0], cb_.leaves[0]
                        i_, j_, k_ = z3.Int(fresh_name('i')), z3.Int(fresh_name('j')), z3.Int(fresh_name('k'))
                        incA = z3.ForAll([i_, j_], z3.Implies(z3.And(i_ >= 0, i_ < j_, j_ < ca_.length), A_[i_] < A_[j_]))
                        incB = z3.ForAll([i_, j_], z3.Implies(z3.And(i_ >= 0, i_ < j_, j_ < cb_.length), B_[i_] < B_[j_]))
                        ainb = z3.ForAll([i_], z3.Implies(z3.And(i_ >= 0, i_ < ca_.length), z3.Exists([j_], z3.And(j_ >= 0, j_ < cb_.length, B_[j_] == A_[i_]))))
                        bina = z3.ForAll([i_], z3.Implies(z3.And(i_ >= 0, i_ < cb_.length), z3.Exists([j_], z3.And(j_ >= 0, j_ < ca_.length, A_[j_] == B_[i_]))))
                        ax_ = z3.Implies(z3.And(incA, incB, ainb, bina), z3.And(ca_.length == cb_.length, z3.ForAll([k_], z3.Implies(z3.And(k_ >= 0, k_ < ca_.length), A_[k_] == B_[k_]))))
                        ax_._label = 'lemma:L1'
                        s.assume(ax_)
                        self.assumed_used.add('<lean>::L1 sorted-same-members (machine-checked by setup)')
                    elif lab.startswith('lemma:L4'):
                        # Lean-checked lemma L4 (lean/L4_floor_index.lean) for one integer list: every p at or above the first element has a
                        # floor position k (idx[k] <= p, and p < idx[k+1] when k+1 exists)
                        lv_ = self.spec_eval(e, s)
                        over_ = None
                        if isinstance(lv_, VTuple):          # (idx, A): only for the positions p of the array A (gives p a trigger)
                            lv_, over_ = lv_.items
                        cl_ = s.heap.lists[lv_.ref]
                        p_, k_ = z3.Int(fresh_name('p')), z3.Int(fresh_name('k'))
                        X_ = cl_.leaves[0]
                        rng_ = z3.And(p_ >= 0, p_ < s.heap.lists[over_.ref].length) if over_ is not None else z3.BoolVal(True)
                        ax_ = z3.ForAll([p_], z3.Implies(z3.And(rng_, cl_.length >= 1, X_[0] <= p_),
                                                        z3.Exists([k_], z3.And(k_ >= 0, k_ < cl_.length, X_[k_] <= p_, z3.Implies(k_ + 1 < cl_.length, p_ < X_[k_ + 1])))))
                        ax_._label = 'lemma:L4'
                        s.assume(ax_)
                        self.assumed_used.add('<lean>::L4 floor-index (machine-checked by setup)')
                    elif lab.startswith('let:'):
                        v_ = self.spec_eval(e, s)      # ghost name for a value that the code is about to overwrite
                        if isinstance(v_, VRag):       # frozen copy (cells are replaced, never mutated, so sharing the cell is a snapshot)
                            r_ = s.heap.new_ref()
                            s.heap.rags[r_] = s.heap.rags[v_.ref]
                            v_ = VRag(r_)
                        s.env[lab[4:]] = v_
                    else:
                        self.oblige(s, 'hint', lab, self.spec_truth(e, s), stmt)

    def exec_stmt(self, stmt, st):
        pending = [st]
        results = []
        start_ctr = values_ctr[0]
        hw = start_ctr
        while pending:
            s = pending.pop()
            attempt = s.copy()
            mark = len(self.obs)
            # re-executions after a Fork must regenerate the SAME fresh names (the fork condition mentions them)
            values_ctr[0] = start_ctr
            try:
                try:
                    results.extend(self._exec(stmt, attempt))
                finally:
                    hw = max(hw, values_ctr[0])
                    values_ctr[0] = hw
            except Fork as f:
                del self.obs[mark:]
                if os.environ.get('PYVC_FORKTRACE'):
                    print('FORK', getattr(stmt, 'lineno', '?'), str(f.cond)[:300].replace('\n', ' '), flush=True)
                a = s.copy()
                a.assume(f.cond)
                a.decisions.append(f.cond)
                b = s.copy()
                b.assume(z3.Not(f.cond))
                b.decisions.append(z3.Not(f.cond))
                for x in (b, a):
                    if x.feasible():
                        pending.append(x)
            except _Raise as r:
                attempt.status = 'raise'
                attempt.exc = r.exc
                results.append(attempt)
        return results

    def _exec(self, stmt, st):
        m = getattr(self, 'st_' + type(stmt).__name__, None)
        if m is None:
            raise Unsupported('statement %s at line %d' % (type(stmt).__name__, stmt.lineno))
        return m(stmt, st)

    def st_Pass(self, stmt, st):
        return [st]

    def st_Import(self, stmt, st):
        for a in stmt.names:
            st.env[a.asname or a.name.split('.')[0]] = VModule(a.name)
        return [st]

    def st_ImportFrom(self, stmt, st):
        for a in stmt.names:
            st.env[a.asname or a.name] = VFunc('module', '%s.%s' % (stmt.module, a.name))
        return [st]

    def st_Expr(self, stmt, st):
        v = stmt.value
        if isinstance(v, ast.Yield):
            self.do_yield(v, st, stmt)
            return [st]
        self.ev(v, st)
        return [st]

    def do_yield(self, node, st, stmt):
        mon = self.cur.on_yield
        if not mon:
            raise Unsupported('yield without an on_yield monitor')
        val = self.ev(node.value, st) if node.value is not None else VNone()
        names = mon['vars']
        items = val.items if isinstance(val, VTuple) and len(names) > 1 else [val]
        saved = dict(st.env)
        for n, v in zip(names, items):
            st.env[n] = v
        for lab, e in mon.get('requires', []):
            self.oblige(st, 'yield', lab, self.spec_truth(e, st), stmt)
        new = {}
        for g, e in (mon.get('updates') or {}).items():
            new[g] = self.spec_eval(e, st)
        st.ghost.update(new)
        st.env = saved

    def st_Assign(self, stmt, st):
        val = self.ev(stmt.value, st)
        for tgt in stmt.targets:
            self.assign(tgt, val, st)
        return [st]

    def st_AnnAssign(self, stmt, st):
        if stmt.value is not None:
            self.assign(stmt.target, self.ev(stmt.value, st), st)
        return [st]

    def assign(self, tgt, val, st):
        if isinstance(tgt, ast.Name):
            if isinstance(val, VList) and st.heap.lists[val.ref].etype is None and tgt.id in self.cur.locals:
                t = parse_type(self.cur.locals[tgt.id])
                if t[0] == 'rag':
                    rv, cnt, lens = st.heap.fresh_rag(t[1], tgt.id)
                    st.assume(cnt == 0)
                    val = rv
                if t[0] == 'pairs':
                    keys_ = st.heap.alloc_list('int', z3.IntVal(0), [z3.K(z3.IntSort(), z3.IntVal(0))])
                    rv, cnt, lens = st.heap.fresh_rag(t[1], tgt.id)
                    st.assume(cnt == 0)
                    val = VAssoc(keys_, rv, is_dict=False)
                if t[0] == 'blocks':
                    flat = st.heap.alloc_list(t[1], z3.IntVal(0), [z3.K(z3.IntSort(), self.default_of(s)) for s in leaf_sorts(t[1])])
                    o = st.heap.alloc_obj('<blocks>', {'flat': flat, 'count': VInt(0)})
                    val = VBlocks(o.ref)
                if t[0] == 'list':
                    cell = st.heap.lists[val.ref]
                    st.heap.lists[val.ref] = ListCell(t[1], cell.length, [z3.K(z3.IntSort(), self.default_of(s)) for s in leaf_sorts(t[1])])
            st.env[tgt.id] = val
        elif isinstance(tgt, (ast.Tuple, ast.List)):
            items = self.unpack(val, len(tgt.elts), st, tgt)
            for t, v in zip(tgt.elts, items):
                self.assign(t, v, st)
        elif isinstance(tgt, ast.Attribute):
            base = self.ev(tgt.value, st)
            if not isinstance(base, VObj):
                raise Unsupported('attribute assignment on %r' % (base,))
            setters = [c for c in BY_NAME.get('%s.%s' % (base.cls, tgt.attr), []) if c.variant == 'setter' and c.qual == '%s.%s' % (base.cls, tgt.attr)]
            if setters and tgt.attr not in st.heap.objs[base.ref]:
                self.apply_contract(setters[0], [base, val], {}, st, tgt)     # property with a setter: the setter's contract
                return
            if isinstance(val, VList) and st.heap.lists[val.ref].etype is None:
                ft = self.class_fields(base.cls).get(tgt.attr)
                if ft is not None and ft[0] in ('list', 'arr'):
                    cell = st.heap.lists[val.ref]
                    st.heap.lists[val.ref] = ListCell(ft[1], cell.length, [z3.K(z3.IntSort(), self.default_of(s_)) for s_ in leaf_sorts(ft[1])])
            st.heap.objs[base.ref][tgt.attr] = val
        elif isinstance(tgt, ast.Subscript):
            base = self.ev(tgt.value, st)
            if isinstance(base, VList) and isinstance(tgt.slice, ast.Tuple):
                if not self.setitem_hook(base, tgt, val, st):
                    raise Unsupported('multi-dimensional subscript assignment on %r' % (base,))
            elif isinstance(base, VList) and not isinstance(tgt.slice, ast.Slice) and isinstance(self._peek(tgt.slice, st), VList):
                if not self.nd_setitem(base, self._peek(tgt.slice, st), val, st, tgt):
                    raise Unsupported('array-index assignment on %r' % (base,))
            elif isinstance(base, VList) and not isinstance(tgt.slice, ast.Slice):
                idx = self.ev(tgt.slice, st)
                self.ensure_etype(base, val, st)
                self.list_set(base, as_int(idx), val, st, tgt)
            else:
                h = self.setitem_hook(base, tgt, val, st)
                if not h:
                    raise Unsupported('subscript assignment on %r' % (base,))
        else:
            raise Unsupported('assignment target %s' % type(tgt).__name__)

    def _peek(self, node, st):
        """evaluate an index expression once per target (cached on the node for this statement attempt)"""
        key = (id(node), id(st))
        c = getattr(self, '_peek_cache', None)
        if c is None or c[0] != key:
            self._peek_cache = (key, self.ev(node, st))
        return self._peek_cache[1]

    def setitem_hook(self, base, tgt, val, st):
        if isinstance(base, VMat):
            return self.mat_setitem(base, tgt, val, st)
        if isinstance(base, VAssoc) and not isinstance(tgt.slice, ast.Slice) and isinstance(val, VList):
            # d[key] = array with a key that is not in the dict yet (obligation): appended at the end
            key = as_int(self.ev(tgt.slice, st))
            kc = st.heap.lists[base.keys.ref]
            q = z3.Int(fresh_name('q'))
            self.oblige(st, 'model', 'dict-assignment-key-is-new', z3.ForAll([q], z3.Implies(z3.And(q >= 0, q < kc.length), kc.leaves[0][q] != key)), tgt)
            self.list_append(base.keys, VInt(key), st)
            self.rag_append(base.vals, self.as_array(val, st), st)
            return True
        if isinstance(base, VList) and base.nd and isinstance(tgt.slice, ast.Slice) and tgt.slice.step is None:
            return self.nd_slice_assign(base, tgt, val, st)
        # rows[:, mask] = 0 on a block of opaque rows: every row gets the masked columns zeroed (row-wise op 'zero_cols')
        if isinstance(base, VList) and base.nd and isinstance(tgt.slice, ast.Tuple) and len(tgt.slice.elts) == 2 \
                and isinstance(tgt.slice.elts[0], ast.Slice) and all(x is None for x in (tgt.slice.elts[0].lower, tgt.slice.elts[0].upper, tgt.slice.elts[0].step)):
            mask = self.ev(tgt.slice.elts[1], st)
            c0 = const_int(as_int(val)) if isinstance(val, VInt) else None
            if c0 != 0 or not isinstance(mask, VElem):
                return False
            new = self.map_rows(base, VStr('zero_cols'), mask, st)
            st.heap.lists[base.ref] = st.heap.lists[new.ref]      # in place: same object, new content
            return True
        return False

    def st_AugAssign(self, stmt, st):
        cur = self.ev(stmt.target, st)
        rhs = self.ev(stmt.value, st)
        if isinstance(cur, VList) and not cur.nd and isinstance(stmt.op, ast.Add):
            if not isinstance(rhs, VList):
                raise Unsupported('list += non-list')
            self.list_concat(cur, rhs, st, into=cur)
            return [st]
        val = self.binop(stmt.op, cur, rhs, st, stmt)
        if isinstance(cur, VList) and cur.nd and isinstance(val, VList):
            # numpy: x += v modifies the array object in place (every alias sees it), it does not rebind the name
            self.used('in-place augmented assignment on an array (same_kind casting assumed possible: A-NOOVF)')
            st.heap.lists[cur.ref] = st.heap.lists[val.ref]
            self.writeback(cur, st)
            return [st]
        self.assign(stmt.target, val, st)
        return [st]

    def st_If(self, stmt, st):
        c = self.truth(self.ev(stmt.test, st), st)
        d = st.decide(c)
        return self.exec_block(stmt.body if d else stmt.orelse, [st])

    def st_Return(self, stmt, st):
        st.retval = self.ev(stmt.value, st) if stmt.value is not None else VNone()
        st.status = 'return'
        return [st]

    def st_Break(self, stmt, st):
        st.status = 'break'
        return [st]

    def st_Continue(self, stmt, st):
        st.status = 'continue'
        return [st]

    def st_Assert(self, stmt, st):
        text = ' '.join(ast.unparse(stmt).split())
        for pref in self.cur.assume_asserts:
            if text.startswith('assert ' + ' '.join(pref.split())):
                self.assumed_used.add('A-ASSERT %s: `%s` is assumed to hold (not proved; exercised by the bounded stand-in)' % (self.cur.key, text[:120]))
                st.assume(self.truth(self.ev(stmt.test, st), st))
                return [st]
        c = self.truth(self.ev(stmt.test, st), st)
        self.oblige(st, 'assert', 'code-assert', c, stmt, raises='AssertionError')
        return [st]

    def st_Raise(self, stmt, st):
        exc = 'Exception'
        if stmt.exc is not None:
            e = stmt.exc
            if isinstance(e, ast.Call):
                e = e.func
            if isinstance(e, ast.Name):
                exc = e.id
            elif isinstance(e, ast.Attribute):
                exc = e.attr
        if self.raise_allowed(exc):
            st.status = 'raise'
            st.exc = exc
            return [st]
        self.oblige(st, 'raise', 'unreachable-raise-%s' % exc, z3.BoolVal(False), stmt)
        st.status = 'raise'
        st.exc = exc
        return [st]

    # ---- loops ----------------------------------------------------------------------------------------
    def loop_ordinal(self, stmt):
        return self.loop_nodes[id(stmt)]

    def assigned_names(self, stmts):
        names = set()
        mutated = set()
        callee_unknown_receiver = []

        class Vis(ast.NodeVisitor):
            def visit_Name(s, n):
                if isinstance(n.ctx, ast.Store):
                    names.add(n.id)

            def visit_Call(s, n):
                f = n.func
                # a callee whose contract declares `modifies` changes those fields on every iteration: they must be havocked at the loop head
                cname = f.attr if isinstance(f, ast.Attribute) else (f.id if isinstance(f, ast.Name) else None)
                if cname is not None:
                    for key_, cands_ in BY_NAME.items():
                        if key_ != cname and not key_.endswith('.' + cname):
                            continue
                        for c_ in cands_:
                            for m_ in list(c_.modifies) + list(c_.ghost_exit):
                                if m_.startswith('self.'):
                                    if isinstance(f, ast.Attribute) and isinstance(f.value, ast.Name):
                                        mutated.add(f.value.id + '.' + m_[5:])
                                    else:
                                        callee_unknown_receiver.append(cname)
                                elif m_.startswith('G.'):
                                    mutated.add(m_)
                if isinstance(f, ast.Attribute) and f.attr in ('append', 'extend', 'pop', 'insert') and isinstance(f.value, ast.Name):
                    mutated.add(f.value.id)
                if isinstance(f, ast.Attribute) and f.attr in ('append', 'extend') and isinstance(f.value, ast.Subscript) and isinstance(f.value.value, ast.Name):
                    mutated.add(f.value.value.id)
                if isinstance(f, ast.Attribute) and f.attr in ('append', 'extend') and isinstance(f.value, ast.Attribute) \
                        and isinstance(f.value.value, ast.Name):
                    mutated.add(f.value.value.id + '.' + f.value.attr)
                s.generic_visit(n)

            def visit_Subscript(s, n):
                if isinstance(n.ctx, ast.Store) and isinstance(n.value, ast.Name):
                    mutated.add(n.value.id)
                s.generic_visit(n)

            def visit_Attribute(s, n):
                if isinstance(n.ctx, ast.Store) and isinstance(n.value, ast.Name):
                    mutated.add(n.value.id + '.' + n.attr)
                s.generic_visit(n)

            def visit_AugAssign(s, n):
                if isinstance(n.target, ast.Name):
                    names.add(n.target.id)
                    mutated.add(n.target.id)
                s.generic_visit(n)
        for x in stmts:
            Vis().visit(x)
        if callee_unknown_receiver:
            raise Unsupported('a loop body calls %s, whose contract modifies fields of a receiver the engine cannot name' % sorted(set(callee_unknown_receiver)))
        return names, mutated

    def havoc_for_loop(self, st, body, lc, extra_names=()):
        names, mutated = self.assigned_names(body)
        names |= set(extra_names)
        tnames = set(getattr(self, '_loop_target_names', ()) or ())
        for rg in getattr(self, '_loop_rags', []):
            # the rows of an iterated list of arrays change only when the loop variable holding a row is mutated in place (x += .., x[..] = ..,
            # x.append(..)); when the target names are unknown, any assignment in the body counts (conservative)
            if tnames:
                tgt_mut = bool(tnames & mutated)
            else:
                tgt_mut = any(isinstance(n_, (ast.AugAssign, ast.Assign)) for b_ in body for n_ in ast.walk(b_))
            if tgt_mut:
                rc = st.heap.rags[rg.ref]
                tmp, cnt, lens = st.heap.fresh_rag(rc.etype, 'rag')
                q = z3.Int(fresh_name('q'))
                st.assume(cnt == rc.count)
                st.assume(z3.ForAll([q], z3.Implies(z3.And(q >= 0, q < cnt), lens[q] >= 0)))
                st.heap.rags[rg.ref] = st.heap.rags.pop(tmp.ref)
        # ghost state may be updated by any yield / callback inside the body: havoc all of it (a body without a yield and - when the
        # contract has a callback monitor - without any call cannot touch it)
        touches = any(isinstance(n_, (ast.Yield, ast.YieldFrom)) for b_ in body for n_ in ast.walk(b_)) or \
            (bool(self.cur.on_call) and any(isinstance(n_, ast.Call) for b_ in body for n_ in ast.walk(b_)))
        for g, cur in (list(st.ghost.items()) if touches else []):
            if isinstance(cur, VList):
                # a ghost trace (list): fresh content of the same element type
                ce_ = st.heap.lists[cur.ref]
                if ce_.etype is None:
                    raise Unsupported('ghost list %s needs a typed initial value, e.g. empty(\'int\')' % g)
                st.ghost[g] = self.fresh_value(('list', ce_.etype), 'ghost_' + g, st)
                continue
            st.ghost[g] = self.fresh_value(infer_etype(cur), 'ghost_' + g, st)
        ltypes = dict(self.cur.locals)
        ltypes.update(lc.get('locals', {}))
        for n in sorted(names):
            cur = st.env.get(n)
            if n in ltypes:
                st.env[n] = self.fresh_value(parse_type(ltypes[n]), n, st)
            elif cur is None:
                continue
            elif isinstance(cur, VList):
                if n in mutated or True:
                    cell = st.heap.lists[cur.ref]
                    nv, ln = st.heap.fresh_list(cell.etype, n) if cell.etype is not None else (None, None)
                    if nv is None:
                        raise Unsupported('list %r mutated in a loop needs a declared element type (contract locals)' % n)
                    st.assume(ln >= 0)
                    st.env[n] = nv
            elif isinstance(cur, (VInt, VBool, VReal, VElem, VTuple, VSlice)):
                st.env[n] = self.fresh_value(infer_etype(cur), n, st)
            elif isinstance(cur, VNone):
                raise Unsupported('variable %r is None before a loop that assigns it: declare its type in contract locals' % n)
            else:
                raise Unsupported('cannot havoc %r of kind %r' % (n, cur))
        for m in sorted(mutated):
            if '.' in m:
                b, a = m.split('.', 1)
                obj = st.env.get(b)
                if isinstance(obj, VObj):
                    cur = st.heap.objs[obj.ref].get(a)
                    if isinstance(cur, VList):
                        cell = st.heap.lists[cur.ref]
                        if cell.etype is None:
                            raise Unsupported('field list %s mutated in loop needs element type' % m)
                        tmp, ln = st.heap.fresh_list(cell.etype, a)
                        st.assume(ln >= 0)
                        st.heap.lists[cur.ref] = st.heap.lists.pop(tmp.ref)
                    elif cur is not None and not isinstance(cur, (VObj,)):
                        st.heap.objs[obj.ref][a] = self.fresh_value(infer_etype(cur), a, st)
            elif m not in names:
                cur = st.env.get(m)
                if isinstance(cur, VMat):
                    # an array written in place inside the loop: same shape, arbitrary content at the loop head
                    rc = st.heap.rags[cur.ref]
                    srt_ = rc.data.sort().range().range()
                    nd_ = z3.Array(fresh_name(m + '.rows'), z3.IntSort(), z3.ArraySort(z3.IntSort(), srt_))
                    st.heap.rags[cur.ref] = RagCell(rc.etype, rc.count, rc.lens, nd_)
                elif isinstance(cur, VRag):
                    rc = st.heap.rags[cur.ref]
                    tmp, cnt, lens = st.heap.fresh_rag(rc.etype, m)
                    q = z3.Int(fresh_name('q'))
                    st.assume(cnt >= 0)
                    st.assume(z3.ForAll([q], z3.Implies(z3.And(q >= 0, q < cnt), lens[q] >= 0)))
                    st.heap.rags[cur.ref] = st.heap.rags.pop(tmp.ref)
                if isinstance(cur, VAssoc):
                    # a dict extended inside the loop: arbitrary (well-formed) content at the loop head
                    et_ = st.heap.rags[cur.vals.ref].etype
                    st.env[m] = self.fresh_value(('assoc' if cur.is_dict else 'pairs', et_), m, st)
                elif not isinstance(cur, (VRag, VBlocks, VList, VObj, type(None))) and not isinstance(cur, (VInt, VBool, VReal, VElem, VTuple, VSlice, VNone, VStr, VFunc, VRec)):
                    raise Unsupported('a value of kind %r is mutated in a loop: the engine cannot havoc it' % type(cur).__name__)
                if isinstance(cur, VBlocks):
                    blk = st.heap.objs[cur.ref]
                    cell = st.heap.lists[blk['flat'].ref]
                    tmp, ln = st.heap.fresh_list(cell.etype, m + '.flat')
                    st.assume(ln >= 0)
                    st.heap.lists[blk['flat'].ref] = st.heap.lists.pop(tmp.ref)
                    cnt = z3.Int(fresh_name(m + '.count'))
                    st.assume(cnt >= 0)
                    blk['count'] = VInt(cnt)
                if isinstance(cur, VList):
                    cell = st.heap.lists[cur.ref]
                    if cell.etype is None:
                        if m in ltypes:
                            et = parse_type(ltypes[m])[1]
                        else:
                            raise Unsupported('list %r mutated in a loop needs a declared element type (contract locals)' % m)
                    else:
                        et = cell.etype
                    tmp, ln = st.heap.fresh_list(et, m)
                    st.assume(ln >= 0)
                    st.heap.lists[cur.ref] = st.heap.lists.pop(tmp.ref)

    def apply_lemmas(self, st, lemmas, node, where):
        """A lemma is a universally valid fact (typically non-linear arithmetic) over the current variables: it is an
        obligation proved from NO hypotheses (so it cannot smuggle in an assumption) and is then assumed."""
        for i, x in enumerate(lemmas):
            lab, e = (('lemma%d' % i, x) if isinstance(x, str) else x)
            t = self.spec_truth(e, st)
            line = (getattr(node, 'lineno', self.cur_func_line) - self.cur_func_line) if node is not None else 0
            ob = Ob('%s.lemma.%s.%s@L%d' % (self.cur_tag, where, lab, line), 'lemma', lab, [], t, line, self.cur.key)
            self.obs.append(ob)
            st.assume(t)

    def check_invariant(self, st, lc, kind, stmt, ordinal):
        for lab, e in _inv(lc):
            self.oblige(st, kind, 'loop%d.%s' % (ordinal, lab), self.spec_truth(e, st), stmt)

    def assume_invariant(self, st, lc):
        for lab, e in _inv(lc):
            t_ = self.spec_truth(e, st)
            try:
                if getattr(t_, '_label', None) is None:
                    t_._label = lab
            except Exception:
                pass
            st.assume(t_)

    def run_loop(self, stmt, st, guard_fn, pre_body_fn, post_body_fn, extra_havoc=(), exit_fn=None, sync=None):
        """Generic cut-point treatment. guard_fn(state)->z3 Bool; pre_body_fn binds the loop variable;
        post_body_fn advances the iteration counter."""
        ordinal = self.loop_ordinal(stmt)
        lc = self.cur.loops.get(ordinal, {})
        out = []
        # locals declared in the contract but not yet assigned are arbitrary at loop entry
        ltypes = dict(self.cur.locals)
        ltypes.update(lc.get('locals', {}))
        for n, t in ltypes.items():
            if n not in st.env:
                st.env[n] = self.fresh_value(parse_type(t), n + '.uninit', st)
        for e in lc.get('defs_at_entry', []):
            self.spec_truth(e, st)          # definitional instances (e.g. smul_def) requested by the contract
        # 1. invariant holds on entry
        self.check_invariant(st, lc, 'inv-entry', stmt, ordinal)
        # 2. arbitrary iteration
        head = st.copy()
        self.havoc_for_loop(head, stmt.body, lc, extra_havoc)
        if sync:
            head.env[sync[0]] = head.env[sync[1]]
        self.assume_invariant(head, lc)
        self.apply_lemmas(head, lc.get('lemmas', []), stmt, 'loop%d' % ordinal)
        head.nofork += 1
        try:
            g = guard_fn(head)
        finally:
            head.nofork -= 1
        # 2a. exit
        ex = head.copy()
        ex.assume(z3.Not(g))
        if exit_fn:
            exit_fn(ex)
        if ex.feasible():
            out.extend(self.exec_block(stmt.orelse, [ex]) if stmt.orelse else [ex])
        # 2b. one iteration
        it = head.copy()
        it.assume(g)
        if it.feasible():
            pre_body_fn(it)
            for s in self.exec_block(stmt.body, [it]):
                if s.status in ('run', 'continue'):
                    s.status = 'run'
                    post_body_fn(s)
                    self.check_invariant(s, lc, 'inv-preserve', stmt, ordinal)
                    # path ends here (cut)
                elif s.status == 'break':
                    s.status = 'run'
                    out.append(s)
                else:
                    out.append(s)
        return out

    def st_While(self, stmt, st):
        def guard(s):
            return self.truth(self.ev(stmt.test, s), s)
        return self.run_loop(stmt, st, guard, lambda s: None, lambda s: None)

    def st_For(self, stmt, st):
        it = self.ev(stmt.iter, st)
        ordinal = self.loop_ordinal(stmt)
        lc = self.cur.loops.get(ordinal, {})
        idx = lc.get('idx', '_k%d' % ordinal)
        if isinstance(it, VRange):
            if not isinstance(stmt.target, ast.Name):
                raise Unsupported('for-range with tuple target')
            tname = stmt.target.id
            a, b, s = it.start, it.stop, it.step
            hidden = '__it%d' % ordinal
            # at the cut point the loop variable denotes the NEXT value to be processed
            st.env[hidden] = VInt(a)
            st.env[tname] = VInt(a)
            st.env[idx] = VInt(0)
            st.env[tname + '__step'] = VInt(s)

            def guard(h):
                return as_int(h.env[hidden]) < b

            def pre(h):
                h.env[tname] = h.env[hidden]

            def post(h):
                h.env[hidden] = VInt(as_int(h.env[hidden]) + s)
                h.env[tname] = h.env[hidden]
                h.env[idx] = VInt(as_int(h.env[idx]) + 1)

            def on_exit(h):
                # Python leaves the last processed value in the loop variable; we forget it (sound)
                h.env[tname] = VInt(z3.Int(fresh_name(tname + '.after')))
            return self._run_for(stmt, st, guard, pre, post, [hidden, tname, idx], sync=(tname, hidden), exit_fn=on_exit)
        if isinstance(it, VFunc) and it.kind == 'enumerate':
            seqs, targets_kind = it.extra, 'enumerate'
        elif isinstance(it, VFunc) and it.kind == 'zip':
            seqs, targets_kind = it.extra, 'zip'
        elif isinstance(it, VFunc) and it.kind == 'enumzip':
            seqs, targets_kind = it.extra, 'enumzip'
        elif isinstance(it, (VList, VTuple, VGen)):
            seqs, targets_kind = [it], 'plain'
        elif isinstance(it, VAssoc) and not it.is_dict:
            seqs, targets_kind = [it.keys, it.vals], 'zip'        # a list of (int, array) pairs
        elif isinstance(it, VRagItems):
            # d.items() of an int-keyed dict modelled as a list of lists (keys 0..N-1 in insertion order): (key, list) pairs
            it = VFunc('enumerate', 'enumerate', self_val=I(0), extra=[it.rag])
            seqs, targets_kind = it.extra, 'enumerate'
        else:
            raise Unsupported('for over %r' % (it,))
        seqs = [s.lst if isinstance(s, VGen) else s for s in seqs]
        for s in seqs:
            if isinstance(s, VTuple):
                raise Unsupported('for over a tuple')
        self._loop_rags = [s for s in seqs if isinstance(s, VRag)]
        self._loop_target_names = set(n_.id for n_ in ast.walk(stmt.target) if isinstance(n_, ast.Name))
        hidden = idx
        st.env[hidden] = VInt(0)
        if lc.get('seq'):
            st.env[lc['seq']] = it if isinstance(it, VAssoc) else seqs[0]
        lens = [st.heap.rags[s.ref].count if isinstance(s, VRag) else st.heap.lists[s.ref].length for s in seqs]
        n = lens[0]
        for l in lens[1:]:
            n = zmin(n, l)

        def guard(h):
            return as_int(h.env[hidden]) < n

        def pre(h):
            k = as_int(h.env[hidden])
            elems = []
            for sq in seqs:
                if isinstance(sq, VRag):
                    elems.append(self.rag_row(sq, k, h))
                    continue
                cell = h.heap.lists[sq.ref]
                elems.append(build(cell.etype, iter([a[k] for a in cell.leaves])))
            if targets_kind == 'enumerate':
                val = VTuple([VInt(k + it.self_val), elems[0]])
            elif targets_kind == 'zip':
                val = VTuple(elems)
            elif targets_kind == 'enumzip':
                val = VTuple([VInt(k + it.self_val), VTuple(elems)])
            else:
                val = elems[0]
            self.assign(stmt.target, val, h)

        def post(h):
            h.env[hidden] = VInt(as_int(h.env[hidden]) + 1)
        return self._run_for(stmt, st, guard, pre, post, [hidden], sync=None)

    def _run_for(self, stmt, st, guard, pre, post, extra, sync, exit_fn=None):
        lc = self.cur.loops.get(self.loop_ordinal(stmt), {})

        def g(h):
            return guard(h)
        if sync:
            # invariants are phrased over the loop variable; make the havocked variable and the counter one symbol
            orig_assume = None
        res = self.run_loop(stmt, st, g, pre, post, extra_havoc=list(extra), exit_fn=exit_fn, sync=sync)
        return res

    # ---- try / with --------------------------------------------------------------------------------------
    def st_Try(self, stmt, st):
        handlers = []
        for h in stmt.handlers:
            if h.type is None:
                handlers.append((['Exception'], h))
            elif isinstance(h.type, ast.Tuple):
                handlers.append(([_excname(e) for e in h.type.elts], h))
            else:
                handlers.append(([_excname(h.type)], h))
        saved = self._try_catch
        self._try_catch = tuple(saved) + (tuple(n for hs, _ in handlers for n in hs),)
        try:
            states = self.exec_block(stmt.body, [st])
        finally:
            self._try_catch = saved
        out = []
        for s in states:
            if s.status == 'raise':
                for names, h in handlers:
                    if any(exc_matches(s.exc, n) for n in names):
                        s.status = 'run'
                        if h.name:
                            s.env[h.name] = VElem(z3.Const(fresh_name('exc'), Elem))
                        s.exc = None
                        out.extend(self.exec_block(h.body, [s]))
                        break
                else:
                    out.append(s)
            elif s.status == 'run' and stmt.orelse:
                out.extend(self.exec_block(stmt.orelse, [s]))
            else:
                out.append(s)
        if stmt.finalbody:
            fin = []
            for s in out:
                status, rv, exc = s.status, s.retval, s.exc
                s.status = 'run'
                for f in self.exec_block(stmt.finalbody, [s]):
                    if f.status == 'run':
                        f.status, f.retval, f.exc = status, rv, exc
                    fin.append(f)
            out = fin
        return out

    def st_With(self, stmt, st):
        for item in stmt.items:
            ce = item.context_expr
            ok = False
            if isinstance(ce, ast.Call):
                f = ce.func
                nm = f.attr if isinstance(f, ast.Attribute) else getattr(f, 'id', None)
                if nm in ('tqdm', 'errstate'):
                    ok = True
                    if item.optional_vars is not None:
                        self.assign(item.optional_vars, VElem(z3.Const(fresh_name('ctx'), Elem)), st)
            if not ok:
                h = self.with_hook(item, st)
                if not h:
                    raise Unsupported('with-statement over %s (line %d)' % (ast.dump(ce)[:60], stmt.lineno))
        return self.exec_block(stmt.body, [st])

    def with_hook(self, item, st):
        return False

    # ====================================================================================================
    # verifying one contracted function
    # ====================================================================================================
    def number_loops(self, fn):
        self.loop_nodes = {}
        k = 0
        for n in ast.walk(fn):
            pass
        # ordinal = order of appearance in source (pre-order), stable under renaming of locals

        def visit(node):
            nonlocal k
            for ch in ast.iter_child_nodes(node):
                if isinstance(ch, (ast.For, ast.While)):
                    self.loop_nodes[id(ch)] = k
                    k += 1
                if isinstance(ch, (ast.FunctionDef, ast.Lambda)) and ch is not fn:
                    continue
                visit(ch)
        visit(fn)
        return k

    def case_list(self, c):
        """Expand opt[...] parameter types into opt-free cases."""
        base = {n: parse_type(t) for n, t in c.params.items()}
        if c.cases:
            outs = []
            for ov in c.cases:
                b = dict(base)
                for n, t in ov.items():
                    b[n] = parse_type(t)
                outs.append(b)
            bases = outs
        else:
            bases = [base]
        cases = []
        for b in bases:
            names = list(b)
            combos = [{}]
            for n in names:
                combos = [dict(cm, **{n: x}) for cm in combos for x in expand_opts(b[n])]
            cases.extend(combos)
        return cases

    def verify(self, c, prop_tag):
        """Symbolically execute the real function of contract c; returns info dict; obligations go to self.obs."""
        fn, seg, sha, span = front.find_function(c.file, c.source or c.qual)
        self.cur = c
        self.cur_func_line = fn.lineno
        nloops = self.number_loops(fn)
        for o in c.loops:
            if o >= nloops:
                raise front.AttachError('%s: contract refers to loop %d but the function has %d loops' % (c.key, o, nloops))
        info = {'function': c.key, 'sha256': sha, 'lines': list(span), 'cases': 0, 'paths': 0, 'status': 'ok'}
        start = len(self.obs)
        cases = self.case_list(c)
        for ci, case in enumerate(cases):
            ctag = '' if len(cases) == 1 else '[' + ','.join('%s:%s' % (n, type_str(t)) for n, t in case.items() if ('opt' in c.params.get(n, '') or c.cases)) + ']'
            self.cur_tag = '%s.%s%s' % (prop_tag, c.qual, ctag)
            def build_entry(asm, case=case):
                st = State(self)
                for a_ in asm:
                    st.assume(a_)
                    st.decisions.append(a_)
                argnames = [a.arg for a in fn.args.args] + [a.arg for a in fn.args.kwonlyargs]
                for n in argnames:
                    if n == 'self' and n not in case:
                        cls = c.qual.split('.')[0]
                        st.env['self'] = self.fresh_value(('obj', cls), 'self', st)
                        continue
                    if n not in case:
                        if n in c.defaults:
                            st.env[n] = self.spec_eval(c.defaults[n], st)
                            continue
                        raise front.AttachError('%s: parameter %r has no type in the contract' % (c.key, n))
                    st.env[n] = self.fresh_value(case[n], n, st)
                    if n in c.kinds and isinstance(st.env[n], VElem):
                        st.env[n].kind = c.kinds[n]
                    if case[n] == 'elem' and 'opt[' in c.params.get(n, ''):
                        st.assume(st.env[n].t != NONE_ELEM)      # the None case is a separate case
                if fn.args.vararg:
                    vn = fn.args.vararg.arg
                    t = case.get(vn)
                    if t is None:
                        raise front.AttachError('%s: *%s has no type in the contract' % (c.key, vn))
                    st.env[vn] = self.fresh_value(t, vn, st)
                if fn.args.kwarg:
                    kn = fn.args.kwarg.arg
                    t = case.get(kn)
                    if t is None:
                        raise front.AttachError('%s: **%s has no type in the contract' % (c.key, kn))
                    st.env[kn] = self.fresh_value(t, kn, st)
                if 'World' in CLASSES:
                    st.env['G'] = self.fresh_value(('obj', 'World'), 'G', st)
                for n in case:
                    if n not in st.env:
                        raise front.AttachError('%s: contract parameter %r is not a parameter of the function' % (c.key, n))
                entry_env = dict(st.env)
                for n, e in c.let.items():
                    st.env[n] = self.spec_eval(e, st)
                    entry_env[n] = st.env[n]
                for lab, e in c.requires:
                    rq_ = self.spec_truth(e, st)
                    try:
                        rq_._label = lab
                    except Exception:
                        pass
                    st.assume(rq_)
                # vacuity guard: requires must be satisfiable (checked by the driver with full solver)
                self.obs.append(_cover('%s.cover.requires' % self.cur_tag, list(st.pc), c.key))
                for g, e in c.ghost.items():
                    st.ghost[g] = self.spec_eval(e, st)
                st.old = {'env': dict(entry_env), 'heap': st.heap.copy(), 'ghost': dict(st.ghost), 'next_ref': st.heap.next_ref[0]}
                return st, entry_env
            # optional fields of self (opt[...] inside declared classes) fork while the entry state is built: one entry state per combination
            work, entries = [[]], []
            ctr0 = values_ctr[0]
            hw = ctr0
            while work:
                asm = work.pop()
                values_ctr[0] = ctr0
                try:
                    entries.append(build_entry(asm))
                except Fork as fk:
                    work.append(asm + [z3.Not(fk.cond)])
                    work.append(asm + [fk.cond])
                finally:
                    hw = max(hw, values_ctr[0])
            values_ctr[0] = hw
            finals = []
            for st, entry_env in entries:
                if st.feasible():
                    finals.extend((f_, entry_env) for f_ in self.exec_block(fn.body, [st]))
            info['cases'] += 1
            for f, entry_env in finals:
                info['paths'] += 1
                self.finish_path(c, f, fn, entry_env)
        info['obligations'] = len(self.obs) - start
        missing = [lab for pref, lab, e in c.cuts if (c.key, lab) not in getattr(self, '_cuts_hit', set())]
        if missing:
            # a hint that no longer attaches is simply not used (hints can only help a proof, never make one): the obligations that
            # needed it will show up as not discharged
            info['hints_not_attached'] = missing
        return info

    def finish_path(self, c, f, fn, entry_env):
        if f.status in ('run', 'return'):
            res = f.retval if f.status == 'return' else VNone()
            env2 = dict(f.env)
            f.env = dict(env2)
            # postconditions speak about parameters at their ENTRY values unless they are mutable objects
            for n, v in entry_env.items():
                f.env[n] = v
            f.env['result'] = res if res is not None else VNone()
            for tgt, e in c.ghost_exit.items():
                v = self.spec_eval(e, f)
                parts = tgt.split('.')
                obj = f.env[parts[0]]
                for p_ in parts[1:-1]:
                    obj = f.heap.objs[obj.ref][p_]
                f.heap.objs[obj.ref][parts[-1]] = v
            for oname in ('self', 'G'):
                if not (oname in entry_env and isinstance(entry_env[oname], VObj)):
                    continue
                so = entry_env[oname]
                fnames = list(c.fields) if oname == 'self' else list(CLASSES.get('World', {}).get('fields', {}))
                mod = set(m.split('.', 1)[1] for m in list(c.modifies) + list(c.ghost_exit) if m.startswith(oname + '.'))
                oldf = f.old['heap'].objs.get(so.ref, {})
                for fname in fnames:
                    if fname in mod or fname not in oldf or fname not in f.heap.objs[so.ref]:
                        continue
                    a, b = f.heap.objs[so.ref][fname], oldf[fname]
                    if isinstance(a, VRag) or isinstance(b, VRag):
                        if isinstance(a, VRag) and isinstance(b, VRag) and a.ref == b.ref:
                            ra, rb = f.heap.rags[a.ref], f.old['heap'].rags[b.ref]
                            if ra is rb:
                                t = z3.BoolVal(True)
                            else:
                                q = z3.Int(fresh_name('q'))
                                t = z3.And(ra.count == rb.count, z3.ForAll([q], z3.Implies(z3.And(q >= 0, q < ra.count), z3.And(ra.lens[q] == rb.lens[q], ra.data[q] == rb.data[q]))))
                        else:
                            t = z3.BoolVal(False)
                    elif isinstance(a, (VList, VObj)) or isinstance(b, (VList, VObj)):
                        t = self.identical(a, b, f) if type(a) is type(b) else z3.BoolVal(False)
                        if isinstance(a, VList) and isinstance(b, VList) and a.ref == b.ref:
                            t = self.list_eq_cells(f.heap.lists[a.ref], f.old['heap'].lists[b.ref])
                    else:
                        t = self.eq(a, b, f)
                    self.oblige(f, 'frame', '%s.%s-not-modified' % (oname, fname), t, None)
            for lab, e in c.at_exit:
                self.oblige(f, 'post', 'at-exit.' + lab, self.spec_truth(e, f), None)
            for lab, e in c.ensures:
                if lab in c.witness:
                    self.oblige(f, 'post', lab, self.exists_with_witness(e, c.witness[lab], f), None)
                else:
                    self.oblige(f, 'post', lab, self.spec_truth(e, f), None)
            for exc, cond, mode in c.raises:
                if mode == 'iff':
                    self.oblige(f, 'post', 'returns-normally-only-if-not-%s' % exc, z3.Not(self.spec_truth_entry(cond, f, entry_env)), None)
        elif f.status == 'raise':
            ok = False
            for exc, cond, mode in c.raises:
                if exc_matches(f.exc, exc):
                    ok = True
                    self.oblige(f, 'post', 'raises-%s-only-when-allowed' % exc, self.spec_truth_entry(cond, f, entry_env), None)
                    break
            if not ok:
                self.oblige(f, 'raise', 'no-%s-escapes' % f.exc, z3.BoolVal(False), None)
        else:
            raise Unsupported('path ended with status %s' % f.status)

    def exists_with_witness(self, expr, wit, st):
        """Goal `any(P(v..) for v in range(a, b) ...)` proved at the given witness terms: range guards and P at the witness."""
        node = ast.parse(expr, mode='eval').body
        if not (isinstance(node, ast.Call) and getattr(node.func, 'id', None) == 'any' and isinstance(node.args[0], ast.GeneratorExp)):
            raise Unsupported('witness given for a clause that is not any(...)')
        gen = node.args[0]
        saved = dict(st.env)
        st.spec += 1
        try:
            parts = []
            for comp in gen.generators:
                v = comp.target.id
                w = self.ev(ast.parse(wit[v], mode='eval').body, st)
                it = self.ev(comp.iter, st)
                if not isinstance(it, VRange) or const_int(it.step) != 1:
                    raise Unsupported('witness only for range iterators')
                parts.append(z3.And(it.start <= as_int(w), as_int(w) < it.stop))
                st.env[v] = w
                for cond in comp.ifs:
                    parts.append(self.truth(self.ev(cond, st), st))
            parts.append(self.truth(self.ev(gen.elt, st), st))
        finally:
            st.spec -= 1
            st.env = saved
        return z3.And(parts)

    def spec_truth_entry(self, cond, f, entry_env):
        tmp = f.copy()
        tmp.env = dict(entry_env)
        tmp.heap = f.old['heap'].copy() if f.old else f.heap
        return self.spec_truth(cond, tmp)


class _Raise(Exception):
    def __init__(self, exc):
        self.exc = exc


def _excname(e):
    if isinstance(e, ast.Name):
        return e.id
    if isinstance(e, ast.Attribute):
        return e.attr
    return 'Exception'


def _inv(lc):
    out = []
    for i, x in enumerate(lc.get('invariant', [])):
        out.append(('inv%d' % i, x) if isinstance(x, str) else (x[0], x[1]))
    return out


def _cover(name, hyps, func):
    ob = Ob(name, 'cover', 'requires-satisfiable', hyps, None, 0, func)
    return ob
