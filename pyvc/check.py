"""Per-property driver: VC generation from /repo's current tree, discharge (pool), replay of counter-models on
the real code, bounded stand-ins, known findings, evidence, exit codes (DESIGN 2.8 / 3)."""
import ast
import sys, os, json, time, subprocess, importlib, re, traceback, hashlib
from concurrent.futures import ProcessPoolExecutor
import z3
from . import front, solve
from .engine import Engine
from .state import Unsupported
from .contract import REGISTRY
from . import values

VERIF = os.path.dirname(os.path.dirname(os.path.abspath(__file__)))
OUT = os.path.join(VERIF, 'out')
VENV_PY = '/venv/bin/python'

ASSUMPTIONS_COMMON = [
    'A-PY: the Python subset semantics of DESIGN 2.3 (mathematical ints, floor division, value semantics of or/and, no operator overloading on user classes, no threads/signals)',
    'A-LOG: logger.* / print / tqdm progress calls are effect free and never raise (dropped before symbolic execution)',
    'A-INST: prove mode is sound by construction (instantiation only weakens hypotheses); counter-models are never trusted, only replayed',
    'A-SHIM: the concrete side copies two private names into numpy.lib.format in the harness process so that phylib.io imports (no /repo edit)',
]


def load_known(prop):
    p = os.path.join(VERIF, 'known_findings.txt')
    out = []
    if not os.path.exists(p):
        return out
    for line in open(p):
        line = line.strip()
        if not line.startswith('finding:'):
            continue
        head, _, text = line[len('finding:'):].partition('::')
        kv = dict(m.groups() for m in re.finditer(r'(\w+)=("[^"]*"|\S+)', head))
        kv = {k: v.strip('"') for k, v in kv.items()}
        if kv.get('property') == prop:
            kv['text'] = text.strip()
            out.append(kv)
    return out


def run_concrete_async(prop, tier, seed):
    os.makedirs(OUT, exist_ok=True)
    outp = os.path.join(OUT, '%s.bounded.%d.json' % (prop, os.getpid()))      # per process: two runs of one property may overlap
    if os.path.exists(outp):
        os.unlink(outp)
    mod = os.path.join(VERIF, 'concrete', 'b%s.py' % prop[1:])
    if not os.path.exists(mod):
        return None, outp
    env = dict(os.environ)
    env['PYTHONPATH'] = VERIF
    env.setdefault('VERIF_REPO', front.REPO)
    p = subprocess.Popen([VENV_PY, os.path.join(VERIF, 'concrete', 'run.py'), 'bounded', prop, '--tier', tier, '--seed', str(seed), '--out', outp],
                         stdout=subprocess.PIPE, stderr=subprocess.STDOUT, text=True, env=env, cwd=VERIF)
    return p, outp


def run_concrete_cases(prop, items):
    """Evaluate (case, input) pairs on the real code; returns list of {case,input,fails}."""
    if not items:
        return []
    os.makedirs(OUT, exist_ok=True)
    fin = os.path.join(OUT, '%s.cases.in.%d.json' % (prop, os.getpid()))
    fout = os.path.join(OUT, '%s.cases.out.%d.json' % (prop, os.getpid()))
    json.dump(items, open(fin, 'w'))
    env = dict(os.environ)
    env['PYTHONPATH'] = VERIF
    env.setdefault('VERIF_REPO', front.REPO)
    r = subprocess.run([VENV_PY, os.path.join(VERIF, 'concrete', 'run.py'), 'cases', prop, fin, fout], capture_output=True, text=True, env=env, cwd=VERIF)
    if r.returncode != 0:
        raise RuntimeError('concrete side crashed: ' + (r.stdout + r.stderr)[-1500:])
    res = json.load(open(fout))
    for f_ in (fin, fout):
        try:
            os.unlink(f_)
        except OSError:
            pass
    return res


def model_inputs(model_text, mapping):
    """Extract concrete parameter values from a solver model (text 'name!k = value' lines, or the structured small model appended by the
    prover after '#PYVC-SMALL').  mapping: input key -> parameter name, or ('const', value), or ('array', parameter name)."""
    if not model_text:
        return None
    if '#PYVC-SMALL ' in model_text:
        try:
            sm = json.loads(model_text.split('#PYVC-SMALL ', 1)[1])
        except ValueError:
            sm = None
        if sm is not None:
            inp = {}
            for k, src in mapping.items():
                if isinstance(src, (tuple, list)) and src[0] == 'const':
                    inp[k] = src[1]
                elif isinstance(src, (tuple, list)) and src[0] == 'array':
                    if src[1] not in sm['arrays']:
                        return None
                    inp[k] = sm['arrays'][src[1]]
                elif isinstance(src, (tuple, list)) and src[0] == 'len':
                    if src[1] not in sm['arrays']:
                        return None
                    inp[k] = len(sm['arrays'][src[1]])
                elif src in sm['ints']:
                    inp[k] = sm['ints'][src]
                elif src in sm['bools']:
                    inp[k] = sm['bools'][src]
                else:
                    return None
            return inp
    vals = {}
    for m in re.finditer(r'([A-Za-z_][\w\.]*)!\d+ = (-?\d+|\(- \d+\)|True|False)', model_text):
        n, v = m.group(1), m.group(2)
        if v in ('True', 'False'):
            vals.setdefault(n, v == 'True')
        else:
            vals.setdefault(n, int(v.replace('(- ', '-').replace(')', '')))
    inp = {}
    for k, src in mapping.items():
        if src not in vals:
            return None
        inp[k] = vals[src]
    return inp


class LOb:
    """Obligation as it travels between processes: metadata + SMT-LIB text."""
    def __init__(self, d):
        self.__dict__.update(d)
        self.uid = None


class _Rename(ast.NodeTransformer):
    """rename a program variable in a spec expression, except under old(...) (the entry value keeps its name)"""
    def __init__(self, a, b):
        self.a, self.b = a, b

    def visit_Call(self, n):
        if isinstance(n.func, ast.Name) and n.func.id == 'old':
            return n
        return self.generic_visit(n)

    def visit_Name(self, n):
        if n.id == self.a:
            return ast.copy_location(ast.Name(id=self.b, ctx=n.ctx), n)
        return n


def rename_in_spec(expr, a, b):
    return ast.unparse(_Rename(a, b).visit(ast.parse(expr.strip(), mode='eval')))


def spec_names(expr):
    """program-variable names a spec expression mentions outside old(...), without comprehension-bound names and called functions"""
    tree = ast.parse(expr.strip(), mode='eval')
    bound, called, names = set(), set(), set()

    def walk(n):
        if isinstance(n, ast.Call) and isinstance(n.func, ast.Name):
            if n.func.id == 'old':
                return
            called.add(n.func.id)
            for a in n.args:
                walk(a)
            return
        if isinstance(n, ast.comprehension):
            for t in ast.walk(n.target):
                if isinstance(t, ast.Name):
                    bound.add(t.id)
        if isinstance(n, ast.Name):
            names.add(n.id)
        for ch in ast.iter_child_nodes(n):
            walk(ch)
    walk(tree)
    return names - bound - called


def repair_candidates(c):
    """Loop invariants are proof hints written for the baseline text.  When a CHANGED function keeps its loops but carries the loop's result in a
    differently named variable, the invariant still talks about the old one.  Candidates (stale, fresh): `stale` is mentioned by an invariant
    of loop k but no longer assigned in loop k; `fresh` is assigned in loop k and unknown to its invariants.  Trying an invariant is always
    sound: every obligation is regenerated and must be proved with it."""
    try:
        node = front.find_function(c.file, c.source or c.qual)[0]
    except front.AttachError:
        return []
    loops = []

    def collect(stmts):
        for st_ in stmts:
            if isinstance(st_, (ast.For, ast.While)):
                loops.append(st_)
            for f_ in ('body', 'orelse', 'finalbody', 'handlers'):
                sub = getattr(st_, f_, None)
                if isinstance(sub, list):
                    collect([x for x in sub if isinstance(x, ast.stmt)] + [y for x in sub if isinstance(x, ast.ExceptHandler) for y in x.body])
    collect(node.body)
    pairs = []
    for k, lc in c.loops.items():
        if not isinstance(k, int) or k >= len(loops):
            continue
        invs = [e if isinstance(e, str) else e[1] for e in lc.get('invariant', [])]
        if not invs:
            continue
        mentioned = set()
        for e in invs:
            try:
                mentioned |= spec_names(e)
            except SyntaxError:
                return []
        assigned = set(n.id for n in ast.walk(loops[k]) if isinstance(n, ast.Name) and isinstance(n.ctx, ast.Store))
        stale = [v for v in sorted(mentioned) if v not in assigned and v not in ('self', 'result', 'G', lc.get('idx'))]
        fresh = [v for v in sorted(assigned) if v not in mentioned and v != lc.get('idx')]
        for a in stale:
            for b in fresh:
                if (a, b) not in pairs:
                    pairs.append((a, b))
    return pairs[:8]


def gen_worker(arg):
    prop, key, repo = arg[:3]
    front.REPO = repo
    front._cache.clear()
    try:
        importlib.import_module('contracts.c%s' % prop[1:])
        try:
            importlib.import_module('contracts.lib')
        except ModuleNotFoundError:
            pass
        c = REGISTRY[key]
        if len(arg) > 3 and arg[3] == 'candidates':
            return {'candidates': repair_candidates(c)}
        if len(arg) > 3 and arg[3][0] == 'dropcuts':
            # stepping stones are hints: a proof attempt without some of them is still a proof attempt
            c.cuts = [ct for ct in c.cuts if ct[1] not in arg[3][1]]
            c.using = {k: v for k, v in c.using.items() if k not in arg[3][1]}
        elif len(arg) > 3:
            a_, b_ = arg[3]
            for lc in c.loops.values():
                lc['invariant'] = [rename_in_spec(e, a_, b_) if isinstance(e, str) else (e[0], rename_in_spec(e[1], a_, b_)) + tuple(e[2:]) for e in lc.get('invariant', [])]
        eng = Engine(os.path.join(VERIF, 'contracts', 'spec.py'))
        values.reset_names()
        try:
            info = eng.verify(c, prop)
        except front.AttachError as e:
            sha = None
            try:
                sha = front.find_function(c.file, c.source or c.qual)[2]
            except front.AttachError:
                pass
            return {'attach_error': str(e), 'function': c.key, 'sha256': sha}
        except Unsupported as e:
            sha = None
            try:
                sha = front.find_function(c.file, c.source or c.qual)[2]
            except front.AttachError as e2:
                return {'attach_error': str(e2)}
            return {'unsupported': str(e), 'function': c.key, 'sha256': sha}
        obs = []
        for ob in eng.obs:
            triv = ob.kind != 'cover' and z3.is_true(ob.goal) and not ob.hyps
            obs.append({'name': ob.name, 'kind': ob.kind, 'label': ob.label, 'func': ob.func, 'line': ob.line,
                        'goal_str': str(ob.goal)[:300] if ob.goal is not None else '', 'n_hyps': len(ob.hyps), 'trivial': triv,
                        'smt2': None if triv else solve.ob_to_smt2(ob.hyps, ob.goal),
                        # the `using` subset travels as its own SMT-LIB text (positions do not survive the parser, which splits conjunctions)
                        'focus': (solve.ob_to_smt2([ob.hyps[i_] for i_ in ob.using], ob.goal) if getattr(ob, 'using', None) and not triv else None)})
        return {'info': info, 'obs': obs, 'assumed': sorted(eng.assumed_used)}
    except Exception:
        out = {'crash': traceback.format_exc()[-1200:]}
        try:
            c = REGISTRY[key]
            out['function'] = c.key
            out['sha256'] = front.find_function(c.file, c.source or c.qual)[2]
        except Exception:
            pass
        return out


class Checker:
    def __init__(self, prop, tier, seed):
        self.prop, self.tier, self.seed = prop, tier, seed
        self.t0 = time.time()
        self.problems = []       # checker problems -> exit 3
        self.undecided = []      # -> exit 2
        self.violations = []     # dicts -> exit 1
        self.known_lines = []
        self.fallbacks = []      # functions that fell back to tier B with reason
        self.functions = []
        self.obs = []
        self.results = {}
        self.assumed = set()

    # -- symbolic part -------------------------------------------------------------------------------
    def generate(self):
        try:
            importlib.import_module('contracts.c%s' % self.prop[1:])
        except ModuleNotFoundError:
            return
        keys = [key for key, c in REGISTRY.items() if self.prop in c.props and c.kind == 'code']
        if not keys:
            return
        # one process per contracted function: VC generation is embarrassingly parallel; obligations come back as SMT-LIB text
        with ProcessPoolExecutor(max_workers=min(16, len(keys))) as ex:
            outs = list(ex.map(gen_worker, [(self.prop, k, front.REPO) for k in keys], chunksize=1))
        for key, out in zip(keys, outs):
            if out.get('attach_error'):
                fkey = out.get('function')
                fkey = '%s::%s' % fkey if isinstance(fkey, tuple) else fkey
                base = self.baseline()['functions'].get(fkey) if fkey else None
                if base is not None and out.get('sha256') != base:
                    # the function was restructured (loops added/removed, renamed, deleted) since the baseline proof: the contract's loop
                    # ordinals no longer fit; that is not a defect of the code: no proof for this function on this text, the bounded stand-in decides
                    self.fallbacks.append({'function': fkey, 'reason': 'changed function: the contract no longer attaches (%s)' % out['attach_error'], 'sha256': out.get('sha256')})
                else:
                    self.problems.append('contract cannot attach: %s' % out['attach_error'])
            elif out.get('crash'):
                fkey = out.get('function')
                base = self.baseline()['functions'].get(fkey) if fkey else None
                if base is not None and out.get('sha256') != base:
                    # an internal error of the engine on a CHANGED function (a value of an unexpected kind reached a theory function): the
                    # proof does not apply to this text; not a checker problem of the unchanged tree, the bounded stand-in decides
                    self.fallbacks.append({'function': fkey, 'reason': 'changed function: the engine could not process it (%s)' % out['crash'].strip().splitlines()[-1][:200], 'sha256': out.get('sha256')})
                else:
                    self.problems.append('checker crash while generating VCs for %s: %s' % (key[1], out['crash']))
            elif out.get('unsupported'):
                self.fallbacks.append({'function': out['function'], 'reason': 'unsupported construct: %s' % out['unsupported'], 'sha256': out.get('sha256')})
            else:
                self.functions.append(out['info'])
                for d in out['obs']:
                    self.obs.append(LOb(d))
                self.assumed |= set(out['assumed'])

    def effects(self):
        """frame obligations decided by the syntactic effects walker (pyvc/effects.py) over the real source"""
        try:
            specs = importlib.import_module('contracts.effects')
        except ModuleNotFoundError:
            return
        from . import effects as fx
        self.preset = {}
        for spec in specs.FRAMES.get(self.prop, []):
            try:
                r = fx.check_frame(spec['entry'], spec['frame'], receivers=spec.get('receivers'), extra_pure=spec.get('extra_pure', ()),
                                   dynamic=spec.get('dynamic'), allow=spec.get('allow', ()))
            except front.AttachError as e:
                self.problems.append('frame contract cannot attach: %s' % e)
                continue
            for f in r['functions']:
                f = dict(f, under='frame contract of %s::%s' % spec['entry'])
                self.functions.append(f)
            for o in r['obligations']:
                lob = LOb({'name': '%s.%s' % (self.prop, o['name']), 'kind': 'frame', 'label': spec['label'], 'func': '%s::%s' % spec['entry'], 'line': o['detail'].get('line', 0),
                           'goal_str': json.dumps(o['detail'], default=str)[:300], 'n_hyps': 0, 'trivial': True, 'smt2': None})
                lob.preset = {'status': 'proved' if o['ok'] else 'failed', 'backend': 'effects-walker', 'secs': 0.0, 'n_inst': 0,
                              'model': None if o['ok'] else json.dumps(o['detail'], default=str)}
                self.obs.append(lob)
            self.assumed |= set(getattr(specs, 'ASSUME', []))

    # -- baseline: which obligations were proved on which function text (committed under /verif/baseline) ----------------------
    def baseline(self):
        if not hasattr(self, '_baseline'):
            try:
                self._baseline = json.load(open(os.path.join(VERIF, 'baseline', '%s.json' % self.prop)))
            except Exception:
                self._baseline = {'functions': {}, 'proved': []}
            self._baseline['proved'] = set(self._baseline.get('proved', []))
        return self._baseline

    def hints_detached(self, func):
        """stepping stones of the contract that found no statement to attach to in the CURRENT text of the function"""
        for f in self.functions:
            if f.get('function') == func and f.get('hints_not_attached'):
                return f['hints_not_attached']
        return []

    def function_changed(self, func):
        """True when the text of the function differs from the text the committed baseline proof was made on"""
        base = self.baseline()['functions'].get(func)
        cur = [f.get('sha256') for f in self.functions if f.get('function') == func]
        return base is not None and bool(cur) and cur[0] != base

    def discharge(self):
        if not self.obs:
            return
        timeout = 12000 if self.tier == 'quick' else 60000
        items = []
        for i, ob in enumerate(self.obs):
            ob.uid = i
            if getattr(ob, 'preset', None):
                self.results[i] = ob.preset
                continue
            if ob.trivial:
                self.results[i] = {'status': 'proved', 'backend': 'trivial', 'secs': 0.0, 'n_inst': 0, 'model': None}
                continue
            items.append((i, ob.smt2, ob.kind == 'cover', timeout, getattr(ob, 'focus', None)))
        workers = min(16, max(1, len(items)))
        with ProcessPoolExecutor(max_workers=workers) as ex:
            for name, res in ex.map(solve.work, items, chunksize=1):
                self.results[name] = res
        # solver noise must never become a verdict: anything undecided is retried with a 4x budget on few workers
        # (solver noise can only be suspected where the function text is the one the baseline proof was made on)
        retry = [(i, smt, cov, timeout * 4, foc) for (i, smt, cov, _, foc) in items if self.results[i]['status'] in ('unknown', 'error')
                 and not self.function_changed(self.obs[i].func)]
        # (only a handful of undecided obligations is solver noise; dozens mean the tree or a contract is broken: report, do not grind)
        # (and when some obligation definitely failed, the run reports a violation whatever the undecided ones turn out to be)
        definite = any(r.get('status') == 'failed' for r in self.results.values())
        if retry and len(retry) <= 6 and not definite and not getattr(self, 'no_retry', False):
            with ProcessPoolExecutor(max_workers=min(4, len(retry))) as ex:
                for name, res in ex.map(solve.work, retry, chunksize=1):
                    res['retried'] = True
                    self.results[name] = res

        self.repair(timeout)

    def repair(self, timeout):
        """Proof repair on CHANGED functions (never on the baseline text): an obligation proved on the baseline text and not provable now may only
        mean that the loop invariants (proof hints) name a variable the new text no longer uses.  Each candidate renaming is a complete new proof
        attempt of the function (all obligations regenerated); the first one that discharges everything replaces the failed attempt."""
        by_func = {}
        for ob in self.obs:
            if getattr(ob, 'preset', None) or ob.kind == 'frame':
                continue
            by_func.setdefault(ob.func, []).append(ob)
        for func, obs in by_func.items():
            if not self.function_changed(func):
                continue
            bad = [o for o in obs if o.kind != 'cover' and self.results[o.uid]['status'] != 'proved']
            if not bad:
                continue
            key = tuple(func.split('::'))
            c = REGISTRY.get(key)
            if c is None:
                continue
            cands = []
            bad_names = set(o.name for o in bad)
            if all(o.kind == 'hint' for o in bad):
                # only stepping stones fail (e.g. two statements were swapped and a stone is now stated one statement too early): try the
                # proof without them; if the postconditions do not need them the function is proved, otherwise they fail and are reported
                cands.append(('dropcuts', sorted(set(o.label for o in bad))))
            if c.loops:
                with ProcessPoolExecutor(max_workers=1) as ex:
                    cands += list(ex.map(gen_worker, [(self.prop, key, front.REPO, 'candidates')]))[0].get('candidates', [])
            for a_, b_ in cands:
                with ProcessPoolExecutor(max_workers=1) as ex:
                    out = list(ex.map(gen_worker, [(self.prop, key, front.REPO, (a_, b_))]))[0]
                if not out.get('obs'):
                    continue
                new = [LOb(d) for d in out['obs']]
                items = [(j, o.smt2, o.kind == 'cover', timeout, getattr(o, 'focus', None)) for j, o in enumerate(new) if not o.trivial]
                res = {j: {'status': 'proved', 'backend': 'trivial', 'secs': 0.0, 'n_inst': 0, 'model': None} for j, o in enumerate(new) if o.trivial}
                with ProcessPoolExecutor(max_workers=min(16, max(1, len(items)))) as ex:
                    for j, r in ex.map(solve.work, items, chunksize=1):
                        res[j] = r
                ok = all(res[j]['status'] == 'proved' for j, o in enumerate(new) if o.kind != 'cover') and \
                    not any(res[j]['status'] in ('vacuous', 'error') for j, o in enumerate(new) if o.kind == 'cover' and not o.name.endswith('.before') and not o.name.endswith('.after'))
                if not ok:
                    continue
                # replace the failed attempt by the repaired proof
                keep = [o for o in self.obs if o.func != func or getattr(o, 'preset', None) or o.kind == 'frame']
                kept_res = {id(o): self.results[o.uid] for o in keep}
                new_res = {id(o): res[j] for j, o in enumerate(new)}
                self.obs = keep + new
                self.results = {}
                for i, o in enumerate(self.obs):
                    o.uid = i
                    self.results[i] = kept_res.get(id(o)) or new_res[id(o)]
                for f in self.functions:
                    if f.get('function') == func:
                        f['proof_repaired'] = ('proved without the stepping stones %s (they no longer hold where they were stated); all %d obligations regenerated and discharged' % (b_, len(new))) if a_ == 'dropcuts' else \
                            'loop invariants restated with `%s` in place of `%s` (the changed text carries the loop result in a renamed variable); all %d obligations regenerated and discharged' % (b_, a_, len(new))
                self.repaired = getattr(self, 'repaired', []) + [('%s: proved without the stepping stones %s' % (func, b_)) if a_ == 'dropcuts' else '%s: invariants restated with `%s` for `%s`' % (func, b_, a_)]
                break

    # -- verdicts -----------------------------------------------------------------------------------------
    def analyse(self, bounded):
        prop = self.prop
        known = load_known(prop)
        # group path-instances by obligation name
        groups = {}
        for ob in self.obs:
            groups.setdefault(ob.name, []).append(ob)
        self.groups = groups
        failed = []
        for name, obs in groups.items():
            sts = [self.results[o.uid]['status'] for o in obs]
            if obs[0].kind == 'cover' and name.endswith('.before'):
                continue
            if obs[0].kind == 'cover' and name.endswith('.after'):
                # hypotheses became contradictory by assuming a callee contract although they were consistent before
                bef = groups.get(name[:-len('.after')] + '.before', [])
                for o in obs:
                    if self.results[o.uid]['status'] == 'vacuous':
                        twin = bef
                        if not twin or any(self.results[b.uid]['status'] != 'vacuous' for b in twin):
                            self.problems.append('vacuity: assuming the callee contract at %s makes the hypotheses contradictory' % name)
                            break
                continue
            if obs[0].kind == 'cover':
                if any(s == 'vacuous' for s in sts):
                    self.problems.append('vacuity: hypotheses of %s are contradictory' % name)
                elif any(s == 'error' for s in sts):
                    self.problems.append('solver error on %s: %s' % (name, [self.results[o.uid]['model'] for o in obs][0]))
                continue
            if all(s == 'proved' for s in sts):
                continue
            if any(s == 'error' for s in sts):
                self.problems.append('solver error on %s: %s' % (name, [self.results[o.uid]['model'] for o in obs if self.results[o.uid]['status'] == 'error'][0]))
                continue
            failed.append(name)
        self.failed = failed
        self.failed_all = list(failed)
        # replay candidate counter-models on the real code
        replay_items = []
        replay_src = {}
        for name in failed:
            ob0 = groups[name][0]
            c = REGISTRY.get(tuple(ob0.func.split('::')))
            mapping = getattr(c, 'hints', {}).get('replay') if c else None
            for o in groups[name]:
                r = self.results[o.uid]
                if mapping and r.get('model'):
                    inp = model_inputs(r['model'], mapping[1])
                    if inp is not None:
                        replay_items.append({'case': mapping[0], 'input': inp})
                        replay_src[json.dumps([mapping[0], inp], sort_keys=True)] = name
        replayed = {}
        if replay_items:
            try:
                for res in run_concrete_cases(prop, replay_items):
                    k = json.dumps([res['case'], res['input']], sort_keys=True)
                    if res['fails']:
                        replayed.setdefault(replay_src[k], []).append(res)
            except Exception as e:
                self.problems.append('replay failed: %s' % e)
        # bounded stand-in results
        bviol = []
        if bounded is not None:
            bviol = bounded.get('violations', [])
        # classify concrete violations against known findings
        mod = None
        known_hits = {}
        new_viol = []

        def is_known(v):
            for k in known:
                if k.get('case') and k['case'] != v['case']:
                    continue
                if k.get('clause') and not re.fullmatch(k['clause'], v['clause']):
                    continue
                cls = k.get('class')
                if cls and cls not in v.get('classes', []):
                    continue
                return k
            return None
        for name, ress in replayed.items():
            for res in ress:
                for f in res['fails']:
                    v = {'case': res['case'], 'clause': f['clause'], 'input': res['input'], 'detail': f['detail'], 'obligation': name, 'classes': f.get('classes', [])}
                    k = is_known(v)
                    if k is not None:
                        known_hits.setdefault(id(k), (k, v))
                    else:
                        new_viol.append(v)
        for v in bviol:
            k = is_known(v)
            if k is not None:
                known_hits.setdefault(id(k), (k, v))
            else:
                new_viol.append(v)
        # known findings listed as obligations: the obligation is expected to fail on exactly that class
        for k in known:
            if k.get('obligation'):
                hit = [n for n in failed if re.fullmatch(k['obligation'], n)]
                if hit:
                    known_hits.setdefault(id(k), (k, {'obligation': hit[0]}))
                    for n in hit:
                        failed.remove(n)
        for k, v in known_hits.values():
            self.known_lines.append('KNOWN-FINDING: property=%s %s' % (prop, k['text']))
        # failing obligations: need a replayed input, else report with no-failing-input-found
        os.makedirs(os.path.join(OUT, 'replay'), exist_ok=True)
        seen = set()
        n = 0
        for v in new_viol:
            key = (v['case'], v['clause'])
            if key in seen:
                continue
            seen.add(key)
            n += 1
            path = os.path.join('out', 'replay', '%s-%s-%d.json' % (prop, self.tier, n))
            json.dump({'property': prop, 'kind': 'concrete', 'case': v['case'], 'clause': v['clause'], 'input': v['input'],
                       'detail': v.get('detail'), 'obligation': v.get('obligation'), 'repo': front.REPO}, open(os.path.join(VERIF, path), 'w'), indent=1)
            self.violations.append({'replay': path, 'clause': v['clause'], 'case': v['case'], 'with_input': True, 'obligation': v.get('obligation')})
        covered_by_input = set(v.get('obligation') for v in new_viol if v.get('obligation'))
        for name in failed:
            if name in covered_by_input:
                continue
            obs = groups[name]
            sts = [self.results[o.uid]['status'] for o in obs]
            only_stones = self.function_changed(obs[0].func) and all(groups[n_][0].kind == 'hint' for n_ in self.failed_all if groups[n_][0].func == obs[0].func)
            if only_stones:
                # on a CHANGED function nothing but stepping stones of the proof script fails (e.g. two statements were swapped and a stone is now
                # stated one statement too early), every obligation that comes from the property or from safety is discharged relative to them, and
                # the proof does not go through without them either (repair pass): the proof script does not fit this text. A stepping stone is
                # a hint of mine, not a clause of the property; without a failing input this is no evidence against the property: the function
                # counts as NOT proved and the bounded stand-in decides
                if not any(f_.get('function') == obs[0].func for f_ in self.fallbacks):
                    self.fallbacks.append({'function': obs[0].func, 'reason': 'changed function: only stepping stones of the proof script fail (%s); not proved on this text: bounded stand-in decides' % sorted(set(groups[n_][0].label for n_ in self.failed_all if groups[n_][0].func == obs[0].func))[:3]})
                continue
            if self.function_changed(obs[0].func) and self.hints_detached(obs[0].func):
                # the function was rewritten so that the proof's stepping stones no longer attach: the proof script does not fit this
                # text any more; without a failing input this is not evidence against the property: the bounded stand-in decides
                if not any(f_.get('function') == obs[0].func for f_ in self.fallbacks):
                    self.fallbacks.append({'function': obs[0].func, 'reason': 'changed function: stepping stones %s no longer attach; obligations not discharged: bounded stand-in decides' % self.hints_detached(obs[0].func)[:3]})
                continue
            if all(s in ('proved', 'unknown') for s in sts):
                if not (name in self.baseline()['proved'] and self.function_changed(obs[0].func)):
                    self.undecided.append(name)
                    continue
                # proved on the baseline text of this function, not provable on its current (changed) text: reported as it stands
            if new_viol:
                # an input violating the property on the real code was already found by this run; attach
                continue
            n += 1
            path = os.path.join('out', 'replay', '%s-%s-%d.json' % (prop, self.tier, n))
            json.dump({'property': prop, 'kind': 'obligation', 'obligation': name, 'function': obs[0].func,
                       'solver_output': [self.results[o.uid] for o in obs if self.results[o.uid]['status'] != 'proved'][:3],
                       'note': 'obligation not discharged; no failing input found by model replay or by the bounded search',
                       'baseline': 'proved on the committed baseline text of this function; the function text has changed' if self.function_changed(obs[0].func) else None,
                       'repo': front.REPO},
                      open(os.path.join(VERIF, path), 'w'), indent=1, default=str)
            self.violations.append({'replay': path, 'clause': name, 'with_input': False})

    def class_pred(self, cls, inp):
        try:
            mod = importlib.import_module('contracts.known_classes')
            return bool(getattr(mod, cls)(inp))
        except Exception:
            return False

    # -- evidence --------------------------------------------------------------------------------------------
    def write_evidence(self, bounded, level, extra_assumptions):
        groups = getattr(self, 'groups', {})
        names = [n for n, o in groups.items() if o[0].kind != 'cover']
        discharged = [n for n in names if all(self.results[o.uid]['status'] == 'proved' for o in groups[n])]
        backends = {}
        secs = 0.0
        for n in names:
            for o in groups[n]:
                r = self.results[o.uid]
                secs += r['secs']
                if r['status'] == 'proved':
                    backends[r['backend']] = backends.get(r['backend'], 0) + 1
        samples = []
        for n in names[:4]:
            o = groups[n][0]
            samples.append({'obligation': n, 'function': o.func, 'kind': o.kind, 'goal': o.goal_str, 'n_hypotheses': o.n_hyps,
                            'status': self.results[o.uid]['status'], 'backend': self.results[o.uid]['backend']})
        cov = {
            'obligations': len(names), 'discharged': len(discharged),
            'path_vcs': sum(len(groups[n]) for n in names),
            'checker_cmd': 'python3-vt -m pyvc check %s --tier %s' % (self.prop, self.tier),
            'backends': backends, 'solver_seconds': round(secs, 3),
            'functions_under_contract': self.functions,
            'functions_fallen_back_to_bounded': self.fallbacks,
            'vacuity_covers': len([n for n, o in groups.items() if o[0].kind == 'cover']),
            'undischarged': [n for n in names if n not in discharged],
            'trusted_base': sorted(self.assumed) + ['z3 %s (python3-vt)' % z3.get_version_string(), '/usr/bin/cvc5 (fallback)', 'pyvc VC generator (this repository, /verif/pyvc)'],
            'extraction_drops': front.DROPPED,
            'verifier_self_test': getattr(self, 'selftest', None),
        }
        if bounded is not None:
            cov.update({
                'evaluations': bounded['evaluations'], 'distinct_nontrivial': bounded['distinct_nontrivial'],
                'rule': 'BOUNDED stand-in (never counted as proved): contract cases evaluated on the real code over: ' + ' | '.join(bounded['scopes']) +
                        ' ; distinct = distinct (case, input) pairs; non-trivial = flagged by the case (non-empty data etc.)',
                'bounded_per_case': bounded['per_case'], 'bounded_contracts': bounded.get('contracts', []),
                'exhaustive': True, 'bounded_wall_s': bounded['wall_s'],
            })
            samples += bounded['samples'][:4]
        else:
            cov.update({'evaluations': max(1, len(names)), 'distinct_nontrivial': max(2, len(names)), 'rule': 'obligations only'})
        if not samples:
            samples = [{'note': 'no obligations generated'}]
        cov['samples'] = samples
        ev = {
            'property_id': self.prop, 'tier': self.tier, 'seed': self.seed, 'level': level,
            'coverage': cov, 'assumptions': ASSUMPTIONS_COMMON + list(extra_assumptions) + ['A-LIB (assumed contract used): ' + a for a in sorted(self.assumed)],
            'wall_s': round(time.time() - self.t0, 2), 'violations': len(self.violations),
            'known_findings_seen': self.known_lines, 'undecided': self.undecided, 'checker_problems': self.problems,
        }
        os.makedirs(os.path.join(VERIF, 'evidence'), exist_ok=True)
        json.dump(ev, open(os.path.join(VERIF, 'evidence', '%s.json' % self.prop), 'w'), indent=1, default=str)
        return ev


def check(prop, tier, seed):
    ck = Checker(prop, tier, seed)
    proc, outp = run_concrete_async(prop, tier, seed)
    try:
        ck.generate()
        ck.effects()
        ck.discharge()
    except Exception:
        ck.problems.append('checker crash during VC generation/discharge: ' + traceback.format_exc()[-1500:])
    bounded = None
    if proc is not None:
        out, _ = proc.communicate()
        if proc.returncode != 0 or not os.path.exists(outp):
            ck.problems.append('bounded stand-in crashed (harness problem, not a verdict): ' + (out or '')[-1500:])
        else:
            bounded = json.load(open(outp))
            try:
                os.unlink(outp)
            except OSError:
                pass
    try:
        ck.analyse(bounded)
    except Exception:
        ck.problems.append('checker crash during analysis: ' + traceback.format_exc()[-1500:])
    meta = {}
    try:
        meta = importlib.import_module('contracts.meta').META.get(prop, {})
    except Exception:
        pass
    names = [n for n, o in getattr(ck, 'groups', {}).items() if o[0].kind != 'cover']
    level = meta.get('level', 'proof' if names else 'exploration')
    if level == 'proof' and not names:
        ck.problems.append('zero obligations generated for a proof-level check')
    ck.selftest = None
    tree_changed = any(ck.function_changed(f.get('function')) for f in ck.functions) or any(f.get('sha256') and ck.baseline()['functions'].get(f.get('function')) not in (None, f.get('sha256')) for f in ck.fallbacks)
    if tier == 'thorough' and names and not ck.problems and tree_changed:
        # the self-test examines the VERIFIER on the text the proofs were made for; on a tree whose contracted functions differ from the
        # baseline its verdicts say nothing (a control applied on top of a broken function "fails"): skipped, and said so in the evidence
        ck.selftest = {'skipped': 'contracted functions differ from the baseline text: the verifier self-test only runs on the baseline text'}
    elif tier == 'thorough' and names and not ck.problems:
        # verifier self-test: every property-breaking edit of the catalogue must fail an obligation, every negative control must verify
        try:
            from . import mutants
            res = mutants.run_catalogue(prop, verbose=False, jobs=4)
            # a wrong verdict is re-examined alone (no other solver processes competing for the cores) before it counts
            for i_, r_ in enumerate(res):
                if r_['status'] == 'WRONG':
                    again = mutants.run_catalogue(prop, only={r_['id']}, verbose=False, jobs=1)
                    if again:
                        res[i_] = dict(again[0], rerun_alone=True)
            wrong = [r for r in res if r['status'] == 'WRONG']
            ck.selftest = {'mutants_total': len(res), 'killed_or_control_ok': len([r for r in res if r['status'] == 'ok']),
                           'fallback_only': [r['id'] for r in res if r['status'] == 'fallback-only'], 'skipped': [r['id'] for r in res if r['status'].startswith('skipped')],
                           'wrong': [r['id'] for r in wrong]}
            if wrong:
                ck.problems.append('verifier self-test: catalogue entries with the wrong verdict: %s' % [r['id'] for r in wrong])
        except Exception:
            ck.problems.append('verifier self-test crashed: ' + traceback.format_exc()[-800:])
    ev = ck.write_evidence(bounded, level, meta.get('assumptions', []))
    if os.environ.get('PYVC_WRITE_BASELINE') and not (ck.violations or ck.problems or ck.undecided or ck.fallbacks):
        os.makedirs(os.path.join(VERIF, 'baseline'), exist_ok=True)
        groups = getattr(ck, 'groups', {})
        proved = sorted(n for n, o in groups.items() if o[0].kind != 'cover' and all(ck.results[x.uid]['status'] == 'proved' for x in o))
        json.dump({'repo_head': subprocess.run(['git', '-C', front.REPO, 'rev-parse', '--short', 'HEAD'], capture_output=True, text=True).stdout.strip(),
                   'functions': {f['function']: f.get('sha256') for f in ck.functions if f.get('sha256')}, 'proved': proved},
                  open(os.path.join(VERIF, 'baseline', '%s.json' % prop), 'w'), indent=0, sort_keys=True)
    for l in ck.known_lines:
        print(l)
    cov = ev['coverage']
    print('%s tier=%s: obligations %d discharged %d (path VCs %d, %s) | bounded evaluations %s | fallbacks %d | %.1fs' % (
        prop, tier, cov['obligations'], cov['discharged'], cov['path_vcs'], cov['backends'], cov.get('evaluations') if bounded else '-', len(ck.fallbacks), ev['wall_s']))
    for f in ck.fallbacks:
        print('  bounded-only (not proved): %s — %s' % (f['function'], f['reason']))
    for r_ in getattr(ck, 'repaired', []):
        print('  proof repaired on a changed function: %s' % r_)
    if ck.violations:
        for v in ck.violations:
            print('VIOLATION property=%s replay=%s%s' % (prop, v['replay'], '' if v['with_input'] else ' no-failing-input-found'))
            print('  failed clause: %s%s' % (v['clause'], (' | failed obligation: %s (counter-model replayed on the real code)' % v['obligation']) if v.get('obligation') else ''))
        for n in getattr(ck, 'failed_all', []):
            print('  FAILED-OBLIGATION: %s' % n)
        return 1
    if ck.problems:
        for p in ck.problems:
            print('CHECKER-PROBLEM: %s' % p)
        return 3
    if ck.undecided:
        for u in ck.undecided:
            print('UNDECIDED: %s' % u)
        return 2
    return 0


def replay(path):
    d = json.load(open(path if os.path.isabs(path) else os.path.join(VERIF, path)))
    if d.get('kind') != 'concrete':
        print('obligation-level replay file: no failing input was found; obligation %s; solver output attached' % d.get('obligation'))
        print(json.dumps(d.get('solver_output'), indent=1)[:3000])
        return 1
    res = run_concrete_cases(d['property'], [{'case': d['case'], 'input': d['input']}])
    fails = [f for f in res[0]['fails'] if f['clause'] == d['clause']] or res[0]['fails']
    if fails:
        print('REPLAY: clause still fails on the real code: %s :: %s' % (fails[0]['clause'], fails[0]['detail']))
        return 1
    print('REPLAY: clause holds now')
    return 0
