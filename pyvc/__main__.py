import sys, os, argparse
sys.path.insert(0, os.path.dirname(os.path.dirname(os.path.abspath(__file__))))


def main():
    ap = argparse.ArgumentParser(prog='pyvc')
    sub = ap.add_subparsers(dest='cmd')
    c = sub.add_parser('check')
    c.add_argument('prop')
    c.add_argument('--tier', default=None)
    r = sub.add_parser('replay')
    r.add_argument('path')
    sub.add_parser('setup')
    a = ap.parse_args()
    if a.cmd == 'check':
        from pyvc import check
        tier = os.environ.get('VERIF_TIER') or a.tier or 'quick'
        seed = int(os.environ.get('VERIF_SEED', '0') or 0)
        sys.exit(check.check(a.prop, tier, seed))
    if a.cmd == 'replay':
        from pyvc import check
        sys.exit(check.replay(a.path))
    if a.cmd == 'setup':
        from pyvc import setup
        sys.exit(setup.main())
    ap.print_help()
    sys.exit(3)


if __name__ == '__main__':
    main()
