#!/bin/bash
# run every check of the manifest (tier $1, default quick), N in parallel; print exit codes
TIER=${1:-quick}; PAR=${2:-4}
cd "$(dirname "$0")/.."
mkdir -p out/logs
seq -f "C%02g" 1 20 | xargs -P $PAR -I{} sh -c "python3-vt -m pyvc check {} --tier $TIER > out/logs/{}.$TIER.log 2>&1; echo {} exit=\$?"
