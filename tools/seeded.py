#!/usr/bin/env python3
"""Seeded changes (written by independent sub-agents that saw only the property text): property-breaking ones (kind 'breaking': the check must
exit 1 with a VIOLATION line) and behaviour-preserving refactors (kind 'preserving': the check must exit 0 and print no VIOLATION).
  seeded.py import <srcdir> <id>     copy patch.diff / demo.py / meta.json into /verif/seeded/<id>/
  seeded.py confirm <id>             in a scratch worktree: patch applies, pinned tests still pass, demo passes clean / fails patched
  seeded.py detect <id> [tier]       run the property's check against the patched scratch tree (VERIF_REPO), record the outcome
The scratch worktree lives under /tmp and is removed afterwards."""
import sys, os, json, subprocess, shutil, re, time
V = os.path.dirname(os.path.dirname(os.path.abspath(__file__)))
WT = '/tmp/seed_wt_%d' % os.getpid()


def sh(cmd, **kw):
    return subprocess.run(cmd, shell=True, capture_output=True, text=True, **kw)


def worktree():
    sh('git -C /repo worktree remove --force %s' % WT)
    r = sh('git -C /repo worktree add --detach %s HEAD' % WT)
    assert r.returncode == 0, r.stderr


def cleanup():
    sh('git -C /repo worktree remove --force %s' % WT)
    sh('git -C /repo worktree prune')


def meta_path(i):
    return os.path.join(V, 'seeded', i, 'meta.json')


def load_meta(i):
    return json.load(open(meta_path(i)))


def save_meta(i, m):
    json.dump(m, open(meta_path(i), 'w'), indent=1)


def confirm(i):
    d = os.path.join(V, 'seeded', i)
    m = load_meta(i)
    worktree()
    try:
        env = dict(os.environ, PYTHONPATH=WT)
        clean = sh('cd %s && /venv/bin/python %s/demo.py' % (WT, d), env=env)
        ap = sh('git -C %s apply %s/patch.diff' % (WT, d))
        if ap.returncode != 0:
            m['confirmed'] = {'applies': False, 'error': ap.stderr[-300:]}
            save_meta(i, m)
            return m['confirmed']
        tests = sh('cd %s && /venv/bin/python -m pytest -q -p no:cacheprovider --timeout=900 --continue-on-collection-errors 2>&1 | tail -1' % WT)
        patched = sh('cd %s && /venv/bin/python %s/demo.py' % (WT, d), env=env)
        m['confirmed'] = {'applies': True, 'tests_with_patch': tests.stdout.strip(), 'demo_clean_exit': clean.returncode, 'demo_patched_exit': patched.returncode,
                          'ok': clean.returncode == 0 and '52 passed' in tests.stdout and
                                ((patched.returncode == 0) if m.get('kind') == 'preserving' else (patched.returncode != 0)),
                          'repo_head': sh('git -C /repo rev-parse --short HEAD').stdout.strip(),
                          'ran': ['demo.py on clean worktree', 'git apply patch.diff', 'pinned pytest suite', 'demo.py on patched worktree']}
        save_meta(i, m)
        return m['confirmed']
    finally:
        cleanup()


def detect(i, tier='quick'):
    d = os.path.join(V, 'seeded', i)
    m = load_meta(i)
    prop = m['property']
    worktree()
    try:
        ap = sh('git -C %s apply %s/patch.diff' % (WT, d))
        assert ap.returncode == 0, ap.stderr
        t0 = time.time()
        r = sh('cd %s && python3-vt -m pyvc check %s --tier %s' % (V, prop, tier), env=dict(os.environ, VERIF_REPO=WT))
        out = r.stdout
        viol = [l for l in out.split('\n') if l.startswith('VIOLATION') or 'failed clause' in l or 'FAILED-OBLIGATION' in l or 'bounded-only' in l or 'UNDECIDED' in l or 'CHECKER' in l]
        m.setdefault('detection', {})[tier] = {'exit': r.returncode, 'wall_s': round(time.time() - t0, 1), 'lines': viol[:8],
                                               'by_obligation': any('FAILED-OBLIGATION' in l or 'failed obligation' in l for l in viol)}
        save_meta(i, m)
        return m['detection'][tier]
    finally:
        cleanup()
        # evidence of the unchanged tree must be what is committed: re-run is the caller's job


if __name__ == '__main__':
    cmd = sys.argv[1]
    if cmd == 'import':
        src, i = sys.argv[2], sys.argv[3]
        d = os.path.join(V, 'seeded', i)
        os.makedirs(d, exist_ok=True)
        for f in ('patch.diff', 'demo.py', 'meta.json'):
            shutil.copy(os.path.join(src, f), os.path.join(d, f))
        m = load_meta(i)
        m = {'property': m['property'], 'kind': m.get('kind', 'breaking'), 'summary': m.get('summary'), 'needs': m.get('needs'), 'functions': m.get('functions'),
             'author_ran': m.get('author_ran') or m.get('ran')}
        save_meta(i, m)
        print('imported', i)
    elif cmd == 'confirm':
        print(json.dumps(confirm(sys.argv[2])))
    elif cmd == 'detect':
        print(json.dumps(detect(sys.argv[2], sys.argv[3] if len(sys.argv) > 3 else 'quick'))[:600])
