#!/usr/bin/env python3
"""Regenerate MANIFEST.json checks / not_applicable from contracts/meta.py (keeps it valid at all times)."""
import json, os, sys
V = os.path.dirname(os.path.dirname(os.path.abspath(__file__)))
sys.path.insert(0, V)
from contracts.meta import META, NOT_APPLICABLE  # noqa
m = json.load(open(os.path.join(V, 'MANIFEST.json')))
props = [json.loads(l)['id'] for l in open(os.path.join(V, 'properties.jsonl'))]
checks = []
for p in props:
    if p not in META:
        continue
    d = META[p]
    checks.append({
        'property_id': p,
        'quick_cmd': 'python3-vt -m pyvc check %s --tier quick' % p,
        'thorough_cmd': 'python3-vt -m pyvc check %s --tier thorough' % p,
        'evidence_file': 'evidence/%s.json' % p,
        'replay_cmd_template': 'python3-vt -m pyvc replay {path}',
        'engine': 'pyvc',
        'level_claimed': {'category': d['level'], 'text': d['text'], 'design_ref': d.get('design_ref', 'DESIGN.md section 4/' + p)},
        'level_note': d['note'],
        'technique': d['technique'],
    })
m['checks'] = checks
m['engines'][0]['serves_properties'] = [c['property_id'] for c in checks]
m['not_applicable'] = [{'property_id': p, 'reason': NOT_APPLICABLE.get(p, 'check not built yet (work in progress in this session); no claim is made')} for p in props if p not in META]
json.dump(m, open(os.path.join(V, 'MANIFEST.json'), 'w'), indent=1)
print('checks:', [c['property_id'] for c in checks], 'n/a:', [x['property_id'] for x in m['not_applicable']])
