"""C16 — chunkings tile the sample axis exactly once (DESIGN 4/C16).  Postconditions are taken from the
property statement; invariants are the weakest inductive ones found (intervals, not equalities)."""
from pyvc.contract import contract

A = 'phylib/io/array.py'
T = 'phylib/io/traces.py'

contract(A, 'chunk_bounds', props=['C16'],
    params={'n_samples': 'int', 'chunk_size': 'int', 'overlap': 'int'},
    defaults={'overlap': '0'},
    requires=[('n>=0', 'n_samples >= 0'), ('cs>=1', 'chunk_size >= 1'), ('0<=ov<cs', '0 <= overlap and overlap < chunk_size')],
    ghost={'cov': '0'},                      # data[0:cov] has been kept exactly once so far
    on_yield={'vars': ['s_start', 's_end', 'keep_start', 'keep_end'],
              'requires': [
                  # "no chunk holds more than the chunk size"
                  ('chunk-nonempty-and-at-most-chunk-size', 's_start < s_end and s_end - s_start <= chunk_size and s_start >= 0'),
                  # "nothing missing or duplicated": a non-empty kept part starts exactly where the previous ended
                  ('kept-part-contiguous', 'implies(clip(keep_start, n_samples) < clip(keep_end, n_samples), clip(keep_start, n_samples) == cov)'),
                  # "each kept part lies inside its chunk's data"
                  ('kept-part-inside-chunk', 'implies(clip(keep_start, n_samples) < clip(keep_end, n_samples), s_start <= clip(keep_start, n_samples) and clip(keep_end, n_samples) <= s_end)'),
              ],
              'updates': {'cov': 'ite(clip(keep_start, n_samples) < clip(keep_end, n_samples), clip(keep_end, n_samples), cov)'}},
    loops={0: {'invariant': [
        ('keep_end-in-overlap-zone', 's_end - overlap <= keep_end and keep_end <= s_end'),
        ('s_end-at-least-chunk', 's_end >= chunk_size'),
        ('cov-is-clipped-keep_end', 'cov == clip(keep_end, n_samples)'),
        ('keep_end-positive', 'keep_end >= 1'),
    ]}},
    at_exit=[('all-covered', 'cov == n_samples')],      # "concatenate to exactly the whole data"
    hints={'replay': ('chunk_bounds', {'n': 'n_samples', 'cs': 'chunk_size', 'ov': 'overlap'})},
    statement='kept parts of successive overlapping chunks concatenate to exactly the whole data ...')
