"""C16 — chunkings tile the sample axis exactly once (DESIGN 4/C16).  Postconditions are taken from the
property statement; invariants are the weakest inductive ones found (intervals, not equalities)."""
from pyvc.contract import contract

A = 'phylib/io/array.py'
T = 'phylib/io/traces.py'

contract(A, 'chunk_bounds', props=['C16'],
    params={'n_samples': 'int', 'chunk_size': 'int', 'overlap': 'int'},
    defaults={'overlap': '0'},
    requires=[('n>=0', 'n_samples >= 0'), ('cs>=1', 'chunk_size >= 1'), ('0<=ov<cs', '0 <= overlap and overlap < chunk_size')],
    ghost={'cov': '0'},                      # data[0:cov] has been kept exactly once so far
    on_yield={'vars': ['s_start', 's_end', 'keep_start', 'keep_end'],
              'requires': [
                  # "no chunk holds more than the chunk size"
                  ('chunk-nonempty-and-at-most-chunk-size', 's_start < s_end and s_end - s_start <= chunk_size and s_start >= 0'),
                  # "nothing missing or duplicated": a non-empty kept part starts exactly where the previous ended
                  ('kept-part-contiguous', 'implies(clip(keep_start, n_samples) < clip(keep_end, n_samples), clip(keep_start, n_samples) == cov)'),
                  # "each kept part lies inside its chunk's data"
                  ('kept-part-inside-chunk', 'implies(clip(keep_start, n_samples) < clip(keep_end, n_samples), s_start <= clip(keep_start, n_samples) and clip(keep_end, n_samples) <= s_end)'),
              ],
              'updates': {'cov': 'ite(clip(keep_start, n_samples) < clip(keep_end, n_samples), clip(keep_end, n_samples), cov)'}},
    loops={0: {'invariant': [
        ('keep_end-in-overlap-zone', 's_end - overlap <= keep_end and keep_end <= s_end - overlap // 2'),
        ('s_end-at-least-chunk', 's_end >= chunk_size'),
        ('cov-is-clipped-keep_end', 'cov == clip(keep_end, n_samples)'),
        ('keep_end-positive', 'keep_end >= 1'),
    ]}},
    at_exit=[('all-covered', 'cov == n_samples')],      # "concatenate to exactly the whole data"
    hints={'replay': ('chunk_bounds', {'n': 'n_samples', 'cs': 'chunk_size', 'ov': 'overlap'})},
    statement='kept parts of successive overlapping chunks concatenate to exactly the whole data ...')

contract(A, '_excerpt_step', props=['C16'],
    params={'n_samples': 'int', 'n_excerpts': 'int', 'excerpt_size': 'int'},
    requires=[('ne>=2', 'n_excerpts >= 2'), ('es>=1', 'excerpt_size >= 1')],
    result='int',
    # what callers need for disjointness: consecutive starts are at least one excerpt apart
    ensures=[('step-at-least-excerpt-size', 'result >= excerpt_size')])

contract(A, 'excerpts', props=['C16'],
    params={'n_samples': 'int', 'n_excerpts': 'int', 'excerpt_size': 'int'},
    requires=[('n>=0', 'n_samples >= 0'), ('ne>=2', 'n_excerpts >= 2'), ('es>=1', 'excerpt_size >= 1')],
    ghost={'prev_end': '0', 'cnt': '0'},
    on_yield={'vars': ['start', 'end'],
              'requires': [('in-bounds-nonempty', '0 <= start and start < end and end <= n_samples'),
                           ('at-most-excerpt-size', 'end - start <= excerpt_size'),
                           ('disjoint-increasing', 'start >= prev_end')],
              'updates': {'prev_end': 'end', 'cnt': 'cnt + 1'}},
    loops={0: {'invariant': [('count-is-index', 'cnt == i and i >= 0 and i <= n_excerpts'),
                             ('previous-end-before-next-start', 'prev_end <= i * step'),
                             ('step', 'step >= excerpt_size')]}},
    at_exit=[('at-most-n-excerpts', 'cnt <= n_excerpts')],
    hints={'replay': ('excerpts', {'n': 'n_samples', 'ne': 'n_excerpts', 'es': 'excerpt_size'})})

from pyvc.contract import declare_class

declare_class('BaseEphysReader', T)
declare_class('FlatEphysReader', T)
declare_class('ArrayEphysReader', T)
declare_class('MtscompEphysReader', T)
# assumed field contract of mtscomp.Reader (DESIGN 2.5) — see the requires of MtscompEphysReader.iter_chunks
declare_class('MtscompReader', None, fields={'n_batches': 'int', 'batch_size': 'int', 'n_chunks': 'int', 'chunk_bounds': 'list[int]', 'pool': 'elem'})

WF_BOUNDS = [('bounds-nonempty', 'len(self.chunk_bounds) >= 2'),
             ('bounds-start-at-0', 'self.chunk_bounds[0] == 0'),
             ('bounds-strictly-increasing', 'increasing(self.chunk_bounds)')]

contract(T, 'BaseEphysReader.iter_chunks', props=['C16'],
    params={'cache': 'bool'}, fields={'chunk_bounds': 'list[int]'},
    requires=WF_BOUNDS,
    ghost={'cov': '0'},
    on_yield={'vars': ['i0', 'i1'],
              'requires': [('starts-where-previous-ended', 'i0 == cov'), ('nonempty', 'i0 < i1')],
              'updates': {'cov': 'i1'}},
    loops={0: {'idx': 'k', 'invariant': [('cov-is-kth-bound', '0 <= k and k <= len(self.chunk_bounds) - 1 and cov == self.chunk_bounds[k]')]}},
    at_exit=[('tiles-whole-recording', 'cov == self.chunk_bounds[len(self.chunk_bounds) - 1]')])

for _m in ('start_thread_pool', 'stop_thread_pool'):
    contract('<lib>', 'MtscompReader.' + _m, kind='assumed', params={'self': 'obj[MtscompReader]'}, note='effect-free for the yields (A)')
contract('<lib>', 'MtscompReader.set_cache_size', kind='assumed', params={'self': 'obj[MtscompReader]', 'n': 'int'})
contract('<lib>', 'MtscompReader.decompress_chunks', kind='assumed', params={'self': 'obj[MtscompReader]', 'chunks': 'elem', 'pool': 'elem'},
         requires=[])

contract(T, 'MtscompEphysReader.iter_chunks', props=['C16'],
    params={'cache': 'bool'}, fields={'reader': 'obj[MtscompReader]'},
    let={'cb': 'self.reader.chunk_bounds', 'nch': 'self.reader.n_chunks', 'bs': 'self.reader.batch_size', 'nb': 'self.reader.n_batches'},
    requires=[('A-mtscomp:n_chunks', 'nch == len(cb) - 1 and nch >= 1'),
              ('A-mtscomp:batch_size', 'bs >= 1'),
              ('A-mtscomp:n_batches=ceil(n_chunks/batch_size)', 'bs * (nb - 1) < nch and nch <= bs * nb'),
              ('A-mtscomp:bounds', 'cb[0] == 0 and increasing(cb)')],
    ghost={'cov': '0'},
    on_yield={'vars': ['i0', 'i1'],
              'requires': [('starts-where-previous-ended', 'i0 == cov'), ('not-inverted', 'i0 <= i1'),
                           ('on-chunk-grid', 'any(cb[y] == i1 for y in range(len(cb)))')],
              'updates': {'cov': 'i1'}},
    locals={'last_chunk': 'int', 'first_chunk': 'int'},
    loops={0: {'invariant': [('batch-range', '0 <= batch and batch <= nb'),
                             ('cov-at-last-kept-chunk', 'cov == cb[max(min(bs * batch, nch) - 1, 0)]'),
                             ('last_chunk', 'implies(batch > 0, last_chunk == min(bs * batch, nch) - 1)')],
               'lemmas': [('mul-monotone', 'implies(bs >= 1 and batch <= nb - 1, bs * batch <= bs * (nb - 1))')]}},
    at_exit=[('tiles-whole-recording', 'cov == cb[len(cb) - 1]')])

contract(T, '_get_chunk_bounds', props=['C16'], hints={'replay': ('_get_chunk_bounds', {'sizes': ('array', 'arr_sizes'), 'cs': 'chunk_size'})},
    params={'arr_sizes': 'list[int]', 'chunk_size': 'int'},
    requires=[('cs>0', 'chunk_size > 0'), ('at-least-one-file', 'len(arr_sizes) >= 1'),
              ('sizes-nonnegative', 'all(arr_sizes[k] >= 0 for k in range(len(arr_sizes)))')],
    result='list[int]',
    locals={'b': 'list[int]'},
    # stepping stone: extending b keeps every boundary found so far (the old elements stay at their indices)
    cuts=[('b.extend(ch)', 'extend-keeps-earlier-boundaries', 'all(implies(k >= 1, any(b[j] == psum(arr_sizes, m) for j in range(len(b)))) for m in range(k + 1))')],
    loops={0: {'idx': 'k', 'invariant': [
        ('n-is-prefix-sum', 'n == psum(arr_sizes, k) and n >= 0 and 0 <= k and k <= len(arr_sizes)'),
        ('b-from-0-to-n', '(k == 0 and len(b) == 0) or (len(b) >= 1 and b[0] == 0 and b[len(b) - 1] == n)'),
        ('b-increasing', 'increasing(b)'),
        ('b-gaps', 'all(b[j + 1] - b[j] <= chunk_size for j in range(len(b) - 1))'),
        ('b-contains-boundaries', 'all(implies(k >= 1, any(b[j] == psum(arr_sizes, m) for j in range(len(b)))) for m in range(k + 1))'),
    ]}},
    ensures=[('starts-at-0', 'result[0] == 0'),
             ('ends-at-sample-count', 'result[len(result) - 1] == psum(arr_sizes, len(arr_sizes))'),
             ('strictly-increasing', 'increasing(result)'),
             ('never-further-apart-than-chunk-length', 'all(result[j + 1] - result[j] <= chunk_size for j in range(len(result) - 1))'),
             ('contains-every-file-boundary', 'all(any(result[j] == psum(arr_sizes, m) for j in range(len(result))) for m in range(len(arr_sizes) + 1))')])

# data_chunk: "the with-overlap / without-overlap parts of a 4-tuple chunk, or the 2-tuple itself, select exactly data[i:j]"
_SLICE = lambda i, j: ('len(result) == max(norm_stop(%s, len(data)) - norm_start(%s, len(data)), 0) and '
                       'all(result[k] == data[norm_start(%s, len(data)) + k] for k in range(len(result)))' % (j, i, i))
contract(A, 'data_chunk', variant='pair', props=['C16'], params={'data': 'arr[int]', 'chunk': 'tuple[int,int]', 'with_overlap': 'bool'}, result='arr[int]',
    ensures=[('the-slice-between-the-two-bounds', _SLICE('chunk[0]', 'chunk[1]'))])
contract(A, 'data_chunk', variant='quad', props=['C16'], params={'data': 'arr[int]', 'chunk': 'tuple[int,int,int,int]', 'with_overlap': 'bool'}, result='arr[int]',
    ensures=[('overlapping-bounds-when-asked', 'implies(with_overlap, %s)' % _SLICE('chunk[0]', 'chunk[1]')),
             ('kept-bounds-otherwise', 'implies(not with_overlap, %s)' % _SLICE('chunk[2]', 'chunk[3]'))])
contract(A, 'data_chunk', variant='other-length', props=['C16'], params={'data': 'arr[int]', 'chunk': 'tuple[int,int,int]', 'with_overlap': 'bool'},
    raises=[('ValueError', 'True', 'iff')], ensures=[])

# get_excerpts, the branches that do not iterate: "(the whole data when it is shorter than requested)", no excerpt, one excerpt
_GE = {'data': 'arr[int]', 'n_excerpts': 'int', 'excerpt_size': 'int'}
contract(A, 'get_excerpts', variant='shorter-than-requested', props=['C16'], hints={'replay': ('get_excerpts', {'n': ('len', 'data'), 'ne': 'n_excerpts', 'es': 'excerpt_size'})}, params=_GE, result='arr[int]',
    requires=[('sizes-non-negative', 'n_excerpts >= 0 and excerpt_size >= 0'), ('data-shorter-than-requested', 'len(data) < n_excerpts * excerpt_size')],
    ensures=[('the-whole-data', 'result is data')])
contract(A, 'get_excerpts', variant='no-excerpt', props=['C16'], hints={'replay': ('get_excerpts', {'n': ('len', 'data'), 'ne': 'n_excerpts', 'es': 'excerpt_size'})}, params=_GE, result='arr[int]',
    requires=[('size-non-negative', 'excerpt_size >= 0'), ('none-requested', 'n_excerpts == 0')],
    ensures=[('nothing', 'len(result) == 0')])
contract(A, 'get_excerpts', variant='one-excerpt', props=['C16'], hints={'replay': ('get_excerpts', {'n': ('len', 'data'), 'ne': 'n_excerpts', 'es': 'excerpt_size'})}, params=_GE, result='arr[int]',
    requires=[('size-non-negative', 'excerpt_size >= 0'), ('one-requested', 'n_excerpts == 1'), ('data-long-enough', 'len(data) >= excerpt_size')],
    ensures=[('the-leading-excerpt', 'len(result) == excerpt_size and all(result[k] == data[k] for k in range(excerpt_size))')])
