"""C20 — no download is reported successful with a file failing its published checksum (DESIGN 4/C20).

Ghost world G (one download call): the target path / URL of this call, the content of the target file, the scripted server
responses still to come (script[pos:], each (ok, body)), whether the checksum URL answers, and the published checksum.
md5 is an uninterpreted function of the file content (A: _md5 computes the MD5 of the file)."""
from pyvc.contract import contract, declare_class, declare_ufunc

declare_ufunc('md5', ['elem'], 'elem')
declare_ufunc('first_token', ['elem'], 'elem')

D = 'phylib/io/datasets.py'
declare_class('World', None, fields={
    'target': 'elem', 'url': 'elem', 'exists': 'bool', 'content': 'elem',
    'script': 'list[tuple[bool,elem]]', 'pos': 'int',
    'cs_available': 'bool', 'cs_text': 'elem', 'published': 'elem'})
declare_class('Response', None, fields={'status_code': 'int', 'body': 'elem', 'text': 'elem', 'url': 'elem'})

WORLD_OK = [('script-position', '0 <= G.pos and G.pos <= len(G.script)'),
            ('checksum-url-differs-from-data-url', "G.url + '.md5' != G.url"),
            # the checksum file's first token is the published checksum, and it is a non-empty string when available
            ('published-checksum', 'implies(G.cs_available, first_token(G.cs_text) == G.published and bool(G.published))')]

# ---- assumed: HTTP, file system, hashing primitives -------------------------------------------------------------------
contract('<lib>', 'requests.get', kind='assumed', params={'u': 'elem', 'stream': 'opt[bool]'}, defaults={'stream': 'None'},
    note='scripted server: data URL consumes the next scripted response; the checksum URL answers per configuration',
    requires=[('known-url', "u == G.url or u == G.url + '.md5'")],
    raises=[('Exception', "u == G.url and G.pos >= len(G.script)", 'iff')],      # connection error when the script is exhausted
    modifies=['G.pos'], result='obj[Response]',
    ensures=["implies(u == G.url, G.pos == old(G.pos) + 1 and result.body == old(G.script)[old(G.pos)][1] and iff(result.status_code == 200, old(G.script)[old(G.pos)][0]))",
             "implies(u != G.url, G.pos == old(G.pos) and iff(result.status_code == 200, G.cs_available) and implies(G.cs_available, result.text == G.cs_text))",
             'result.url == u'])
contract('<lib>', 'elem.raise_for_status', kind='assumed', params={'self': 'obj[Response]'},
    note='A: a non-200 response of the mock is a 4xx/5xx: raise_for_status raises', raises=[('HTTPError', 'self.status_code != 200', 'iff')])
contract('<lib>', 'Response.raise_for_status', kind='assumed', params={'self': 'obj[Response]'},
    raises=[('HTTPError', 'self.status_code != 200', 'iff')])
contract('<lib>', 'pathlib.Path', kind='assumed', params={'p': 'elem'}, result='elem', ensures=['result == p'])
contract('<lib>', 'elem.exists', kind='assumed', params={'self': 'elem'}, requires=[('is-the-target', 'self == G.target')],
    result='bool', ensures=['result == G.exists'])
contract('<lib>', 'elem.split', kind='assumed', params={'self': 'elem', 'sep': 'elem'}, result='list[elem]',
    ensures=['len(result) >= 1', 'result[0] == first_token(self)'])
contract(D, '_md5', kind='assumed', params={'path': 'elem', 'blocksize': 'int'}, defaults={'blocksize': '0'},
    requires=[('file-exists', 'path == G.target and G.exists')], result='elem', ensures=['result == md5(G.content)'],
    note='A: _md5 is the MD5 of the file content')
contract(D, '_save_stream', kind='assumed', params={'r': 'obj[Response]', 'path': 'elem'},
    requires=[('writes-the-target', 'path == G.target'), ('ok-response', 'r.status_code == 200')],
    modifies=['G.content', 'G.exists'], ensures=['G.exists', 'G.content == r.body'],
    note='A: the streamed body replaces the file content')

# ---- code under contract ---------------------------------------------------------------------------------------------
contract(D, '_download', props=['C20'], params={'url': 'elem', 'stream': 'opt[bool]'}, defaults={'stream': 'None'},
    requires=WORLD_OK + [('known-url', "url == G.url or url == G.url + '.md5'")],
    raises=[('HTTPError', "(url == G.url and G.pos < len(G.script) and not G.script[G.pos][0]) or (url != G.url and not G.cs_available)", 'iff'),
            ('Exception', "url == G.url and G.pos >= len(G.script)", 'iff')],
    modifies=['G.pos'], result='obj[Response]',
    # "_download raises on non-200": a returned response is a 200
    ensures=[('returned-response-is-200', 'result.status_code == 200'),
             ('data-request-consumes-one-scripted-response', "implies(url == G.url, G.pos == old(G.pos) + 1 and result.body == old(G.script)[old(G.pos)][1])"),
             ('checksum-request-consumes-nothing', "implies(url != G.url, G.pos == old(G.pos) and result.text == G.cs_text)")])

contract(D, 'download_text_file', props=['C20'], params={'url': 'elem'},
    requires=WORLD_OK + [('checksum-url', "url == G.url + '.md5'")],
    raises=[('HTTPError', 'not G.cs_available', 'iff')], result='elem',
    ensures=[('text-of-the-checksum-file', 'result == G.cs_text'), ('no-data-request', 'G.pos == old(G.pos)')])

contract(D, '_check_md5', props=['C20'], params={'path': 'elem', 'checksum': 'elem'},
    requires=[('file-exists', 'path == G.target and G.exists')], result='opt[bool]',
    ensures=[('none-iff-no-checksum', 'iff(result is None, not bool(checksum))'),
             ('compares-md5-of-file', 'implies(bool(checksum), result == (md5(G.content) == checksum))')])

contract(D, '_check_md5_of_url', props=['C20'], params={'output_path': 'elem', 'url': 'elem'},
    requires=WORLD_OK + [('this-call', 'output_path == G.target and url == G.url and G.exists')], result='opt[bool]',
    # tri-state: True/False when the checksum is available, None when it is not; never an exception; no data request
    ensures=[('none-iff-checksum-unavailable', 'iff(result is None, not G.cs_available)'),
             ('verdict-is-md5-equality', 'implies(G.cs_available, result == (md5(G.content) == G.published))'),
             ('no-data-request-no-write', 'G.pos == old(G.pos) and G.content == old(G.content)')])

_VALID0 = 'old(G.exists) and G.cs_available and md5(old(G.content)) == G.published'
_GOOD = lambda i: 'md5(G.script[%s][1]) == G.published' % i
_P0 = 'old(G.pos)'
contract(D, 'download_file', props=['C20'], params={'url': 'elem', 'output_path': 'elem'}, modifies=['G.pos', 'G.exists', 'G.content'],
    requires=WORLD_OK + [('this-call', 'output_path == G.target and url == G.url')],
    result='opt[elem]',
    raises=[
        # "an HTTP error raises instead of returning" (the first data request always happens unless the existing file is valid; the second only after a mismatch)
        ('HTTPError', 'not (%s) and ((G.pos < len(G.script) and not G.script[G.pos][0]) or (G.cs_available and G.pos + 1 < len(G.script) and G.script[G.pos][0] and not (%s) and not G.script[G.pos + 1][0]))' % (_VALID0.replace('old(G.exists)', 'G.exists').replace('old(G.content)', 'G.content'), _GOOD('G.pos')), 'iff'),
        # "a persistent mismatch raises instead of returning"
        ('RuntimeError', 'not (%s) and G.cs_available and G.pos + 1 < len(G.script) and G.script[G.pos][0] and G.script[G.pos + 1][0] and not (%s) and not (%s)' % (_VALID0.replace('old(G.exists)', 'G.exists').replace('old(G.content)', 'G.content'), _GOOD('G.pos'), _GOOD('G.pos + 1')), 'iff'),
        ('Exception', 'not (%s) and (G.pos >= len(G.script) or (G.cs_available and G.script[G.pos][0] and not (%s) and G.pos + 1 >= len(G.script)))' % (_VALID0.replace('old(G.exists)', 'G.exists').replace('old(G.content)', 'G.content'), _GOOD('G.pos')), 'iff'),
    ],
    ensures=[
        # "a download call that returns normally while the checksum is available leaves a file whose MD5 equals the published one"
        ('returned-with-checksum-available-means-file-matches', 'implies(G.cs_available, G.exists and md5(G.content) == G.published)'),
        # "a valid existing file is not downloaded again"
        ('valid-existing-file-not-downloaded-again', 'implies(%s, G.pos == %s and G.content == old(G.content))' % (_VALID0, _P0)),
        # "a mismatch triggers exactly one retry"
        ('exactly-one-retry-on-mismatch', 'implies(not (%s), G.pos == %s + ite(G.cs_available and not (%s), 2, 1))' % (_VALID0, _P0, _GOOD(_P0))),
    ])
