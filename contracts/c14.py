"""C14 — exported ALF values equal the physical quantities they name (DESIGN 4/C14): index plumbing of the raw channel indices."""
from pyvc.contract import contract, declare_class, declare_ufunc

L = 'phylib/io/alf.py'
declare_ufunc('pmax', ['int'], 'int')      # pmax(q): the largest (merged) channel-map entry among the channels of probe q
declare_class('ModelView', None, fields={'channel_probes': 'arr[int]', 'channel_mapping': 'arr[int]'})
declare_class('EphysAlfCreator', L, fields={'model': 'obj[ModelView]', 'dir_path': 'elem', 'out_path': 'elem'})
contract('<lib>', 'EphysAlfCreator._save_npy', kind='assumed', params={'self': 'obj[EphysAlfCreator]', 'filename': 'elem', 'arr': 'arr[int]'},
    note='np.save(self.out_path / filename, arr): effect only (frame contract of C13)')

_P, _MAP = 'self.model.channel_probes', 'self.model.channel_mapping'
contract(L, 'EphysAlfCreator.make_channel_objects', props=['C14'], params={}, fields={'model': 'obj[ModelView]', 'dir_path': 'elem', 'out_path': 'elem'},
    requires=[('one-map-entry-per-channel', 'len(%s) == len(%s)' % (_MAP, _P)),
              # definition of pmax (the shift the Merger applied to the NEXT probe is the maximum of this probe's shifted map)
              ('pmax-bounds-the-probe', 'all(%s[c] <= pmax(%s[c]) for c in range(len(%s)))' % (_MAP, _P, _P)),
              ('pmax-is-attained', 'all(any(%s[d] == %s[c] and %s[d] == pmax(%s[c]) for d in range(len(%s))) for c in range(len(%s)))' % (_P, _P, _MAP, _P, _P, _P))],
    locals={'rawInd': 'arr[int]'},
    loops={0: {'idx': 'k', 'seq': 'probes', 'invariant': [
        ('offset-is-previous-probe-maximum', '0 <= k and k <= len(probes) and channel_offset == ite(k == 0, 0, pmax(probes[k - 1]))'),
        ('length', 'len(rawInd) == len(%s)' % _P),
        ('probes-done-so-far-are-re-expressed', 'all(implies(any(probes[q] == %s[c] for q in range(k)), '
         'any(probes[q] == %s[c] and rawInd[c] == %s[c] - ite(q == 0, 0, pmax(probes[q - 1])) for q in range(k))) for c in range(len(%s)))' % (_P, _P, _MAP, _P))]}},
    # from the statement: "raw channel indices are re-expressed per probe so that a merged dataset exports each probe's original channel map, for any
    # number of probes": channel c of the q-th probe (in increasing probe order) gets its merged map entry minus the shift of that probe
    ensures=[('every-channel-re-expressed-relative-to-its-probe-shift',
              'all(any(probes[q] == %s[c] and rawInd[c] == %s[c] - ite(q == 0, 0, pmax(probes[q - 1])) for q in range(len(probes))) for c in range(len(%s)))' % (_P, _MAP, _P))])
