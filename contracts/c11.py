"""C11 — merging probes conserves every spike and renumbers ids disjointly (DESIGN 4/C11)."""
from pyvc.contract import contract, declare_class
import contracts.c12 as _c12  # noqa (shares _concat)

G_ = 'phylib/io/merge.py'

contract(G_, '_load_multiple_spike_times', props=['C11'], params={}, varargs='spike_times_l', cases=[{'spike_times_l': 'rag[int]'}],
    requires=[('at-least-one-probe', 'len(spike_times_l) >= 1')], result='tuple[arr[int],arr[int]]',
    let={'n': 'rpsum(spike_times_l, len(spike_times_l))'},
    # from the statement: each input spike exactly once (the order is a permutation of the concatenation), non-decreasing time, original order kept within
    # a probe and simultaneous spikes of different probes ordered by probe (= concatenation order among equal times)
    ensures=[('one-output-per-input-spike', 'len(result[0]) == n and len(result[1]) == n'),
             ('order-is-a-permutation-of-the-concatenation', 'all(0 <= result[1][i] and result[1][i] < n for i in range(n)) and all(result[1][i] != result[1][j] for i in range(n) for j in range(i + 1, n))'),
             ('times-non-decreasing', 'all(result[0][i] <= result[0][j] for i in range(n) for j in range(i + 1, n))'),
             ('simultaneous-spikes-keep-concatenation-order', 'all(implies(result[0][i] == result[0][j], result[1][i] < result[1][j]) for i in range(n) for j in range(i + 1, n))')])

contract(G_, '_load_multiple_spike_arrays', props=['C11'], params={'spike_order': 'arr[int]'}, varargs='spike_array_l', cases=[{'spike_array_l': 'rag[int]'}],
    let={'n': 'rpsum(spike_array_l, len(spike_array_l))'},
    requires=[('at-least-one-probe', 'len(spike_array_l) >= 1'), ('order-is-given', 'spike_order is not None'),
              ('order-indexes-the-concatenation', 'len(spike_order) == n and all(0 <= spike_order[i] and spike_order[i] < n for i in range(n))')],
    result='arr[int]',
    # "the same permutation is reused for every per-spike array": output i is the element of the concatenation at position spike_order[i]
    ensures=[('same-length', 'len(result) == n'),
             ('every-output-comes-from-some-probe-block', 'all(any(rpsum(spike_array_l, p) <= spike_order[i] and spike_order[i] < rpsum(spike_array_l, p + 1) for p in range(len(spike_array_l))) for i in range(n))'),
             ('element-of-the-probe-block-it-came-from', 'all(implies(rpsum(spike_array_l, p) <= spike_order[i] and spike_order[i] < rpsum(spike_array_l, p + 1), '
              'result[i] == spike_array_l[p][spike_order[i] - rpsum(spike_array_l, p)]) for i in range(n) for p in range(len(spike_array_l)))')])

declare_class('World', None, fields={'spike_clusters': 'rag[int]', 'spike_templates': 'rag[int]'})
declare_class('Merger', G_, fields={'subdirs': 'list[elem]', 'out_dir': 'elem', 'cluster_offsets': 'list[int]', 'template_offsets': 'list[int]', 'spike_order': 'arr[int]'})
contract(G_, '_load_multiple_files', variant='spike_clusters', kind='assumed', params={'fn': 'elem', 'subdirs': 'list[elem]'},
    requires=[('file-name', "fn == 'spike_clusters.npy'")], result='rag[int]', ensures=['same_rows(result, G.spike_clusters)', 'len(result) == len(subdirs)'])
contract(G_, '_load_multiple_files', variant='spike_templates', kind='assumed', params={'fn': 'elem', 'subdirs': 'list[elem]'},
    requires=[('file-name', "fn == 'spike_templates.npy'")], result='rag[int]', ensures=['same_rows(result, G.spike_templates)', 'len(result) == len(subdirs)'])
contract(G_, 'Merger._save', kind='assumed', params={'self': 'obj[Merger]', 'name': 'elem', 'arr': 'arr[int]'})

_SC, _ST = 'G.spike_clusters', 'G.spike_templates'
_N = 'rpsum(%s, len(%s))' % (_SC, _SC)
contract(G_, 'Merger.write_spike_clusters', props=['C11'], params={},
    fields={'subdirs': 'list[elem]', 'out_dir': 'elem', 'cluster_offsets': 'list[int]', 'template_offsets': 'list[int]', 'spike_order': 'arr[int]'},
    modifies=['self.cluster_offsets', 'self.template_offsets'],
    requires=[('one-file-per-probe', 'len(%s) == len(self.subdirs) and len(%s) == len(self.subdirs) and len(self.subdirs) >= 1' % (_SC, _ST)),
              ('same-spikes-in-both-files', 'same_lengths(%s, %s)' % (_SC, _ST)),
              ('every-probe-has-a-spike', 'all(len(%s[p]) >= 1 for p in range(len(%s)))' % (_SC, _SC)),
              ('ids-are-non-negative', 'all(%s[p][i] >= 0 and %s[p][i] >= 0 for p in range(len(%s)) for i in range(len(%s[p])))' % (_SC, _ST, _SC, _SC)),
              ('order-indexes-the-concatenation', 'len(self.spike_order) == %s and all(0 <= self.spike_order[i] and self.spike_order[i] < %s for i in range(%s))' % (_N, _N, _N)),
              ('order-reaches-every-spike', 'all(any(self.spike_order[i] == rpsum(%s, p) + j for i in range(%s)) for p in range(len(%s)) for j in range(len(%s[p])))' % (_SC, _N, _SC, _SC))],
    locals={'cluster_probes_l': 'rag[int]', 'spike_clusters_l': 'rag[int]', 'spike_templates_l': 'rag[int]'},
    cuts=[('for i, (subdir, sc, st) in enumerate(', 'all-shifted-ids-below-the-total', 'all(0 <= spike_clusters_l[p][i] and spike_clusters_l[p][i] < coffset for p in range(len(spike_clusters_l)) for i in range(len(spike_clusters_l[p])))'),
          ('cluster_probes = _concat', 'probe-table-size', 'len(cluster_probes) == coffset'),
          ('spike_clusters = _load_multiple_spike_arrays', 'the-largest-shifted-id-is-in-the-last-probe', 'any(spike_clusters_l[len(spike_clusters_l) - 1][i] == coffset - 1 for i in range(len(spike_clusters_l[len(spike_clusters_l) - 1])))'),
          ('spike_clusters = _load_multiple_spike_arrays', 'merged-ids-below-the-total', 'all(spike_clusters[i] < coffset for i in range(len(spike_clusters)))'),
          ('spike_clusters = _load_multiple_spike_arrays', 'the-largest-merged-id-is-attained', 'any(spike_clusters[i] == coffset - 1 for i in range(len(spike_clusters)))')],
    using={'the-largest-shifted-id-is-in-the-last-probe': ['largest-id-so-far-is-attained', 'done-probes-shifted', 'counts', 'lengths-kept', 'one-file-per-probe'],
           'merged-ids-below-the-total': ['all-shifted-ids-below-the-total', '_load_multiple_spike_arrays.same-length',
                                          '_load_multiple_spike_arrays.every-output-comes-from-some-probe-block', '_load_multiple_spike_arrays.element-of-the-probe-block-it-came-from', 'theory:rpsum'],
           'the-largest-merged-id-is-attained': ['the-largest-shifted-id-is-in-the-last-probe', 'order-reaches-every-spike', 'lengths-kept', 'counts', 'one-file-per-probe', 'order-indexes-the-concatenation',
                                                 '_load_multiple_spike_arrays.same-length', '_load_multiple_spike_arrays.element-of-the-probe-block-it-came-from'],
           'code-assert': ['merged-ids-below-the-total', 'the-largest-merged-id-is-attained', 'probe-table-size', 'theory:np.max']},
    # the code's own consistency assert (np.max(spike_clusters) + 1 == cluster_probes.size) is proved, not assumed: it needs "the largest merged id is attained",
    # i.e. that the spike order reaches every spike (requires order-reaches-every-spike: spike_order is onto, which _load_multiple_spike_times ensures)
    loops={0: {'idx': 'k', 'invariant': [
        ('counts', '0 <= k and k <= len(%s) and len(self.cluster_offsets) == k and len(self.template_offsets) == k and len(cluster_probes_l) == k and coffset >= 0 and toffset >= 0' % _SC),
        ('lengths-kept', 'same_lengths(spike_clusters_l, %s) and same_lengths(spike_templates_l, %s)' % (_SC, _ST)),
        ('done-probes-shifted', 'all(spike_clusters_l[p][i] == %s[p][i] + self.cluster_offsets[p] and spike_templates_l[p][i] == %s[p][i] + self.template_offsets[p] for p in range(k) for i in range(len(%s[p])))' % (_SC, _ST, _SC)),
        ('other-probes-untouched', 'all(spike_clusters_l[p][i] == %s[p][i] and spike_templates_l[p][i] == %s[p][i] for p in range(k, len(%s)) for i in range(len(%s[p])))' % (_SC, _ST, _SC, _SC)),
        ('id-ranges-of-done-probes-lie-below-the-next-offset', 'all(0 <= self.cluster_offsets[p] and %s[p][i] + self.cluster_offsets[p] < ite(p + 1 < k, self.cluster_offsets[p + 1], coffset) and '
         '0 <= self.template_offsets[p] and %s[p][i] + self.template_offsets[p] < ite(p + 1 < k, self.template_offsets[p + 1], toffset) for p in range(k) for i in range(len(%s[p])))' % (_SC, _ST, _SC)),
        ('probe-table-has-one-entry-per-id-so-far', 'rpsum(cluster_probes_l, k) == coffset'),
        ('largest-id-so-far-is-attained', 'implies(k >= 1, any(%s[k - 1][i] + self.cluster_offsets[k - 1] == coffset - 1 for i in range(len(%s[k - 1]))))' % (_SC, _SC)),
        ('offsets-increase', 'all(self.cluster_offsets[p] <= self.cluster_offsets[q] and self.template_offsets[p] <= self.template_offsets[q] for p in range(k) for q in range(p + 1, k)) and '
         'all(self.cluster_offsets[p] <= coffset and self.template_offsets[p] <= toffset for p in range(k))')]}},
    # from the statement: "its cluster and template ids are shifted by a per-probe offset so that ids of different probes never collide"
    ensures=[('one-offset-per-probe', 'len(self.cluster_offsets) == len(%s) and len(self.template_offsets) == len(%s)' % (_SC, _SC)),
             ('cluster-ids-of-different-probes-never-collide', 'all(%s[p][i] + self.cluster_offsets[p] < self.cluster_offsets[q] for p in range(len(%s)) for q in range(p + 1, len(%s)) for i in range(len(%s[p])))' % (_SC, _SC, _SC, _SC)),
             ('template-ids-of-different-probes-never-collide', 'all(%s[p][i] + self.template_offsets[p] < self.template_offsets[q] for p in range(len(%s)) for q in range(p + 1, len(%s)) for i in range(len(%s[p])))' % (_ST, _SC, _SC, _SC))])
