"""C03 — every route to a spike waveform yields the same zero-padded raw window (DESIGN 4/C03).

Rows of the recording are opaque values.  wrow(ch, row) = the row restricted to the listed channels with the -1 entries zeroed
= op_row('zero_cols', mask_eq(ch, -1), op_row('cols', ch, row)); zero_row(n) = an all-zero row of n columns.  The numeric meaning of
those two row-wise operations is validated by the bounded stand-in; the WINDOW ARITHMETIC (which rows, where the padding goes, how many
rows) is what is proved here for every sample position, window length and recording length."""
from pyvc.contract import contract, declare_class, declare_ufunc
import contracts.c01 as _c01  # noqa: the reader's __getitem__ contract (C01) is what _extract_waveform is verified against
from contracts.c02 import FIELDS
from contracts.c01 import AWF

T = 'phylib/io/traces.py'
declare_ufunc('zero_row', ['int'], 'elem')
declare_ufunc('mask_eq', ['elem', 'int'], 'elem')
declare_ufunc('elem_len', ['elem'], 'int')

_ROW = "op_row('zero_cols', mask_eq(channel_ids, -1), op_row('cols', channel_ids, ops_fold(traces._ops, len(traces._ops), traces.rows[%s])))"

contract(T, '_extract_waveform', props=['C03'],
    params={'traces': 'obj[BaseEphysReader]', 'sample': 'int', 'channel_ids': 'elem', 'n_samples_waveforms': 'int'},
    kinds={'channel_ids': 'ndarray'},
    let={'dur': 'len(traces.rows)', 'nsw': 'n_samples_waveforms', 't0': 'sample - n_samples_waveforms // 2'},
    requires=[(l, e.replace('self.', 'traces.')) for l, e in AWF] + [
        ('two-dimensional', 'traces.ndim == 2'), ('a-channel-list-is-given', 'channel_ids is not None'),
        ('spike-inside-the-recording', '0 <= sample and sample < dur'),
        ('window-length-positive', 'nsw >= 1')],
    result='arr[elem]',
    # from the statement: "rows [s - n//2, s - n//2 + n) of the recording on those channels, with zeros for rows outside the recording"
    ensures=[('n-rows', 'len(result) == nsw'),
             ('rows-inside-the-recording-are-the-recording-rows-on-the-listed-channels',
              'all(implies(0 <= t0 + k and t0 + k < dur, result[k] == %s) for k in range(nsw))' % (_ROW % 't0 + k')),
             ('rows-outside-the-recording-are-zero',
              'all(implies(t0 + k < 0 or t0 + k >= dur, result[k] == zero_row(elem_len(channel_ids))) for k in range(nsw))')])

# extract_waveforms: "direct extraction ... return exactly this window for every spike" (block i of the result is the window of spike i)
_ROWS = "op_row('zero_cols', mask_eq(channel_ids, -1), op_row('cols', channel_ids, ops_fold(traces._ops, len(traces._ops), traces.rows[%s])))"
XF = dict(FIELDS, dtype='elem')
declare_class('BaseEphysReader', T, fields={'dtype': 'elem'})
contract(T, 'extract_waveforms', props=['C03'],
    params={'traces': 'obj[BaseEphysReader]', 'spike_samples': 'arr[int]', 'channel_ids': 'elem', 'n_samples_waveforms': 'int'}, kinds={'channel_ids': 'ndarray'},
    let={'dur': 'len(traces.rows)', 'nsw': 'n_samples_waveforms', 'a': 'n_samples_waveforms // 2'},
    requires=[(l, e.replace('self.', 'traces.')) for l, e in AWF] + [
        ('two-dimensional', 'traces.ndim == 2'), ('a-channel-list-is-given', 'channel_ids is not None'),
        ('spikes-inside-the-recording', 'all(0 <= spike_samples[i] and spike_samples[i] < dur for i in range(len(spike_samples)))'),
        ('window-length-positive', 'nsw >= 1')],
    result='cube[elem]',
    loops={0: {'idx': 'i', 'invariant': [
        ('shape', '0 <= i and i <= len(spike_samples) and len(out) == len(spike_samples) and width(out) == nsw'),
        ('windows-so-far', 'all(all(implies(0 <= spike_samples[q] - a + k and spike_samples[q] - a + k < dur, out[q][k] == %s) and implies(spike_samples[q] - a + k < 0 or spike_samples[q] - a + k >= dur, out[q][k] == zero_row(elem_len(channel_ids))) for k in range(nsw)) for q in range(i))' % (_ROWS % 'spike_samples[q] - a + k'))]}},
    ensures=[('one-window-per-spike', 'len(result) == len(spike_samples) and width(result) == nsw'),
             ('window-rows-inside-the-recording', 'all(all(implies(0 <= spike_samples[q] - a + k and spike_samples[q] - a + k < dur, result[q][k] == %s) for k in range(nsw)) for q in range(len(spike_samples)))' % (_ROWS % 'spike_samples[q] - a + k')),
             ('window-rows-outside-the-recording-are-zero', 'all(all(implies(spike_samples[q] - a + k < 0 or spike_samples[q] - a + k >= dur, result[q][k] == zero_row(elem_len(channel_ids))) for k in range(nsw)) for q in range(len(spike_samples)))')])

# iter_waveforms: "chunk-by-chunk ... return exactly this window for every spike, whatever ... the chunking of the recording": every yielded
# batch holds, in order, one window per spike whose sample lies in the chunk; chunks come in order (ghost cov), no spike of a chunk is skipped.
import contracts.c16 as _c16  # noqa: the proved contract of BaseEphysReader.iter_chunks (its yield monitor is what the loop below consumes)
_WROW = "op_row('zero_cols', mask_eq(%s, -1), op_row('cols', %s, ops_fold(traces._ops, len(traces._ops), traces.rows[%s])))"
_WIN = lambda blk, smp, chs: ('all(implies(0 <= %s - a + k and %s - a + k < dur, %s[k] == %s) and implies(%s - a + k < 0 or %s - a + k >= dur, %s[k] == zero_row(elem_len(%s))) for k in range(nsw))'
                              % (smp, smp, blk, _WROW % (chs, chs, '%s - a + k' % smp), smp, smp, blk, chs))
contract(T, 'iter_waveforms', props=['C03'],
    params={'traces': 'obj[BaseEphysReader]', 'spike_samples': 'arr[int]', 'spike_channels': 'block[elem]', 'n_samples_waveforms': 'int', 'cache': 'bool'},
    let={'dur': 'len(traces.rows)', 'nsw': 'n_samples_waveforms', 'a': 'n_samples_waveforms // 2'},
    requires=[(l, e.replace('self.', 'traces.')) for l, e in AWF] + [
        ('two-dimensional', 'traces.ndim == 2'),
        ('chunk-bounds-nonempty', 'len(traces.chunk_bounds) >= 2 and traces.chunk_bounds[0] == 0 and increasing(traces.chunk_bounds)'),
        ('one-channel-list-per-spike', 'len(spike_channels) == len(spike_samples) and all(spike_channels[s] is not None for s in range(len(spike_channels)))'),
        ('spikes-inside-the-recording', 'all(0 <= spike_samples[s] and spike_samples[s] < dur for s in range(len(spike_samples)))'),
        ('window-length-positive', 'nsw >= 1')],
    ghost={'cov': '0'},
    on_yield={'vars': ['waveforms'],
              'requires': [('chunks-come-in-order', 'cov <= i0 and i0 < i1'),
                           ('one-window-per-spike-of-the-chunk', 'len(waveforms) == len(SS) and len(SS) >= 1 and width(waveforms) == nsw and len(sc) == len(SS)'),
                           ('batch-spikes-lie-in-the-chunk-and-are-input-spikes', 'all(i0 <= SS[j] and SS[j] < i1 and any(spike_samples[s] == SS[j] and spike_channels[s] == sc[j] for s in range(len(spike_samples))) for j in range(len(SS)))'),
                           ('no-spike-of-the-chunk-is-skipped', 'all(implies(i0 <= spike_samples[s] and spike_samples[s] < i1, any(SS[j] == spike_samples[s] and sc[j] == spike_channels[s] for j in range(len(SS)))) for s in range(len(spike_samples)))'),
                           ('block-j-is-the-window-of-batch-spike-j', 'all(%s for j in range(len(SS)))' % _WIN('waveforms[j]', 'SS[j]', 'sc[j]'))],
              'updates': {'cov': 'i1'}},
    loops={0: {'idx': 'c', 'seq': 'CH', 'invariant': [('chunks-so-far', '0 <= c and c <= len(CH) and implies(c >= 1, cov <= CH[c - 1][1]) and implies(c == 0, cov == 0)'),
                                                    ('next-chunk-starts-after-cov', 'implies(c < len(CH), cov <= CH[c][0])')]},
           1: {'idx': 'i', 'seq': 'SS', 'invariant': [
               ('shape', '0 <= i and i <= len(SS) and len(waveforms) == len(SS) and width(waveforms) == nsw'),
               ('windows-so-far', 'all(%s for q in range(i))' % _WIN('waveforms[q]', 'SS[q]', 'sc[q]'))]}})
