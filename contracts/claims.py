"""What each check claims (level, what is PROVED vs BOUNDED, what is assumed).  Merged into META by contracts/meta.py."""

FRAME_TECH = ('contract-based verification: frame/effect contracts checked by a syntactic effects walker over the real call graph (every reachable call '
              'classified; no SMT) + bounded contract evaluation on real directories as labelled stand-in')
FRAME_NOTE = ('Assumed: the pure-call list of pyvc/effects.py (A-PURE), distinct path expressions name distinct files and no links are created (A-FS), params.py is data, '
              'reader dispatch table. The frame checker bounds WHICH files can be written, not their content.')

CLAIMS = {
    'C01': dict(level='proof',
        text='PROVED for all part layouts / bounds / indices (VCs from the real source, z3): _find_chunks (over the assumed searchsorted contract); _get_subitems for integer, unit-step slice '
             '(8 None/int combinations, stops beyond the end clipped) and (slice, cols) tuple indices: the pieces are consecutive, non-empty, in-range slices of consecutive parts tiling exactly [S,E); '
             'BaseEphysReader.__getitem__ for int / slice / (slice, cols) / (int, cols) / (:, cols): the returned rows are rows S..E of the concatenation with the deferred operators and the column '
             'selector applied, no exception; n_samples / shape / n_parts / n_chunks / duration equal those of the concatenation; _get_subitems for an increasing index list/array: one piece per part touched, parts '
             'in increasing order, each piece the increasing in-part offsets of exactly the requested rows of that part (none lost, none invented); __getitem__ with an increasing index array, alone or followed by a '
             'channel selector: as many rows as requested, row r is row item[r] of the concatenation with the deferred operators (and the selector) applied - via a ghost trace of the rows read through the backend and the '
             'Lean-checked lemma L1 (increasing with the same members = equal); _get_part_bounds (0 followed by the running totals of the files\' row counts). BOUNDED only (not proved): unsorted / repeated / negative index lists, constructors and dispatch, '
             'real backends (flat/npy/array/cbin files, dtypes, header offsets) against np.concatenate.',
        note='Assumed: np.searchsorted contract; backends _get_part return the rows of their part (validated by the bounded stand-in on real files); rows are opaque values and operators act row-wise '
             '(NumPy facts E1-E3); np.vstack = concatenation of blocks; Python subset semantics; generic fold prefix lemma.',
        assumptions=['A-LIB np.searchsorted(side=right) contract', 'A-LIB backend _get_part contract (memmap / np.load / in-memory / mtscomp)', 'A-LIB np.vstack of row blocks is their concatenation']),
    'C02': dict(level='proof',
        text='PROVED for all readers / operator lists / scalars: _append_op returns a fresh reader with its own ops list = parent ops + this op, parent unchanged, every other field shared; each of the 14 '
             'operator dunders defers exactly the operator the Python data model names (table taken from the statement); _apply_op dispatch; _apply_ops is the left fold of the deferred operators in order; '
             'reader[:, cols] defers the column selection and reads nothing. Hence indexing a derived reader equals applying the operators row-wise to the parent rows. BOUNDED only: the NumPy facts '
             'that dunders/column selection are row-wise and dtype-stable; all operator programs of depth <= 3 on real backends against eager NumPy; derivation trees.',
        note='Assumed: ndarray.__op__ and arr[:, cols] act row-wise (E1-E3, bounded-tested); prefix-determinacy of the fold for Store-built lists (generic fold lemma, not machine-checked); copy.copy is a shallow copy.',
        assumptions=['A-LIB ndarray dunders and column selection are row-wise (E1-E3)', 'A-LEAN generic fold prefix lemma (L6) assumed, not machine-checked']),
    'C03': dict(level='proof',
        text='PROVED for every sample position, window length, recording length and part layout: _extract_waveform returns exactly n rows; row k is recording row s - n//2 + k (read through the reader '
             'contract of C01, deferred operators applied) restricted to the listed channels with the -1 entries zeroed when that row exists, and an all-zero row otherwise (padding on the correct side, also '
             'when the window overhangs both ends); extract_waveforms for any number of spikes: block i of the result is exactly that window for spike i (loop invariant over the rank-3 output). '
             'iter_waveforms over the proved yield monitor of the reader\'s iter_chunks (generator summary): chunks are visited in order, every yielded batch holds exactly one window per input spike whose '
             'sample lies in the chunk (none skipped, none from elsewhere), block j being the window of batch spike j with that spike\'s channel list. '
             'BOUNDED only: that every spike ends up in some batch and the global spike order of the export, NpyWriter / export_waveforms (declared dtype vs bytes, unit factor), the subset-store '
             'lookup and TemplateModel.get_waveforms, on real files incl. .cbin and all sample dtypes.',
        note='Assumed: rows are opaque and the channel restriction / -1 zeroing are row-wise NumPy operations (numeric meaning validated by the bounded stand-in); np.zeros / np.vstack on row blocks; reader __getitem__ per its C01 contract.',
        assumptions=['A-LIB row-wise channel selection and masked zeroing', 'A-LIB np.zeros / np.vstack of row blocks']),
    'C04': dict(level='proof', technique=FRAME_TECH, note=FRAME_NOTE,
        text='PROVED for all inputs and configurations (frame contract over the whole phylib call graph reachable from load_model: ~60 functions, ~400 call sites, every call classified): loading writes nothing '
             'except dir/spike_clusters.npy when the cluster file is missing and dir/whitening_mat_inv.npy when its file is missing; no store through a writable memory map; no link creation. BOUNDED only: '
             'equality of every loaded attribute with the files (defaults, squeezing, NaN/inf scrub, KS/ALF names), rejection of non-monotonic times, byte-identity of pre-existing files, over ~800 generated directories.'),
    'C05': dict(level='proof',
        text='PROVED for all templates (per-channel extremes), geometries, shank tables, neighbourhood sizes and thresholds in [0,1]: get_closest_channels (the channel itself first, distinct, nearest first, '
             'listed are no farther than unlisted, at most n) and _find_best_channels clauses (a) distinct, (b) decreasing peak-to-peak amplitude, (c) peak channel attains the maximum, is listed, first listed '
             'attains it, (d) amplitude j is that of channel j, (e) listed channels are exactly the near ones on the peak shank reaching the threshold — about 100 obligations incl. 13 stepping-stone hints. '
             '_get_template_dense (the record plumbing, automatic and explicit channel lists, with and without unwhitening): one waveform column and one amplitude per listed channel, amplitude j is the '
             'peak-to-peak of column j of the RETURNED waveform, an explicit list is returned as given, the automatic list is non-empty, distinct, in range, lists the peak channel and has decreasing amplitudes. '
             '_get_template_sparse over the rank-2 theory with uninterpreted stored values: the listed channels are exactly the stored ones that are used (not -1) and carry signal (largest magnitude above 1e-6 of the '
             'template maximum), amplitudes decrease, amplitude j bounds every difference of two samples of returned column j and is attained there, the peak channel is listed with the largest amplitude, and a whitened '
             'request returns the stored columns themselves; get_template takes the sparse route exactly when a column table exists and otherwise the dense route with all arguments forwarded (each '
             'variant re-proves the postcondition of its route); the model queries get_cluster_spikes / get_template_spikes are listed under C07. BOUNDED only: the numeric content of unwhitening/casts, accessors, templates without any signal (known finding), on exhaustive small templates and loaded datasets.',
        note='Assumed: the 1-D NumPy theory of pyvc/npth.py (argsort, argmax, nonzero, intersect1d, gather, comparisons); squares abstracted by sq(t)>=0 and sq(t)=0 iff t=0; products of two reals by sign/scaling facts; '
             'no NaN in templates; pairwise distinct channel positions; "near" is DEFINED as membership in the result of get_closest_channels (A-DEF); a 2-D template is seen through its per-channel '
             'extremes: templates[i, ...], _unwhiten and astype return a template of the same width (values unspecified), t[:, ids] permutes the extremes, Bunch(**kw) is a record of the given values.',
        assumptions=['A-LIB 1-D NumPy array theory (pyvc/npth.py)', 'A-REAL floats as reals, no NaN']),
    'C06': dict(level='proof',
        text='PROVED for all inputs of rank 2 and rank 3 (any number of spikes, stored columns, requested channels, any trailing length): from_sparse returns one row per spike and one column per requested channel, holding at '
             '(spike, channel) a stored value whose column index names that channel and zero where the channel is not stored, raises NotImplementedError exactly for repeated requested channels, and never indexes out of '
             'range (the order of the request is irrelevant: the clause is per requested position); get_features and get_template_features for every storage layout (with/without a spike-id row table, with/without a column '
             'table, requested spikes in any order): the value at (spike, channel/template) of a stored requested spike is the stored value of THE stored row of that spike in the column naming that channel, else zero. '
             'BOUNDED only: the PCA fallback from extracted waveforms, more than one trailing dimension, what unstored requested spikes get (get_template_features: known finding), real files.',
        note='Assumed: the rank-2/3 NumPy theory of pyvc/mat.py (shape, zeros/empty, tile, elementwise isin/mask assignment, scatter with index matrices and row scatter where one writer wins on collisions, column slices, '
             'row gather; a rank-3 array is a matrix whose cells are opaque trailing vectors), the flatten/reshape bijection (A-FLAT: a flattened view keeps the element of (s, j); _index_of is PROVED on its real body for a flattened-matrix argument as well, its final gather tmp[arr] being elementwise), integer '
             'casts keep values (A-NOOVF), reals for floats; np.unique has as many elements as its argument exactly when the argument has no repetition (counting fact) and np.intersect1d returns a strictly increasing '
             'subset argument unchanged (Lean lemma L1). get_template_features with a row table additionally requires increasing requested ids (it returns rows in sorted order).',
        assumptions=['A-LIB rank-2/3 NumPy array theory (pyvc/mat.py)', 'A-LIB 1-D NumPy array theory (pyvc/npth.py)', 'A-FLAT', 'A-NOOVF', 'A-REAL floats as reals']),
    'C07': dict(level='proof',
        text='PROVED for all arrays: _unique (strictly increasing, exactly the non-negative values present), _spikes_in_clusters (strictly increasing, exactly the spikes of requested clusters), _index_of '
             '(position of every element in a distinct lookup with entries >= -1, table indices in range), _spikes_per_cluster (the partition: one group per cluster id present and no other, keys strictly increasing, '
             'each group strictly increasing and holding exactly the spike indices - or supplied increasing spike ids - carrying that id, every spike in the group of its id; dict keys pairwise distinct), '
             '_flatten_per_cluster (sorted union of the groups), TemplateModel.get_cluster_spikes / get_template_spikes (increasing, exactly the spikes carrying the id). '
             'BOUNDED only: _flatten_per_cluster, grouped_mean, the model queries and histograms, for all dtypes incl. unsigned, exhaustive small vectors plus random long ones.',
        note='Assumed: the 1-D NumPy theory (bincount as presence counts, nonzero, isin, mask selection, scatter/gather with wrap-around, stable argsort for kind=mergesort, diff, slice assignment); integer arrays are '
             'mathematical integers (A-NOOVF); a dict built by a comprehension with pairwise distinct integer keys (an obligation) and extended with a new key (an obligation) is an association list in insertion order; '
             'two induction facts machine-checked in Lean by the setup command and instantiated for one array each: L3 (between two positions holding different values two consecutive positions differ) and L4 (floor index).',
        assumptions=['A-LIB 1-D NumPy array theory (pyvc/npth.py)', 'A-NOOVF', 'A-DICT association-list model of int-keyed dicts', 'L3/L4 Lean-checked lemmas (lean/)']),
    'C08': dict(level='proof',
        text='PROVED for all pairs (spike_templates, spike_clusters) of equal length >= 1 with non-negative ids: TemplateModel.get_merge_map returns one list per id 0..max, each list strictly increasing (no template twice), '
             'containing exactly the templates at least one spike of that id came from (both directions), and nan_idx lists exactly the ids whose list is empty (nested loop invariants over the int-keyed dict of lists). '
             'cluster_waveforms (placement): one block per cluster id up to the maximum; a cluster stemming from a single template carries that template\'s stored waveform unchanged, a cluster without spikes is '
             'all zero, a cluster stemming from several templates carries the result of get_cluster_mean_waveforms(c, unwhiten=False), transposed, on exactly the channels that call returns. '
             'BOUNDED only: the weighted mean itself (get_cluster_mean_waveforms: floating point), the clusters == templates identity at load time, over exhaustive small curation histories plus random ones.',
        note='Assumed: the 1-D NumPy theory (np.unique, np.where/nonzero of a comparison, gather, np.max); an int-keyed dict built by {k: [] for k in range(N)} is modelled as a list of N lists (keys 0..N-1 in insertion order, '
             'which is what .items() iterates); template ids are mathematical integers (A-NOOVF).',
        assumptions=['A-LIB 1-D NumPy array theory (pyvc/npth.py)', 'A-NOOVF', 'A-DICT: {k: [] for k in range(N)} behaves as a list of N lists iterated in key order']),
    'C10': dict(level='proof', technique=FRAME_TECH, note=FRAME_NOTE,
        text='PROVED for all inputs/histories (frame contracts): save_spike_clusters writes exactly the spike-cluster file that loading reads; save_metadata writes only cluster_<name>.tsv; the subset export writes '
             'only its three files; close writes nothing; reload writes only the two load-time files. BOUNDED only: that a reload shows the last saved values (TSV codec, metadata dictionaries, subset-store waveforms '
             'equal raw windows) over all operation histories of length <= 3-4 plus random longer ones against a dictionary reference model.'),
    'C11': dict(level='proof',
        text='PROVED for any number of probes, spike counts, id ranges and time vectors: _load_multiple_spike_times (the order is a permutation of the concatenation, merged times non-decreasing, simultaneous spikes keep '
             'concatenation order = within-probe order and probe order across probes, from the stability of the sort); _load_multiple_spike_arrays (output i is the element at position order[i] of the block it came from); '
             'Merger.write_spike_clusters (loop invariants over the lists of per-probe arrays): each probe\'s cluster and template ids are shifted by ONE per-probe offset and the id ranges of different probes never collide, and the code\'s own '
             'consistency assert (largest merged id + 1 == size of the cluster-probe table) is PROVED from the fact that the spike order reaches every spike; '
             'frame contract: Merger.merge writes only below the output directory (inputs are only read). BOUNDED only: renumbered TSV metadata, the probe table, amplitudes, byte-identity of inputs, end-to-end merges of 1-4 generated probes.',
        note='Assumed: 1-D NumPy theory (stable argsort, gather, in-place +=, np.max, concatenation of lists of arrays); np.load returns fresh arrays; ids non-negative; every probe has a spike; the spike order is onto the '
             'concatenation (a precondition of write_spike_clusters, which is what _load_multiple_spike_times ensures: a permutation); frame assumptions A-PURE / A-FS.',
        assumptions=['A-LIB 1-D NumPy array theory (pyvc/npth.py)', 'A-PURE', 'A-FS']),
    'C12': dict(level='proof',
        text='PROVED for any number of probes, channel counts and channel maps: Merger.write_channel_data (loop invariant over the list of per-probe arrays) — the merged channel map consists of the probes\' maps '
             'as contiguous blocks in input order, each shifted by ONE per-probe constant (registered in channel_offsets), and channel_probe labels block k with k; _concat = blocks in order. BOUNDED only: '
             'positions (x translation), templates (block placement, fixed by a fix: commit), index tables, block-diagonal matrices, params, on 1-5 generated probes (several recorded findings).',
        note='Assumed: np.load gives fresh arrays equal to the files (in-place += touches copies only), 1-D NumPy theory incl. in-place augmented assignment and concatenation of a list of arrays (rpsum with its defining recurrence and prefix determinacy), '
             'every probe has at least one channel.',
        assumptions=['A-LIB np.concatenate of a list of 1-D arrays', 'A-LIB np.load returns fresh arrays', 'A-NOOVF']),
    'C13': dict(level='proof', technique=FRAME_TECH, note=FRAME_NOTE,
        text='PROVED for all inputs (frame contract): EphysAlfCreator.convert refuses (IOError) before any effect when output and source directories resolve to the same path; otherwise it writes only below the output '
             'directory, adds only the three subset files to the source and deletes only the temporary whitened file. BOUNDED only: first dimensions of the exported tables, uuids, labels, reload equality, on generated dense datasets.'),
    'C14': dict(level='proof',
        text='PROVED for any number of probes and any channel maps: make_channel_objects re-expresses the raw index of every channel relative to the shift of ITS probe (channel c of the q-th probe gets its merged map '
             'entry minus the maximum map entry of the previous probe, 0 for the first) — loop invariant over the unique probes with boolean-mask gather/assignment; together with the Merger contract (C12: block k is shifted by the '
             'maximum of block k-1) this recovers each probe\'s original channel map. BOUNDED only: nearest-channel lists, waveforms / amplitudes with the unit factor, depths, durations (numeric), on generated datasets and real merges of 1-4 probes.',
        note='Assumed: 1-D NumPy theory (np.unique, comparisons, boolean-mask selection and assignment sharing one enumeration per mask, np.max); pmax(q) is defined by its two requires clauses.',
        assumptions=['A-LIB 1-D NumPy array theory (pyvc/npth.py)']),
    'C17': dict(level='proof',
        text='PROVED for all grids / kept counts / times: SpikeSelector.__init__ keeps whole grid intervals at SOME regular stride starting with the first chunk, never more than requested, every strided chunk kept '
             '(loop invariant, existential stride with witness); _times_in_chunks flags a time exactly when it lies in some kept half-open interval (parity argument over the assumed searchsorted contract, incl. '
             'duplicated inner bounds); SpikeSelector.__call__ for any requested (distinct) clusters, any callback, with/without chunk restriction, spike subset and count: the result is strictly increasing and every '
             'selected spike is listed by the callback for a requested cluster, lies in a kept chunk when chunk restriction is requested and belongs to the subset when one is given (loop invariant over the selection '
             'dict, then the proved contract of _flatten_per_cluster). BOUNDED only: the count clause (all eligible spikes when at most n, exactly n otherwise; the RNG draw), unknown clusters, '
             'save_spikes_subset_waveforms, against a set-comprehension oracle over exhaustive small inputs and 4-20 RNG seeds.',
        note='Assumed: np.searchsorted(side=right); smul(q,s)=q*s by its defining recurrence; np.random.choice(a, n, replace=False) returns n elements of a; the callback get_spikes_per_cluster(c) returns valid spike '
             'indices it lists for c (spike_of, uninterpreted); 1-D NumPy theory (gather, mask selection, intersect1d, unique, concatenate); association-list model of the selection dict (keys = requested clusters, distinct).',
        assumptions=['A-LIB np.searchsorted(side=right) contract', 'A-LIB np.random.choice without replacement', 'A-CB callback get_spikes_per_cluster', 'A-LIB 1-D NumPy array theory (pyvc/npth.py)', 'A-DICT association-list model of int-keyed dicts']),

    'C19': dict(level='proof',
        text='PROVED for all values/histories via per-operation contracts over ghost state: ProgressReporter (_set_value, increment, value/value_max setters, reset, set_complete, is_complete, __init__) keeps the invariant '
             'flag == "completion announced since the value was last set below the maximum or the maximum was last raised" and announces completion exactly when a value update reaches the maximum un-announced, with progress '
             'emitted on every update; EventEmitter reset/__init__/set_silent/silent()/connect (view = list of registrations: append order, frame); emit over a ghost call trace (callable, registration index, return '
             'value per call), for any number of registrations: only registered callbacks matching event and sender filter are called, every matching one is called, in registration order with the last-marked after all '
             'others, each receives the sender and the arguments unchanged, results come back in call order, nothing is called while silenced, registrations unchanged; with single=True exactly the first matching callback in '
             'that order is called and its result returned (an empty list when nothing matches); unconnect keeps, in order, exactly the registrations whose callback, sender filter and bound object are not among the items. '
             'BOUNDED in addition: all operation histories of bounded depth against the view model (composition of the per-operation contracts).',
        note='Assumed: the module-level emit is the global emitter bound method (its effect is counted in ghost state); callbacks do not re-enter the emitter; reset() is not a value update.',
        assumptions=['A-NOREENTRY callbacks do not call back into the emitter', 'A-LIB _get_on_name regular expression']),
    'C20': dict(level='proof',
        text='PROVED over a ghost world (scripted server responses, target file content, checksum availability): every path of download_file (23 paths), _check_md5_of_url (try/except/finally, tri-state), _check_md5, _download, '
             'download_text_file: a normal return with the checksum available implies md5(file) == published; a valid existing file causes no data request; a first mismatch causes exactly one more request; persistent mismatch '
             'raises RuntimeError; HTTP errors raise. BOUNDED: all scripts of length <= 3 x checksum {correct, wrong, missing} x prior file states against a real in-process HTTP server.',
        note='Assumed: requests.get / raise_for_status / _save_stream / _md5 / Path.exists primitives as stated in contracts/c20.py (md5 uninterpreted); the checksum URL behaves the same within one call.',
        assumptions=['A-LIB requests.get scripted-server contract', 'A-LIB _md5 is the MD5 of the file', 'A-LIB _save_stream writes the body to the target']),
}
