"""C08 — curated clusters get the right template provenance (DESIGN 4/C08): the merge map."""
from pyvc.contract import contract, declare_class

M = 'phylib/io/model.py'
declare_class('TemplateModel', M, fields={'spike_clusters': 'arr[int]', 'spike_templates': 'arr[int]'})
_SC, _ST = 'self.spike_clusters', 'self.spike_templates'
_FROM = lambda row, upto: 'all(any(%s[s] == %s[j] and %s[s] == c for s in range(len(%s))) %s for j in range(len(%s)))' % (_ST, row, _SC, _SC, upto, row)

contract(M, 'TemplateModel.get_merge_map', props=['C08'], params={}, fields={'spike_clusters': 'arr[int]', 'spike_templates': 'arr[int]'},
    requires=[('one-assignment-per-spike', 'len(%s) == len(%s) and len(%s) >= 1' % (_SC, _ST, _SC)),
              ('ids-non-negative', 'all(%s[s] >= 0 and %s[s] >= 0 for s in range(len(%s)))' % (_SC, _ST, _SC))],
    result='tuple[rag[int],arr[int]]',
    locals={'inverse_mapping_dict': 'rag[int]'},
    loops={
      0: {'idx': 't', 'seq': 'U', 'invariant': [
        ('keys', '0 <= t and t <= len(U) and len(inverse_mapping_dict) >= 1 and all(%s[s] < len(inverse_mapping_dict) for s in range(len(%s))) and any(%s[s] == len(inverse_mapping_dict) - 1 for s in range(len(%s)))' % (_SC, _SC, _SC, _SC)),
        ('entries-are-templates-already-processed-whose-spikes-are-in-the-cluster',
         'all(all(any(U[q] == inverse_mapping_dict[c][j] for q in range(t)) and any(%s[s] == inverse_mapping_dict[c][j] and %s[s] == c for s in range(len(%s))) for j in range(len(inverse_mapping_dict[c]))) for c in range(len(inverse_mapping_dict)))' % (_ST, _SC, _SC)),
        ('lists-strictly-increasing', 'all(all(inverse_mapping_dict[c][i] < inverse_mapping_dict[c][j] for i in range(len(inverse_mapping_dict[c])) for j in range(i + 1, len(inverse_mapping_dict[c]))) for c in range(len(inverse_mapping_dict)))'),
        ('every-spike-of-a-processed-template-is-recorded', 'all(implies(any(U[q] == %s[s] for q in range(t)), any(inverse_mapping_dict[%s[s]][j] == %s[s] for j in range(len(inverse_mapping_dict[%s[s]])))) for s in range(len(%s)))' % (_ST, _SC, _ST, _SC, _SC))]},
      1: {'idx': 'm', 'seq': 'Mp', 'invariant': [
        # only the difference to the dictionary D1 at the start of this template's pass: clusters already visited got temp appended
        ('keys', '0 <= m and m <= len(Mp) and len(inverse_mapping_dict) == len(D1)'),
        ('old-entries-kept', 'all(all(inverse_mapping_dict[c][j] == D1[c][j] for j in range(len(D1[c]))) for c in range(len(D1)))'),
        ('visited-clusters-got-temp', 'all(implies(any(Mp[q] == c for q in range(m)), len(inverse_mapping_dict[c]) == len(D1[c]) + 1 and inverse_mapping_dict[c][len(D1[c])] == temp) for c in range(len(D1)))'),
        ('other-lists-untouched', 'all(implies(not any(Mp[q] == c for q in range(m)), len(inverse_mapping_dict[c]) == len(D1[c])) for c in range(len(D1)))')]}},
    cuts=[('mapping = np.unique', 'mapping-lists-the-clusters-of-temp-spikes', 'all(implies(%s[s] == temp, any(mapping[q] == %s[s] for q in range(len(mapping)))) for s in range(len(%s)))' % (_ST, _SC, _SC)),
          ('mapping = np.unique', 'each-mapped-cluster-has-a-temp-spike', 'all(any(%s[s] == temp and %s[s] == mapping[q] for s in range(len(%s))) for q in range(len(mapping)))' % (_ST, _SC, _SC)),
          ('before:for n in mapping', 'let:D1', 'inverse_mapping_dict'),
          ('before:for n in mapping', 'old-entries-are-smaller-than-temp', 'all(all(D1[c][j] < temp for j in range(len(D1[c]))) for c in range(len(D1)))'),
          ('for n in mapping', 'lists-grow-by-at-most-one', 'len(inverse_mapping_dict) == len(D1) and all(len(D1[c]) <= len(inverse_mapping_dict[c]) and len(inverse_mapping_dict[c]) <= len(D1[c]) + 1 for c in range(len(D1)))'),
          ('for n in mapping', 'new-entries-are-temp-in-mapped-clusters', 'all(implies(len(inverse_mapping_dict[c]) == len(D1[c]) + 1, inverse_mapping_dict[c][len(D1[c])] == temp and any(mapping[q] == c for q in range(len(mapping)))) for c in range(len(D1)))')],
    # from the statement: "every cluster id from 0 to the maximum maps to exactly the set of templates its spikes came from, and ids without spikes are reported as empty"
    ensures=[('one-key-per-id-up-to-the-maximum', 'len(result[0]) >= 1 and all(%s[s] < len(result[0]) for s in range(len(%s))) and any(%s[s] == len(result[0]) - 1 for s in range(len(%s)))' % (_SC, _SC, _SC, _SC)),
             ('only-templates-its-spikes-came-from', 'all(all(any(%s[s] == result[0][c][j] and %s[s] == c for s in range(len(%s))) for j in range(len(result[0][c]))) for c in range(len(result[0])))' % (_ST, _SC, _SC)),
             ('every-template-a-spike-came-from', 'all(any(result[0][%s[s]][j] == %s[s] for j in range(len(result[0][%s[s]]))) for s in range(len(%s)))' % (_SC, _ST, _SC, _SC)),
             ('no-template-listed-twice', 'all(all(result[0][c][i] < result[0][c][j] for i in range(len(result[0][c])) for j in range(i + 1, len(result[0][c]))) for c in range(len(result[0])))'),
             ('ids-without-spikes-reported-as-empty', 'all(iff(any(result[1][j] == c for j in range(len(result[1]))), len(result[0][c]) == 0) for c in range(len(result[0])))')])
